"""C12 — the RCU lock-free queue cds_lfq_*_rcu is a linearizable FIFO; also the rculfqueue facet of C17
(`c17_part(chk)`, used by the aggregated C17 check).  DESIGN.md §4 C12 / C17, §10.4 findings 3 and 4.

Proof part: Lean model Lfq/Model.lean (one step per load / cmpxchg of _cds_lfq_enqueue_rcu, enqueue_dummy,
_cds_lfq_dequeue_rcu, destroy; any number of threads, every interleaving, nodes and dummies recycled after an
abstract grace period), invariant Lfq/Inv*.lean, the same model on x86-TSO with explicit store buffers
(Lfq/TsoModel.lean) and its simulation into the SC model (Lfq/TsoSim.lean), theorems of Props/C12.lean (refinement to a sequential FIFO,
history / trace form, exactly-once, NULL only when empty, dummies never returned, reclamation only after a grace
period, no ABA / use-after-free, destroy iff empty) and Props/C17Lfq.lean (solo-run termination with the explicit
measure `mu`).  The theorems are about `Current c` (helpTail = destroyWalk = true) = the text in /repo today; the
two older texts are kept as switches of the model and shown defective in Lfq/Neg.lean.
Tie: harness/scen/lfq.c compiles the REAL src/rculfqueue.c + static header and the REAL src/urcu.c (memb with and
without sys_membarrier, mb; read-side sections, synchronize_rcu, call_rcu with its helper thread as a cooperative
thread) under the macro shim; every trace is replayed by Driver/Lfq.lean (event-level transliteration, current text
only: a source that goes back to one of the older texts diverges at the first differing event) on the proven model;
independent C oracles in the scenario check FIFO linearizability of the recorded history, exactly-once, dummies,
destroy, grace periods and every access to freed memory (one node per page, PROT_NONE quarantine).
"""
import concurrent.futures
import os
import re
import tempfile

import vlib

L = "UrcuVerif.Lfq."
THEOREMS = [L + x for x in (
    "lfq_refines_fifo", "lfq_trace_refines", "lfq_history", "linearisation_inside_call", "deq_linearizes", "null_linearizes",
    "destroy_linearizes", "unit_linearizes", "enq_linearizes", "tail_lags_at_most_one", "dummy_never_returned",
    "always_one_node", "each_node_dequeued_once", "dummy_freed_after_gp", "no_aba", "reclaim_blocked_while_held",
    "cas_next_success_means_last", "destroy_iff_empty", "dequeue_null_only_if_empty_at_some_instant",
    "private_until_published", "C12_full_holds", "inv_step", "reach_inv",
    # x86-TSO: the model with store buffers simulates into the SC model; the property restated on the TSO machine
    "tso_simulates_sc", "tso_step_is_sc_step", "tso_loads_see_sc_memory", "tso_buffers_private", "tso_refines_fifo",
    "tso_trace_refines", "C12_tso_full_holds", "Tso.sim_step", "Tso.treach_sim", "Tso.sim_abs",
    "Tso.Neg.uaf_reachable_without_drain",
    "Neg.uaf_reachable_unfixed", "Neg.destroy_eperm_on_empty_reachable_unfixed")]
UNPROVED = []   # C12_full is proved at the level of the model (C12_full_holds); what is not a theorem is listed in TRUSTED
C17 = "UrcuVerif.C17Lfq."
THEOREMS17 = [C17 + x for x in (
    "lfq_never_waits", "lfq_every_own_step_decreases_mu", "lfq_enqueue_solo_terminates", "lfq_dequeue_solo_terminates",
    "lfq_cas_fails_only_by_interference", "lfq_link_retry_succeeds", "soloExec_sound")] + [
    L + "solo_progress", L + "solo_terminates_inv", L + "mu_le", L + "own_step_decreases"]
AUDIT_MODS = ["UrcuVerif.Lfq", "UrcuVerif.Props.C12", "UrcuVerif.Props.C17Lfq", "UrcuVerif.Machine"]
TRUSTED = [
    "Lean 4.33 kernel; axioms ⊆ {propext, Classical.choice, Quot.sound}",
    "memory model: x86-TSO as in Lfq/TsoModel.lean – the plain initialising stores of a node / dummy (cds_lfq_node_init_rcu: "
    "next = NULL, dummy = 0; make_dummy: next = NULL, dummy = 1) go through the issuing thread's FIFO store buffer (flush = "
    "environment step), loads read the own buffer first, the five cmpxchg sites are locked RMWs that need an empty own buffer "
    "and act on memory atomically (hardware guarantee for lock-prefixed instructions; without it a use-after-free is reachable: "
    "Tso.Neg.uaf_reachable_without_drain); section entry/exit is modelled without any fence (weakest flavor); the theorems "
    "tso_simulates_sc / C12_tso_full_holds transfer the whole property to that machine; dummy->q (read only by the remover after "
    "its own locked CAS) and the rcu_head are not modelled; the classification of the accesses is cross-checked on every trace "
    "(the driver accepts only LD and seq_cst CAS events on q.head, q.tail and the next word of nodes / dummies inside the "
    "operations; coverage.queue_word_accesses counts them over all traces: the plain stores are not shim events at all)",
    "grace periods are abstract (GpSpec): a removed node / dummy may be reclaimed only when every read-side section that is open "
    "began after its removal; the harness maps the real rcu_read_lock/unlock, synchronize_rcu() and call_rcu() of src/urcu.c "
    "(memb with / without sys_membarrier, mb) to these steps and the model's guard is re-checked at every real reclamation "
    "(free by the call_rcu callback, free / reuse by the application) on the explored schedules (composition by interface; "
    "the flavors themselves are C01/C03); bp and qsbr flavors are not linked into this scenario",
    "API contract assumed: enqueue/dequeue inside read-side sections; a dequeued node is re-enqueued / freed only after a grace "
    "period; destroy is called at quiescence; malloc does not fail",
    "tie: Driver/Lfq.lean = event-level transliteration of the CURRENT C text replayed on the proven model on the explored "
    "schedules only (cooperative SC scheduler); L1 ⊑ L2 is checked per run, not proved; harness/rt runtime + macro shim; the plain "
    "reads head->dummy / node->next of destroy and the plain initialising stores are not events (their effect is checked through "
    "the values later read atomically, the FREE markers of the allocator hook and the return values)",
    "C17: 'solo' = all other application threads frozen wherever they are (vrt_freeze), the call_rcu helper thread may still run; "
    "own steps are counted in loads/CASes of the operation; fairness/termination of user callbacks is outside"]
OWN12 = {"fifo", "dup", "fresh", "null", "dummy", "count", "destroy", "gp", "quarantine", "DEADLOCK", "BUDGET", "crash"}
OWN17 = {"solo", "DEADLOCK", "BUDGET"}

RT = os.path.join(vlib.HARN, "rt")
SCEN = os.path.join(vlib.HARN, "scen")
BIN = os.path.join(vlib.LEAN, ".lake", "build", "bin")

# (name, binary, VRT_MEMBARRIER, description)
CONFIGS = [
    ("memb/membarrier", "lfq_memb", "1", "urcu-memb, sys_membarrier available"),
    ("memb/fallback", "lfq_memb", "0", "urcu-memb, sys_membarrier unavailable (mb fallback)"),
    ("mb", "lfq_mb", "0", "urcu-mb"),
]
# branches of the driver's transliteration that the quick tier must exercise (coverage is part of the verdict)
REQUIRED = ["init", "destroy_ok", "destroy_eperm", "destroy_ok_several_dummies", "enq_link_adv_ok", "enq_link_adv_lost",
            "enq_help_ok", "enq_help_lost", "enq_recycled_node", "deq_null", "deq_node", "deq_dummy_skipped", "deq_enqueue_dummy",
            "deq_cas_head_lost", "deq_help_tail_ok", "reclaim_dummy", "reclaim_node"]
REQUIRED17 = ["solo_run", "solo_run_long"]
NONTRIVIAL = ("enq_link_adv_lost", "enq_help_ok", "enq_help_lost", "deq_cas_head_lost", "deq_help_tail_ok", "deq_help_tail_lost",
              "destroy_ok_several_dummies")
MODES = ("uaf-node", "uaf-dummy", "two-dummies")
QWORD = rb"(?:q\.head|q\.tail|node\d+|dummy\d+)"


def build():
    srcs = [os.path.join(SCEN, "lfq.c"), os.path.join(RT, "vrt.c"), os.path.join(RT, "vrt_compat_futex.c")] + vlib.rsrc("compat_arch.c")
    ok, log = vlib.cc("lfq_memb", srcs, ["-w", "-DRCU_MEMBARRIER"])
    if not ok:
        return False, log
    return vlib.cc("lfq_mb", srcs, ["-w", "-DRCU_MB"])


def one(cfg, seed, extra=()):
    """Run one schedule; returns dict(verdict=ok|diverge|oracle|crash, ...)."""
    name, binary, memb, _ = cfg
    fd, tpath = tempfile.mkstemp(prefix="c12_", suffix=".trace", dir=vlib.BUILD)
    os.close(fd)
    args = [os.path.join(vlib.BUILD, binary), "--seed", str(seed)] + [str(x) for x in extra]
    res = {"config": name, "cmd": args, "env": {"VRT_MEMBARRIER": memb}, "scenario": "lfq"}
    try:
        rc, out, err = vlib.sh2(args + ["--trace", tpath], timeout=120, env={"VRT_MEMBARRIER": memb})
        res["rc"] = rc
        kinds = re.findall(r"ORACLE (\w+)", err)
        try:
            with open(tpath, "rb") as f:
                trace = f.read()
        except OSError:
            trace = b""
        res["events"] = trace.count(b"\n")
        # classification of the accesses assumed by Lfq/TsoModel.lean: the queue's words are only loaded or CASed
        res["acc"] = {k.decode(): len(re.findall(rb"^T\d+ " + k + rb" " + QWORD + rb" ", trace, re.M)) for k in (b"LD", b"CAS")}
        # any other primitive on these words inside an operation is a divergence of the driver; outside (an application that
        # initialises nodes with an atomic store, say) it is harmless – stronger than the buffered plain store of the model – and
        # only counted
        res["acc"]["other (ST/XCHG/ADD/...)"] = len(re.findall(rb"^T\d+ (?:ST|XCHG|ADD|ADDR|SUB|SUBR|AND|OR) " + QWORD + rb" ", trace, re.M))
        m = re.search(rb"# END steps=(\d+)", trace[-400:])
        res["steps"] = int(m.group(1)) if m else res["events"]
        if rc not in (0, 3, 4, 5):
            # the real code crashed under this schedule (assertion of the library, SIGSEGV outside the quarantine arena, ...)
            res.update(verdict="crash", kinds=["crash"], stderr=err[-600:],
                       oracle=["implementation crashed: exit status %d: %s" % (rc, (err.strip().splitlines() or ["?"])[-1][:200])])
            return res
        drc, dout = vlib.sh([os.path.join(BIN, "drv_lfq")], inp=trace, timeout=300)
        res["driver"] = dout.strip().splitlines()[:2]
        if kinds:
            res.update(verdict="oracle", kinds=kinds, oracle=[l for l in err.strip().splitlines() if "ORACLE" in l][:4])
        elif drc != 0:
            res.update(verdict="diverge")

        else:
            res.update(verdict="ok")
            res["cov"] = dict((k, int(v)) for k, v in (x.split("=") for x in dout.split()[2:] if "=" in x))
        return res
    finally:
        for p in (tpath, tpath + ".choices"):
            try:
                os.unlink(p)
            except OSError:
                pass


def plan(rng, k, c17):
    """scenario parameters + strategy of run k"""
    threads = 2 + k % 3
    ops = rng.choice([8, 14, 24, 36])
    nodes = rng.choice([2, 3, 5, 8]) if k % 3 else rng.choice([1, 4, 12])
    extra = ["--threads", threads, "--ops", ops, "--nodes", nodes, "--freepct", rng.choice([0, 30, 60])]
    if c17:
        extra += ["--solo", rng.choice([15, 30, 50]), "--park", rng.choice([5, 12, 25])]
    else:
        extra += ["--solo", rng.choice([0, 3]), "--park", rng.choice([0, 4, 10, 20])]
    if k % 5 == 3:
        extra += ["--strategy", "pct", "--pctd", 1 + k % 4, "--pctlen", rng.choice([300, 1200, 4000])]
    else:
        extra += ["--pswitch", rng.choice([3, 8, 20, 35, 60, 85])]
    return extra


def jobs_random(chk, n, c17, seed_base=0):
    js = []
    for cfg in CONFIGS:
        for k in range(n):
            js.append((cfg, chk.seed * 100000 + seed_base + k, plan(chk.rng, k, c17)))
    return js


def jobs_directed(chk, n):
    """directed schedules: E suspended between link and tail advance while D dequeues the node the tail points to and has it
    reclaimed, then a late enqueuer F (uaf-node / uaf-dummy); two dequeuers inserting a dummy each (two-dummies)."""
    js = []
    for cfg in CONFIGS:
        for m in MODES:
            for k in range(n):
                js.append((cfg, chk.seed * 1000 + k, ["--mode", m, "--pswitch", [0, 5, 25, 50][k % 4]]))
    return js


def jobs_sweep(chk, stride, cfgs=(0, 2)):
    """systematic one-preemption sweep on a small scenario: non-preemptive base schedule + ONE forced preemption to thread
    `tid` at global step N, for every N (stride) of the base run: every thread is suspended once at each of its primitives
    (in particular between link and tail advance, between the loads and the CAS on q.head) while another runs its whole program."""
    js = []
    for ci in cfgs:
        cfg = CONFIGS[ci]
        for seed, threads, ops, nodes in ((chk.seed, 3, 5, 3), (chk.seed + 17, 2, 7, 2), (chk.seed + 40, 4, 3, 2)):
            base = ["--strategy", "sweep", "--threads", threads, "--ops", ops, "--nodes", nodes, "--park", 0, "--solo", 0]
            r = one(cfg, seed, base)
            steps = min(r.get("steps", 0), 1500)
            for n in range(1, max(2, steps), stride):
                for tid in range(2, 2 + threads):
                    js.append((cfg, seed, base + ["--preempt-at", n, "--preempt-tid", tid, "--preempt-len", 4]))
    return js


def run_jobs(js, stop_after=3):
    """run jobs in parallel; returns (results, fails)"""
    results, fails = [], []
    with concurrent.futures.ThreadPoolExecutor(max_workers=max(2, vlib.NCPU // 2)) as ex:
        futs = [ex.submit(one, *j) for j in js]
        for f in futs:
            r = f.result()
            results.append(r)
            if r["verdict"] != "ok":
                fails.append(r)
    fails.sort(key=lambda r: 0 if r["verdict"] == "oracle" else 1 if r["verdict"] == "crash" else 2)
    return results, fails[:max(stop_after, 1) * 4]


def record(chk, results):
    hist = chk.cov.setdefault("branch_histogram", {})
    per_cfg = chk.cov.setdefault("runs_per_config", {})
    nontriv = chk.cov.setdefault("_nontriv", set())
    per_str = chk.cov.setdefault("runs_per_strategy", {})
    for r in results:
        chk.cov["evaluations"] += 1
        per_cfg[r["config"]] = per_cfg.get(r["config"], 0) + 1
        a = [str(x) for x in r["cmd"]]
        st = ("directed:" + a[a.index("--mode") + 1]) if "--mode" in a else \
            ("one-preemption sweep" if "sweep" in a else "pct" if "pct" in a else "random walk")
        per_str[st] = per_str.get(st, 0) + 1
        if r["verdict"] != "ok":
            continue
        chk.cov["traces_validated_against_impl"] = chk.cov.get("traces_validated_against_impl", 0) + 1
        chk.cov["events_compared"] = chk.cov.get("events_compared", 0) + r["events"]
        acc = chk.cov.setdefault("queue_word_accesses", {"LD": 0, "CAS": 0, "other (ST/XCHG/ADD/...)": 0})
        for k, v in r.get("acc", {}).items():
            acc[k] += v
        for k, v in r["cov"].items():
            if k == "solo_max_steps":
                chk.cov["solo_max_own_steps"] = max(chk.cov.get("solo_max_own_steps", 0), v)
            elif k == "solo_min_slack":
                continue
            else:
                hist[k] = hist.get(k, 0) + v
        if any(r["cov"].get(k, 0) for k in NONTRIVIAL):
            nontriv.add((r["config"], r["driver"][0]))
            chk.sample({"config": r["config"], "args": " ".join(r["cmd"][1:]), "driver": r["driver"][0][:300]})
    chk.cov["distinct_nontrivial"] = len(nontriv)


def finish_cov(chk, what, required):
    chk.cov.pop("_nontriv", None)
    hist = chk.cov.get("branch_histogram", {})
    missing = [k for k in required if not hist.get(k)]
    chk.cov["required_branches_missing"] = missing
    if missing:
        chk.notes.append("coverage: branches not exercised in this run: " + ", ".join(missing))
    chk.cov["rule"] = (what + ": schedules of harness/scen/lfq.c (the real src/rculfqueue.c + urcu/static/rculfqueue.h and the real "
                       "src/urcu.c under the shim; 2-4 application threads + the call_rcu helper thread, 8-36 operations per thread in "
                       "read-side sections of 1-3 operations, 1-12 user nodes freed (quarantined) or re-enqueued after "
                       "synchronize_rcu() / from a call_rcu callback, threads suspended for long between any two primitives of an "
                       "operation, init/destroy on empty, non-empty and dummies-only queues) for 3 configurations (memb with and "
                       "without sys_membarrier, mb), drawn from VERIF_SEED with random walk (6 switch probabilities), PCT (d = 1..4), "
                       "the systematic one-preemption sweep (every thread suspended once at every primitive of a small scenario) and "
                       "the directed schedules uaf-node / uaf-dummy / two-dummies (DESIGN 10.4 findings 3, 4); every event replayed "
                       "on the proven model by Driver/Lfq.lean, history checked by the independent C oracles; non-trivial = the run "
                       "contains a real interference (lost / helping tail CAS, failed link CAS, failed head CAS, destroy over several "
                       "dummies); distinct = different (configuration, driver coverage summary)")


def own_fail(fails, own):
    for f in fails:
        if f["verdict"] in ("oracle", "crash") and any(k in own for k in f["kinds"]):
            return f
    return None


def report(chk, fails, own, search):
    if not fails:
        return
    f = own_fail(fails, own)
    if f:
        chk.fail("schedule", dict(f, what="implementation oracle: " + "; ".join(f["oracle"])))
        return
    found = search() if search else None
    if found:
        chk.fail("schedule", dict(found, what="implementation oracle: " + "; ".join(found["oracle"]),
                                  first_divergence=fails[0].get("driver")))
        return
    f = fails[0]
    chk.fail("divergence",
             dict(f, correspondence="Driver/Lfq.lean vs src/rculfqueue.c + include/urcu/static/rculfqueue.h",
                  what="the implementation is no longer a run of the proven model of the current text (or fails an oracle owned by "
                       "another property: %s)" % ",".join(sorted(set(sum([x.get("kinds", []) for x in fails], []))))), nofail=True)


def searcher(chk, own, c17, n):
    def go():
        js = jobs_directed(chk, 4) + jobs_random(chk, n, c17, seed_base=50000) + jobs_sweep(chk, 1)
        with concurrent.futures.ThreadPoolExecutor(max_workers=max(2, vlib.NCPU // 2)) as ex:
            for r in ex.map(lambda j: one(*j), js):
                if r["verdict"] in ("oracle", "crash") and any(k in own for k in r["kinds"]):
                    return r
        return None
    return go


def run(chk):
    chk.assumptions = TRUSTED
    chk.cov["trusted_base"] = TRUSTED
    if not chk.proof_part(["UrcuVerif.Props.C12", "drv_lfq"], "UrcuVerif.Props.C12", THEOREMS, AUDIT_MODS, unproved=UNPROVED):
        # a broken proof obligation: still look for a concrete failing schedule on the implementation
        ok, log = build()
        if ok and chk.violations:
            found = searcher(chk, OWN12, False, 60)()
            if found:
                chk.violations[-1]["no_failing_input_found"] = False
                chk.violations[-1].update(dict(found, what="implementation oracle: " + "; ".join(found["oracle"])))
        return
    ok, log = build()
    if not ok:
        chk.fail("build", {"theorem": "harness/scen/lfq.c does not compile against /repo", "lean_error": log[-2000:]}, nofail=True)
        return
    quick = chk.tier == "quick"
    results, fails = run_jobs(jobs_directed(chk, 2 if quick else 16) + jobs_random(chk, 60 if quick else 2500, False))
    record(chk, results)
    if not fails:
        results, fails = run_jobs(jobs_sweep(chk, 2 if quick else 1, cfgs=(0, 2) if quick else (0, 1, 2)))
        record(chk, results)
        chk.cov["sweep_runs"] = len(results)
    finish_cov(chk, "C12", REQUIRED)
    try:   # informational: the stores Lfq/TsoModel.lean routes through the store buffer are plain assignments in today's text
        hdr = open(os.path.join(vlib.REPO, "include", "urcu", "static", "rculfqueue.h")).read()
        chk.cov["plain_init_stores_in_source"] = {pat: (pat in hdr) for pat in (
            "node->next = NULL;", "node->dummy = 0;", "dummy->parent.next = next;", "dummy->parent.dummy = 1;")}
        chk.cov["cmpxchg_sites_in_source"] = hdr.count("uatomic_cmpxchg_mo(")
    except OSError:
        pass
    report(chk, fails, OWN12, searcher(chk, OWN12, False, 150 if quick else 1500))
    if not fails and chk.cov["required_branches_missing"]:
        # a coverage gap is a property of the generator, not of /repo: recorded, never an alarm
        chk.notes.append("coverage: required branches of the transliteration not exercised in this run: " +
                         ", ".join(chk.cov["required_branches_missing"]))


def c17_part(chk):
    """rculfqueue facet of C17: proof part of Props/C17Lfq.lean + freeze / solo-run schedules (--solo, --park).
    Returns the list of failing results (already reported through chk)."""
    if not chk.proof_part(["UrcuVerif.Props.C17Lfq", "drv_lfq"], "UrcuVerif.Props.C17Lfq", THEOREMS17, AUDIT_MODS):
        return []
    ok, log = build()
    if not ok:
        chk.fail("build", {"theorem": "harness/scen/lfq.c does not compile against /repo", "lean_error": log[-2000:]}, nofail=True)
        return []
    quick = chk.tier == "quick"
    results, fails = run_jobs(jobs_random(chk, 50 if quick else 1200, True, seed_base=20000))
    record(chk, results)
    hist = chk.cov.get("branch_histogram", {})
    miss = [k for k in REQUIRED17 if not hist.get(k)]
    chk.cov["lfq_required_branches_missing"] = miss
    chk.cov["lfq_solo_bounds"] = {
        "enqueue": "<= 8 own loads/CASes from anywhere inside, <= 6 from the call (model: lfq_enqueue_solo_terminates); "
                   "harness oracle: <= 8 primitives incl. the legacy fence",
        "dequeue": "<= mu(s) <= 6*(dummies in the chain + 1) + 25, from the call 6*dummies + 14 (model: lfq_dequeue_solo_terminates); "
                   "harness oracle: <= 5*live dummies + 14 primitives",
        "unit": "own loads / CASes of the operation with every other application thread frozen wherever it is; the driver "
                "compares each solo run's count with mu of the model state at the call",
        "max_own_steps_seen": chk.cov.get("solo_max_own_steps", 0)}
    report(chk, fails, OWN17, searcher(chk, OWN17, True, 100 if quick else 1000))
    if not fails and miss:
        chk.notes.append("coverage: C17/lfq required solo-run branches not exercised in this run: " + ", ".join(miss))
    return fails


def replay(rp):
    ok, log = build()
    if not ok:
        print(log)
        return 2
    if "cmd" not in rp:
        import json
        print(json.dumps(rp, indent=1))
        return 1
    fd, tpath = tempfile.mkstemp(prefix="c12_replay_", suffix=".trace", dir=vlib.BUILD)
    os.close(fd)
    args = [os.path.join(vlib.BUILD, os.path.basename(rp["cmd"][0]))] + [str(x) for x in rp["cmd"][1:]] + ["--trace", tpath]
    rc, out, err = vlib.sh2(args, timeout=120, env=rp.get("env") or {})
    with open(tpath, "rb") as f:
        trace = f.read()
    drc, dout = vlib.sh([os.path.join(BIN, "drv_lfq")], inp=trace, timeout=300)
    print(err.strip())
    print(dout.strip())
    print("harness exit status %d, driver %d; trace kept at %s" % (rc, drc, tpath))
    return 1 if (rc != 0 or drc != 0) else 0


def src_search(chk):
    """a refinement theorem of the source-translator tie broke: wider search for a concrete failing schedule"""
    return searcher(chk, OWN12, False, 400 if chk.tier == "quick" else 4000)()
