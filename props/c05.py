"""C05 — concurrent cds_lfht: linearizable, resident nodes never missed.  DESIGN.md §4 C05.
Also the machinery shared with C06 (props/c06.py), C07 (props/c07.py) and the lfht facet of C17 (`c17_part(chk)`).

Proof part: Lean model Lfht/Conc/{Types,Model,Step,Step2,Step3}.lean (one step per load of a `next` word / of
ht->size and per read-modify-write, any number of threads, ghost list, life cycle, abstract grace period, resize levels
and partition helpers) with the invariants Lfht/Conc/Inv*.lean and the statements of Props/C05.lean (C06.lean, C07.lean,
C17Lfht.lean).  The theorem lists below are module-level constants; a Props file that is not present is reported as
unproved in the evidence and the tie still runs.

Tie: harness/scen/lfht_conc.c compiles the REAL src/rculfhash.c (+ src/urcu.c memb flavor, src/workqueue.c, the three
rculfhash-mm-*.c) under the macro shim; 2-4 worker threads + a resizer (+ the lazy-resize worker of the library) run
add / add_unique / add_replace / replace / del / lookup / next_duplicate / first-next mixes on few keys with colliding
hashes while the table grows and shrinks; every trace is replayed by Driver/LfhtConc.lean (L1 transliteration of the C
text, feeding the labels of the proven model, comparing every `next` word, ht->size and every API result) and the
independent C oracles of the scenario (lin, resident | dupkey | owner, quarantine | progress) judge the history.
One batch of runs is shared by C05, C06 and C07 (cached in /verif/build, keyed by the harness binary, the driver
binary, VERIF_SEED and the tier); each check works standalone.
"""
import concurrent.futures
import fcntl
import hashlib
import json
import os
import re
import tempfile
import time

import vlib

PLAN_VERSION = "lfhtc-10"

# ---- theorem lists (fill from Props/*.lean at integration; names are fully qualified) -----------------------------
THEOREMS05 = ['UrcuVerif.Lfht.Conc.C05_full_holds',
              'UrcuVerif.Lfht.Conc.lfht_linearizable',
              'UrcuVerif.Lfht.Conc.lfht_linearizable_partial',
              'UrcuVerif.Lfht.Conc.linearisation_points',
              'UrcuVerif.Lfht.Conc.lin_accounting',
              'UrcuVerif.Lfht.Conc.resident_found_traversal',
              'UrcuVerif.Lfht.Conc.C05_partial_holds',
              'UrcuVerif.Lfht.Conc.chain_L',
              'UrcuVerif.Lfht.Conc.sorted_L',
              'UrcuVerif.Lfht.Conc.unremoved_linked_in_L',
              'UrcuVerif.Lfht.Conc.sorted_edges',
              'UrcuVerif.Lfht.Conc.insert_cas_sound',
              'UrcuVerif.Lfht.Conc.grow_before_publish',
              'UrcuVerif.Lfht.Conc.traversal_monotone',
              'UrcuVerif.Lfht.Conc.visible_set_linearizes',
              'UrcuVerif.Lfht.Conc.found_was_visible_thm',
              'UrcuVerif.Lfht.Conc.resident_found',
              'UrcuVerif.Lfht.Conc.invRFL_reach',
              'UrcuVerif.Lfht.Conc.invRFA_reach']
UNPROVED05 = ["(linearizability is proved: lfht_linearizable) remaining, stated openly: the theorem assumes a per-(key, hash) discipline - unique adds "
              "only (add_unique / add_replace) or plain adds only - which is needed for add_unique / add_replace inserts and for lookup 'not found' "
              "(mixed use is genuinely not linearizable for 'not found'); history entries for calls still PENDING at the end of the execution are "
              "legal spec steps at table-changing events but are not attributed to a particular pending call; next_duplicate / first / next are "
              "covered by resident_found_traversal / no_two_visible, not by the linearizability theorem"]
THEOREMS06 = ['UrcuVerif.Lfht.Conc.C06_full_holds',
              'UrcuVerif.Lfht.Conc.uniq_in_L',
              'UrcuVerif.Lfht.Conc.no_two_visible',
              'UrcuVerif.Lfht.Conc.one_winner',
              'UrcuVerif.Lfht.Conc.C06_partial_holds',
              'UrcuVerif.Lfht.Conc.replace_atomic',
              'UrcuVerif.Lfht.Conc.replace_keeps_key_visible',
              'UrcuVerif.Lfht.Conc.unique_inserts_at_run_head',
              'UrcuVerif.Lfht.Conc.replace_single_owner']
UNPROVED06 = []
THEOREMS07 = ['UrcuVerif.Lfht.Conc.C07_full_holds',
              'UrcuVerif.Lfht.Conc.reclaim_safe',
              'UrcuVerif.Lfht.Conc.del_returns_unlinked',
              'UrcuVerif.Lfht.Conc.no_step_crashes',
              'UrcuVerif.Lfht.Conc.C07_partial_holds',
              'UrcuVerif.Lfht.Conc.single_owner_state',
              'UrcuVerif.Lfht.Conc.single_owner_run',
              'UrcuVerif.Lfht.Conc.removed_frozen',
              'UrcuVerif.Lfht.Conc.bucket_never_removed_while_published',
              'UrcuVerif.Lfht.Conc.or_instead_of_xchg_two_owners',
              'UrcuVerif.Lfht.Conc.single_owner_needs_xchg']
UNPROVED07 = []
THEOREMS17 = ['UrcuVerif.Lfht.Conc.C17Lfht_full_holds',
              'UrcuVerif.Lfht.Conc.solo_terminates_thm',
              'UrcuVerif.Lfht.Conc.C17Lfht_partial_holds',
              'UrcuVerif.Lfht.Conc.walker_wait_free_thm',
              'UrcuVerif.Lfht.Conc.hop_decreases',
              'UrcuVerif.Lfht.Conc.cas_fails_only_by_interference',
              'UrcuVerif.Lfht.Conc.invU_reach']
UNPROVED17 = []
AUDIT_MODS = ["UrcuVerif.Lfht.Conc", "UrcuVerif.Lfht.Bits", "UrcuVerif.Machine"]      # with a Props file: model + invariants + statements
AUDIT_MODEL = ["UrcuVerif.Lfht.Conc." + m for m in ("Types", "Model", "Step", "Step2", "Step3")] + ["UrcuVerif.Lfht.Bits", "UrcuVerif.Machine"]
MODEL_TARGET = "UrcuVerif.Lfht.Conc.Step3"

TRUSTED = [
    "Lean 4.33 kernel; axioms ⊆ {propext, Classical.choice, Quot.sound}",
    "L2 model Lfht/Conc: every shared mutation of a next word is a locked RMW (cmpxchg / xchg / lock or), so SC = x86-TSO for this "
    "structure; the private initialisation of a node (node->next, reverse_hash) is folded into the publishing cmpxchg "
    "(sound on TSO: the RMW drains the initialising stores); grace periods are abstract (gpEnd only when every section begun "
    "before gpStart has ended) and composed with the real flavor by interface: the scenario checks at every real "
    "synchronize_rcu() return that no section begun before the call is still open",
    "node identifiers are never reused in the model (memory reuse after a grace period is the reclaim_safe obligation); memory "
    "allocation never fails; thread creation succeeds; resize target arbitration, split counters and the work queue belong to C09 "
    "and are skipped by location name in the trace",
    "tie: Driver/LfhtConc.lean (L1) is an event-level transliteration of _cds_lfht_add / _cds_lfht_gc_bucket / _cds_lfht_replace / "
    "_cds_lfht_del / lookup / next_duplicate / next / first / populate + remove partitions / init_table + fini_table levels; a run of "
    "the real code is checked to be a run of L1 and mapped by L1 to a run of L2 on the explored schedules only (cooperative SC "
    "scheduler); L1 ⊑ L2 is not a theorem; harness/rt runtime + macro shim + symbolic names",
    "plain accesses (node->next / reverse_hash initialisation before the publishing cmpxchg, cds_lfht_create_bucket at creation, "
    "iterator fields) are not events: they are checked through the values later read atomically (every LD/CAS/OR/XCHG of a next "
    "word is compared with the model's memory word)",
    "partitioned resize with helper threads needs tables of >= 16384 buckets (MIN_PARTITION_PER_THREAD_ORDER is a fixed #define): "
    "exercised in the thorough tier only",
]

OWN05 = {"lin", "resident", "replabsent", "abort"}          # abort = an assertion of the library itself failed: concrete for every property
OWN06 = {"dupkey", "replabsent", "replowner", "abort"}
OWN07 = {"owner", "replowner", "quarantine", "gp", "abort"}
OWN17 = {"progress", "DEADLOCK", "BUDGET"}

RT = os.path.join(vlib.HARN, "rt")
SCEN = os.path.join(vlib.HARN, "scen", "lfht_conc.c")
DRV = os.path.join(vlib.LEAN, ".lake", "build", "bin", "drv_lfhtc")
BIN = os.path.join(vlib.BUILD, "lfht_conc")
OBJ = os.path.join(vlib.BUILD, "lfhtc_obj")
LOCK = os.path.join(vlib.BUILD, "lfhtc.lock")
MM = ["order", "chunk", "mmap"]

# branches / model labels that the quick tier must exercise (coverage is part of the verdict)
REQ_COMMON = ["m." + x for x in (
    "rlock runlock callAdd callReplace callDel callLookup callDup callNext callFirst ldSize ldHeadA ldNextA casIns casGc ldWalk "
    "ldAssertW casRepl ldAssertR ldHeadG ldNextG ldDel orRem ldAssertD ldDel2 xchgOwn ldHeadL ldFirst rzLock rzUnlock tblAlloc "
    "partBegin partEnd stSizeGrow stSizeShrink gpStart gpEnd tblFree orBkt reclaim").split()] + ["replace_einval", "replace_null", "del_null"]
REQUIRED = {
    "C05": REQ_COMMON + ["cas_ins_ok", "cas_ins_fail", "add_help_unlink_ok", "add_help_unlink_fail", "gc_unlink_ok", "gc_unlink_fail",
                         "walk_skip_removed", "walk_skip_bucket", "lookup_found", "lookup_null", "first_found", "next_found", "next_null",
                         "grow_level", "shrink_level", "populate_bucket", "remove_bucket", "populate_cas_fail",
                         "grow_while_lookup", "grow_while_add", "grow_while_del", "grow_while_first", "shrink_while_lookup",
                         "shrink_while_del", "lookup_during_shrink", "del_during_shrink", "add_unique_during_shrink",
                         "first_during_shrink", "lin_checked"],
    "C06": REQ_COMMON + ["add_unique_inserted", "add_unique_existing", "add_dup_found", "cas_ins_fail", "add_replace_inserted",
                         "add_replace_replaced", "add_replace_retry", "cas_repl_ok", "cas_repl_fail", "replace_enoent",
                         "next_dup_found", "next_dup_null", "walk_skip_removed", "grow_while_add_unique", "grow_while_add_replace",
                         "grow_while_replace", "shrink_while_add_replace", "add_replace_during_shrink"],
    "C07": REQ_COMMON + ["del_won", "del_lost_race", "del_already_removed", "replace_enoent", "cas_repl_fail", "cas_repl_ok",
                         "add_replace_replaced", "gc_unlink_ok", "gc_unlink_fail", "add_help_unlink_ok", "node_reclaimed", "table_freed",
                         "remove_bucket", "shrink_level", "shrink_while_del", "del_during_shrink", "lookup_during_shrink"],
    "C17": ["solo_reader", "solo_update"],
}
NONTRIVIAL = {
    "C05": ("cas_ins_fail", "add_help_unlink_ok", "add_help_unlink_fail", "gc_unlink_fail", "walk_skip_removed", "populate_cas_fail",
            "lookup_during_grow", "lookup_during_shrink", "add_during_grow", "add_during_shrink", "del_during_grow", "del_during_shrink"),
    "C06": ("add_unique_existing", "add_replace_replaced", "add_replace_retry", "cas_repl_fail", "replace_enoent", "cas_ins_fail"),
    "C07": ("del_lost_race", "del_already_removed", "replace_enoent", "cas_repl_fail", "gc_unlink_fail", "add_help_unlink_ok", "table_freed"),
    "C17": ("solo_helped_flagged", "solo_update"),
}


# ---------------------------------------------------------------------------------------------------------------------
# build (three translation units, see the header of harness/scen/lfht_conc.c)
# ---------------------------------------------------------------------------------------------------------------------

class _Locked:
    def __enter__(self):
        vlib.ensure_dirs()
        self.f = open(LOCK, "w")
        fcntl.flock(self.f, fcntl.LOCK_EX)
        return self

    def __exit__(self, *a):
        fcntl.flock(self.f, fcntl.LOCK_UN)
        self.f.close()


def _build_locked():
    os.makedirs(OBJ, exist_ok=True)
    cf = ["gcc", "-O1", "-g", "-pthread"] + vlib.CFLAGS_REPO + ["-w", "-DRCU_MEMBARRIER"]
    objs = []
    for tu, fl in (("flavor", ["-DTU_FLAVOR"]), ("wq", ["-DTU_WQ"]), ("main", [])):
        o = os.path.join(OBJ, tu + ".o")
        rc, log = vlib.sh(cf + fl + ["-c", SCEN, "-o", o], timeout=300)
        if rc != 0:
            return False, log
        objs.append(o)
    tmp = BIN + ".tmp%d" % os.getpid()
    srcs = vlib.rsrc("rculfhash-mm-order.c", "rculfhash-mm-chunk.c", "rculfhash-mm-mmap.c", "compat_arch.c") + \
        [os.path.join(RT, "vrt.c"), os.path.join(RT, "vrt_compat_futex.c")]
    rc, log = vlib.sh(cf + ["-o", tmp] + objs + srcs, timeout=300)
    if rc != 0:
        return False, log
    # keep the old inode when nothing changed (another check may be executing it)
    try:
        same = open(tmp, "rb").read() == open(BIN, "rb").read()
    except OSError:
        same = False
    if same:
        os.unlink(tmp)
    else:
        os.replace(tmp, BIN)
    return True, ""


def build():
    with _Locked():
        return _build_locked()


# ---------------------------------------------------------------------------------------------------------------------
# one run
# ---------------------------------------------------------------------------------------------------------------------

def one(cfg, args):
    """Run one schedule of the scenario and replay it on the driver.
    Returns dict(verdict=ok|diverge|oracle|crash, config, cmd, kinds, cov, ...)."""
    fd, tpath = tempfile.mkstemp(prefix="lfhtc_", suffix=".trace", dir=vlib.BUILD)
    os.close(fd)
    cmd = [BIN] + [str(a) for a in args]
    res = {"config": cfg, "cmd": cmd, "scenario": "lfht_conc"}
    try:
        rc, out, err = vlib.sh2(cmd + ["--trace", tpath], timeout=180)
        res["rc"] = rc
        kinds = re.findall(r"ORACLE (\w+)", err)
        try:
            with open(tpath, "rb") as f:
                trace = f.read()
        except OSError:
            trace = b""
        res["events"] = trace.count(b"\n")
        if b"\n#@ in " in trace:
            # sweep windows: global steps at which some thread is inside a library call, after the workers were spawned
            sp = re.search(rb"^#@ spawn (\d+)$", trace, re.M)
            jn = re.search(rb"^#@ joined (\d+)$", trace, re.M)
            lo = int(sp.group(1)) if sp else 0
            hi = int(jn.group(1)) if jn else 1 << 60
            opened, pts = {}, set()
            for m in re.finditer(rb"^#@ (in|out) T(\d+) (\d+)$", trace, re.M):
                t, n = int(m.group(2)), int(m.group(3))
                if m.group(1) == b"in":
                    opened[t] = n
                elif t in opened:
                    a = opened.pop(t)
                    if a >= lo and n <= hi:
                        pts.update(range(a, min(n, a + 400) + 1))
            res["points"] = sorted(pts)[:2500]
        if rc not in (0, 3, 4, 5):
            res.update(verdict="crash", stderr=err[-600:])
            return res
        drc, dout = vlib.sh([DRV], inp=trace, timeout=300)
        res["driver"] = [l[:600] for l in dout.strip().splitlines()[:2]]
        extra = {}
        lin = re.findall(rb"^# LIN ops=(\d+) ok=(\d+)", trace, re.M)
        if lin:
            extra["lin_checked"] = 1
            extra["lin_ops"] = int(lin[0][0])
        for m in re.finditer(rb"^# SOLO op=(\w+) steps=(\d+) relax=(\d+) flagged=(\d+) chain=(\d+) bound=(\d+)", trace, re.M):
            rd = m.group(1) in (b"lookup", b"dupwalk", b"traverse")
            extra["solo_reader" if rd else "solo_update"] = extra.get("solo_reader" if rd else "solo_update", 0) + 1
            if not rd and int(m.group(4)) > 0:
                extra["solo_helped_flagged"] = extra.get("solo_helped_flagged", 0) + 1
            extra["solo_max_steps"] = max(extra.get("solo_max_steps", 0), int(m.group(2)))
        if kinds:
            lines = err.strip().splitlines()
            res.update(verdict="oracle", kinds=kinds,
                       oracle=[l for l in lines if "ORACLE" in l][:6] + [l for l in lines if "Assertion" in l][:1],
                       driver_ok=(drc == 0))
        elif drc != 0:
            res.update(verdict="diverge")
        else:
            res.update(verdict="ok")
        if drc == 0:
            cov = {}
            for x in dout.split()[2:]:
                if "=" in x:
                    k, v = x.split("=", 1)
                    if v.isdigit():
                        cov[k] = int(v)
            cov.update(extra)
            res["cov"] = cov
        return res
    finally:
        for p in (tpath, tpath + ".choices"):
            try:
                os.unlink(p)
            except OSError:
                pass


# ---------------------------------------------------------------------------------------------------------------------
# the plan: random / PCT runs over configurations, directed scripts with the one-preemption sweep, solo runs (C17)
# ---------------------------------------------------------------------------------------------------------------------

def strategy(rng, k):
    if k % 5 == 3:
        return ["--strategy", "pct", "--pctd", str(1 + k % 4), "--pctlen", str(rng.choice([300, 800, 2000]))]
    return ["--pswitch", str(rng.choice([3, 8, 20, 35, 60, 85]))]


def jobs_random(rng, seed, n, seed_base=0):
    """n runs per family; returns [(config name, args)]"""
    js = []
    sd = lambda k: seed * 100000 + seed_base + k
    for k in range(n):              # contention on few keys, all allocators, all hash modes, 2-4 threads
        mm = k % 3
        hm = (k // 3) % 4
        th = 2 + k % 3
        args = ["--seed", sd(k), "--mm", mm, "--hashmode", hm, "--threads", th, "--keys", rng.choice([2, 3, 4, 6, 8]),
                "--ops", rng.choice([6, 10, 14]), "--resizes", rng.choice([0, 1, 2, 3]), "--max", rng.choice([4, 16, 64])]
        js.append(("mix/%s/h%d/t%d" % (MM[mm], hm, th), args + strategy(rng, k)))
    for k in range(n // 2):         # small histories: Wing–Gong linearizability search
        th = 2 + k % 2
        args = ["--seed", sd(1000 + k), "--small", "--mm", k % 3, "--hashmode", rng.choice([0, 0, 3]), "--threads", th,
                "--ops", 4 if th == 2 else 3, "--keys", rng.choice([1, 2, 3]), "--resizes", k % 2, "--prefill", k % 3]
        js.append(("lin/t%d" % th, args + strategy(rng, k)))
    for k in range(n // 3):         # automatic resize through the work-queue thread (chain length / accounting)
        fl = 1 if k % 2 else 3
        args = ["--seed", sd(2000 + k), "--flags", fl, "--mm", k % 3, "--hashmode", 1, "--threads", 2 + k % 3, "--keys", 8,
                "--ops", rng.choice([10, 16]), "--resizes", k % 2, "--max", rng.choice([8, 32])]
        js.append(("auto/f%d" % fl, args + strategy(rng, k)))
    for k in range(n // 3):         # larger initial tables: shrink below / grow above, min_alloc > 1, chunk / mmap boundaries
        ini = rng.choice([2, 4, 8])
        args = ["--seed", sd(3000 + k), "--init", ini, "--minalloc", rng.choice([1, 2, ini]), "--max", rng.choice([ini, 16, 32]),
                "--mm", k % 3, "--hashmode", rng.choice([1, 2, 3]), "--threads", 2 + k % 3, "--keys", rng.choice([4, 8]),
                "--ops", 10, "--resizes", rng.choice([2, 4])]
        js.append(("init/%d" % ini, args + strategy(rng, k)))
    return js


def jobs_solo(rng, seed, n, seed_base=0):
    js = []
    for k in range(n):
        args = ["--seed", seed * 100000 + seed_base + 4000 + k, "--solo", "--mm", k % 3, "--hashmode", rng.choice([0, 1, 3]),
                "--threads", 2 + k % 3, "--keys", rng.choice([3, 4, 6]), "--ops", rng.choice([8, 12]), "--resizes", rng.choice([0, 1, 2])]
        js.append(("solo/t%d" % (2 + k % 3), args + strategy(rng, k)))
    return js


# minimal same-node contention scripts: 2-3 threads remove / replace the SAME node; run under many high-preemption random and
# PCT schedules (windows that need two or more preemptions, e.g. both removers between their last load and their owner update)
CONTEND = [
    ("del2", ["--pre", "u3", "--script", "1:L3+D;2:L3+D", "--resizes", 0]),
    ("del3", ["--threads", 3, "--pre", "u3", "--script", "1:L3+D;2:L3+D;3:L3+D", "--resizes", 0]),
    ("del-del-replace", ["--threads", 3, "--pre", "u3", "--script", "1:L3+D;2:L3+D;3:L3+R3", "--resizes", 0]),
    ("del-replace-addreplace", ["--threads", 3, "--pre", "u3", "--script", "1:L3+D;2:L3+R3;3:p3", "--resizes", 0]),
    ("del2-dups", ["--threads", 3, "--pre", "a0,a0", "--script", "1:L0+D;2:L0+D;3:L0+D,w0", "--resizes", 0]),
]


def jobs_contend(seed, n, seed_base=0):
    js = []
    for name, sargs in CONTEND:
        for k in range(n):
            if k % 3 == 2:
                st = ["--strategy", "pct", "--pctd", 3 + k % 2, "--pctlen", [60, 120, 250][(k // 3) % 3]]
            else:
                st = ["--pswitch", [40, 50, 60, 75][k % 4]]
            js.append(("contend/" + name, ["--seed", seed * 100000 + seed_base + 6000 + k, "--keys", 4, "--small"] + list(sargs) + st))
    return js


def jobs_big(rng, seed):
    """16384-bucket tables (order allocator): the levels of 8192 buckets are populated / removed by partition threads of
    partition_resize_helper (real MIN_PARTITION_PER_THREAD_ORDER) while the workers run; the model replays spawn / join"""
    js = []
    for k in range(3):
        args = ["--seed", seed * 100000 + 9000 + k, "--big", "--max", 16384, "--init", 1 if k != 1 else 16384, "--threads", 2 + k % 2,
                "--hashmode", [0, 3, 1][k], "--keys", 6, "--ops", 24, "--resizes", 3 if k != 1 else 2, "--budget", 4000000]
        js.append(("big/%d" % k, args + ["--pswitch", [30, 8, 60][k]]))
    return js


# directed scenarios for the sweep: (name, scenario args).  Keys 2,3 are unique-only, 0,1 may have duplicates.
SCRIPTS = [
    # (name, scenario args, dense): dense scripts are swept at every step in the quick tier too
    ("del-del", ["--pre", "u3", "--script", "1:L3+D,g;2:L3+D,g", "--resizes", 0], True),
    ("del-replace", ["--pre", "u3", "--script", "1:L3+D,g;2:L3+R3,l3,g", "--resizes", 0], True),
    ("replace-del", ["--pre", "u3", "--script", "1:L3+R3,g;2:L3+D,l3,g", "--resizes", 0], True),
    ("replace-replace", ["--pre", "u3", "--script", "1:L3+R3,w3,g;2:L3+R3,g", "--resizes", 0], True),
    ("unique-unique", ["--pre", "a0", "--script", "1:u2,w2;2:u2,l2,t", "--resizes", 0], True),
    ("del-unique", ["--pre", "u2,u3", "--script", "1:d2,g;2:u2,w2,t,g", "--resizes", 0], True),
    ("addreplace-addreplace", ["--pre", "u3", "--script", "1:p3,g;2:p3,w3,g", "--resizes", 0], True),
    ("addreplace-del", ["--pre", "u3", "--script", "1:p3,g;2:d3,l3,u3,g", "--resizes", 0], True),
    ("del-addreplace", ["--pre", "u3", "--script", "1:d3,g;2:p3,w3,g", "--resizes", 0], True),
    ("dups", ["--pre", "a0,a0", "--script", "1:a0,d0,g;2:w0,t,d0,g", "--resizes", 0], True),
    ("three-removers", ["--threads", 3, "--pre", "u3,u2", "--script", "1:L3+D,g;2:L3+R3,g;3:p3,l3,g", "--resizes", 0], True),
    ("api-errors", ["--pre", "u3,u2", "--script", "1:L3+X2,N,E;2:L3+D,E,g", "--resizes", 0], True),
    ("api-errors-hash", ["--hashmode", 3, "--keys", 8, "--pre", "u7,u5", "--script", "1:L7+X5,L5+X6;2:d7,N,g", "--resizes", 0], True),
    ("populate-contended", ["--pre", "u3,u2", "--script", "1:Z,a0,u3,d2;2:Z,l3,t", "--rtargets", "4"], True),
    ("remove-contended", ["--init", 4, "--pre", "u3,u2", "--script", "1:Z,a0,u3,d2;2:Z,l3,t", "--rtargets", "1"], True),
    ("shrink-iterator-held", ["--init", 8, "--hashmode", 3, "--keys", 8, "--pre", "a0,u2,u4", "--script", "1:Z,L2+z+D;2:Z,F+z+n+n,t", "--rtargets", "2"], True),
    ("grow", ["--hashmode", 3, "--keys", 8, "--pre", "u7,u6,a0,a1,u5", "--script", "1:d7,u7,a1;2:l6,t,w1", "--rtargets", "4"], False),
    ("grow-collide", ["--pre", "u3,u2,a0", "--script", "1:d3,u3,p2;2:l2,t,L3+R3", "--rtargets", "8"], False),
    ("shrink", ["--init", 4, "--hashmode", 3, "--keys", 8, "--pre", "u7,u6,a0,a1,u5", "--script", "1:d7,u7,a1,d5;2:l6,t,w1,u4", "--rtargets", "1"], False),
    ("shrink-collide", ["--init", 8, "--pre", "u3,u2,a0", "--script", "1:d3,u3,p2;2:l2,t,L3+R3", "--rtargets", "2"], False),
    ("grow-shrink", ["--mm", 1, "--hashmode", 1, "--keys", 8, "--pre", "u7,u6,a0", "--script", "1:d7,u7,t;2:l6,p6,w0", "--rtargets", "8,2"], False),
    ("grow-shrink-mmap", ["--mm", 2, "--hashmode", 2, "--keys", 8, "--pre", "u7,u6,a0,a1", "--script", "1:d7,u7,t;2:l6,p6,w0,d1", "--rtargets", "4,1"], False),
]


def jobs_sweep(stride, scripts=None):
    """systematic one-preemption sweep: non-preemptive base schedule + ONE forced switch to thread `tid` at global step N
    (the thread then runs until it blocks or ends), for every N (stride; 1 for the dense scripts) between the spawn and the
    join of the workers."""
    js = []
    for name, sargs, dense in (scripts or SCRIPTS):
        base = ["--seed", 1, "--small"] + (["--keys", 4] if "--keys" not in sargs else []) + list(sargs) + ["--strategy", "sweep"]
        r = one("sweep/" + name, base + ["--marks"])
        js.append(("sweep/" + name, base, r))
        nth = 2
        if "--threads" in sargs:
            nth = int(sargs[sargs.index("--threads") + 1])
        tids = list(range(1, nth + 1)) + ([nth + 1] if "--rtargets" in sargs else [])
        pts = r.get("points", [])
        for n in (pts if dense else pts[::stride]):
            for tid in tids:
                js.append(("sweep/" + name, base + ["--preempt-at", n, "--preempt-tid", tid], None))
    return js


def run_jobs(js):
    def go(j):
        if len(j) > 2 and j[2] is not None:
            return j[2]
        return one(j[0], j[1])
    with concurrent.futures.ThreadPoolExecutor(max_workers=max(2, vlib.NCPU // 2)) as ex:
        return list(ex.map(go, js))


# ---------------------------------------------------------------------------------------------------------------------
# the shared batch
# ---------------------------------------------------------------------------------------------------------------------

def _digest(path):
    h = hashlib.sha1()
    try:
        with open(path, "rb") as f:
            h.update(f.read())
    except OSError:
        h.update(b"missing")
    return h.hexdigest()


def batch(seed, tier):
    """All runs of the tie for (seed, tier): computed once, shared by C05/C06/C07/C17 through a cache file that is
    keyed by the harness binary (= /repo sources + scenario + runtime), the driver binary, the seed and the tier."""
    import random
    with _Locked():
        ok, log = _build_locked()
        if not ok:
            return {"build_error": log}
        key = hashlib.sha1(("%s|%s|%s|%d|%s" % (PLAN_VERSION, _digest(BIN), _digest(DRV), seed, tier)).encode()).hexdigest()[:20]
        cpath = os.path.join(vlib.BUILD, "lfhtc_cache_%s.json" % key)
        if os.path.exists(cpath):
            try:
                with open(cpath) as f:
                    b = json.load(f)
                b["cached"] = True
                return b
            except (OSError, ValueError):
                pass
        t0 = time.time()
        rng = random.Random(seed * 7919 + 17)
        quick = tier == "quick"
        n = 150 if quick else 2500
        res = run_jobs(jobs_random(rng, seed, n))
        nrand = len(res)
        res += run_jobs(jobs_solo(rng, seed, 40 if quick else 600))
        nsolo = len(res) - nrand
        ct = run_jobs(jobs_contend(seed, 120 if quick else 1500))
        res += ct
        sw = run_jobs(jobs_sweep(2 if quick else 1))
        res += sw
        nbig = 0
        if not quick:       # partitioned resize with helper threads: needs levels of >= 2·2^MIN_PARTITION_PER_THREAD_ORDER buckets
            bg = run_jobs(jobs_big(rng, seed))
            nbig = len(bg)
            res += bg
        b = {"results": res, "n_random": nrand, "n_solo": nsolo, "n_sweep": len(sw), "n_contend": len(ct), "n_big": nbig, "wall_s": round(time.time() - t0, 1),
             "cached": False, "key": key}
        for old in os.listdir(vlib.BUILD):      # keep the build directory small
            if old.startswith("lfhtc_cache_") and old != os.path.basename(cpath):
                try:
                    if time.time() - os.path.getmtime(os.path.join(vlib.BUILD, old)) > 3600:
                        os.unlink(os.path.join(vlib.BUILD, old))
                except OSError:
                    pass
        if all(r["verdict"] == "ok" for r in res):      # failures are never served from the cache
            tmp = cpath + ".tmp%d" % os.getpid()
            with open(tmp, "w") as f:
                json.dump(b, f)
            os.replace(tmp, cpath)
        return b


# ---------------------------------------------------------------------------------------------------------------------
# evaluation for one property
# ---------------------------------------------------------------------------------------------------------------------

def required(pid, tier):
    # the partitioned resize (helper threads: model labels spawn / join) is reached only by the 16384-bucket runs of the thorough tier
    return REQUIRED[pid] + (["m.spawn", "m.join", "helper_partition"] if tier == "thorough" and pid != "C17" else [])


def summarize(pid, results, tier="quick"):
    """pure summary of a list of runs for property `pid`"""
    hist, per_cfg, nontriv, samples = {}, {}, set(), []
    ok = events = 0
    for r in results:
        fam = "/".join(r["config"].split("/")[:2]) if r["config"].startswith("sweep/") else r["config"]
        per_cfg[fam] = per_cfg.get(fam, 0) + 1
        if r["verdict"] != "ok":
            continue
        ok += 1
        events += r.get("events", 0)
        for k, v in r.get("cov", {}).items():
            if k.startswith("solo_max") or k == "lin_ops":
                hist[k] = max(hist.get(k, 0), v)
            else:
                hist[k] = hist.get(k, 0) + v
        if any(r["cov"].get(k, 0) for k in NONTRIVIAL[pid]):
            nontriv.add((r["config"], r["driver"][0]))
            if len(samples) < 4 and not r["config"].startswith("sweep/"):
                samples.append({"config": r["config"], "cmd": " ".join(str(x) for x in r["cmd"][1:]), "driver": r["driver"][0][:300]})
    return {"hist": hist, "per_cfg": per_cfg, "nontrivial": len(nontriv), "ok": ok, "events": events, "n": len(results),
            "samples": samples, "required": required(pid, tier), "missing": [k for k in required(pid, tier) if not hist.get(k)]}


def merge(chk, pid, sm):
    """add the summary to the evidence (the aggregated C17 check shares `chk` with other components: accumulate, prefix)"""
    pre = "lfht." if pid == "C17" else ""
    hist = chk.cov.setdefault("branch_histogram", {})
    for k, v in sm["hist"].items():
        hist[pre + k] = max(hist.get(pre + k, 0), v) if (k.startswith("solo_max") or k == "lin_ops") else hist.get(pre + k, 0) + v
    per_cfg = chk.cov.setdefault("runs_per_config", {})
    for k, v in sm["per_cfg"].items():
        per_cfg[("lfht/" if pid == "C17" else "") + k] = per_cfg.get(("lfht/" if pid == "C17" else "") + k, 0) + v
    chk.cov["evaluations"] += sm["n"]
    chk.cov["traces_validated_against_impl"] = chk.cov.get("traces_validated_against_impl", 0) + sm["ok"]
    chk.cov["events_compared"] = chk.cov.get("events_compared", 0) + sm["events"]
    chk.cov["distinct_nontrivial"] = chk.cov.get("distinct_nontrivial", 0) + sm["nontrivial"]
    for x in sm["samples"]:
        chk.sample(x)
    key = "lfht_required_branches" if pid == "C17" else "required_branches"
    chk.cov[key] = sm["required"]
    chk.cov[key + "_missing"] = sm["missing"]


RULE = ("schedules of harness/scen/lfht_conc.c (the real src/rculfhash.c + src/urcu.c memb + src/workqueue.c + rculfhash-mm-{order,chunk,mmap}.c "
        "under the shim): 2-4 workers issuing add / add_unique / add_replace / replace / del / lookup / next_duplicate walks / first-next "
        "traversals on 1-8 keys (hash modes: all equal, high bits only, 0/~0/single bits, pairs over several buckets), a resizer calling "
        "cds_lfht_resize (grow and shrink, init 1-8, min_alloc 1-8, max 4-64), automatic growth through the work-queue thread, the three "
        "allocators; drawn from VERIF_SEED with random walk (switch probabilities 3-85 %), PCT (1-4 change points) and the systematic "
        "one-preemption sweep (seed-independent) over 22 directed two/three-thread scripts (del/del, del/replace, replace/replace, "
        "add_unique/add_unique, add_replace races, duplicates, and the same against grow / shrink) and 5 minimal same-node contention "
        "scripts (2-3 threads del / replace / add_replace the SAME node) under many high-preemption random and PCT schedules; every event replayed on the proven "
        "model by Driver/LfhtConc.lean, history judged by the scenario's independent oracles; ")


def evaluate(chk, pid, own, b):
    """Turn the batch into the verdict of property `pid` (oracle kinds `own`)."""
    if "build_error" in b:
        chk.fail("build", {"theorem": "harness/scen/lfht_conc.c does not compile against /repo", "lean_error": b["build_error"][-2000:]}, nofail=True)
        return
    results = b["results"]
    if pid == "C17":
        results = [r for r in results if r["config"].startswith("solo/")]
    chk.cov["lfht_shared_batch" if pid == "C17" else "shared_batch"] = {"key": b.get("key"), "reused_cached_runs": bool(b.get("cached")), "batch_wall_s": b.get("wall_s"),
                               "random": b.get("n_random"), "solo": b.get("n_solo"), "sweep": b.get("n_sweep"), "contend": b.get("n_contend", 0), "big": b.get("n_big", 0)}
    sm = summarize(pid, results, chk.tier)
    if sm["missing"]:
        # coverage gap: escalate (more seeds, then the dense sweep of every script); never a violation by itself
        import random
        rng = random.Random(chk.seed * 131 + 7)
        missing = sm["missing"]
        extra = run_jobs(jobs_solo(rng, chk.seed, 60, seed_base=70000) if pid == "C17" else jobs_random(rng, chk.seed, 90, seed_base=70000))
        if pid != "C17" and [k for k in missing if not any(r["verdict"] == "ok" and r["cov"].get(k) for r in extra)]:
            extra += run_jobs(jobs_sweep(1))
        results = results + extra
        sm = summarize(pid, results, chk.tier)
        chk.cov["lfht_coverage_escalation" if pid == "C17" else "coverage_escalation"] = {
            "missing_after_batch": missing, "extra_runs": len(extra), "missing_after_escalation": sm["missing"]}
        if sm["missing"]:
            chk.notes.append("coverage: branches not exercised in this run (also after escalation): " + ", ".join(sm["missing"]))
    merge(chk, pid, sm)
    bad = [r for r in results if r["verdict"] != "ok"]
    own_f = [r for r in bad if r["verdict"] == "oracle" and any(k in own for k in r["kinds"])]
    foreign = [r for r in bad if r["verdict"] == "oracle" and not any(k in own for k in r["kinds"]) and r.get("driver_ok")]
    diverged = [r for r in bad if r["verdict"] == "diverge" or (r["verdict"] == "oracle" and not r.get("driver_ok") and r not in own_f)]
    crashed = [r for r in bad if r["verdict"] == "crash"]
    if foreign:
        chk.notes.append("%d run(s) fail an oracle owned by a sibling property (%s); not a violation of %s" % (
            len(foreign), ",".join(sorted(set(sum([x["kinds"] for x in foreign], [])))), pid))
    if own_f:
        f = own_f[0]
        chk.fail("schedule", dict(_slim(f), what="implementation oracle: " + "; ".join(_own_first(f, own)),
                                  failing_runs=len(own_f)))
        return
    if diverged or crashed:
        found = search(chk, own)
        f = (crashed or diverged)[0]
        if found:
            chk.fail("schedule", dict(_slim(found), what="implementation oracle: " + "; ".join(_own_first(found, own)),
                                      first_divergence=f.get("driver")))
            return
        chk.fail("crash" if crashed else "divergence",
                 dict(_slim(f), correspondence="Driver/LfhtConc.lean vs src/rculfhash.c",
                      diverging_runs=len(diverged), crashed_runs=len(crashed),
                      what="the implementation is no longer a run of the proven model: first differing event in `driver`"), nofail=True)
        return


def _own_first(r, own):
    ls = r.get("oracle", [])
    return [l for l in ls if any(("ORACLE " + k) in l for k in own)] + [l for l in ls if not any(("ORACLE " + k) in l for k in own)]


def _slim(r):
    d = dict(r)
    d.pop("cov", None)
    return d


def search(chk, own):
    """extended schedule search with the implementation oracles of the property (more seeds, denser sweep)"""
    import random
    rng = random.Random(chk.seed * 31 + 5)
    quick = chk.tier == "quick"
    js = jobs_contend(chk.seed, 800 if quick else 4000, seed_base=50000) + jobs_random(rng, chk.seed, 150 if quick else 1200, seed_base=50000) + \
        jobs_solo(rng, chk.seed, 30, seed_base=50000) + jobs_sweep(1)
    with concurrent.futures.ThreadPoolExecutor(max_workers=max(2, vlib.NCPU // 2)) as ex:
        for r in ex.map(lambda j: j[2] if (len(j) > 2 and j[2] is not None) else one(j[0], j[1]), js):
            if r["verdict"] == "oracle" and any(k in own for k in r["kinds"]):
                return r
    return None


def proof(chk, props_name, theorems, unproved, extra_targets=()):
    """proof part: the Props file's theorems when it exists, else only the model + driver build (reported as unproved)"""
    pfile = os.path.join(vlib.LEAN, "UrcuVerif", "Props", props_name + ".lean")
    if os.path.exists(pfile) and theorems:
        mod = "UrcuVerif.Props." + props_name
        mods = [mod] + (["UrcuVerif.Neg.C07"] if props_name == "C07" else []) + (["UrcuVerif.Props.C05Lin"] if props_name == "C05" else [])
        return chk.proof_part(mods + ["drv_lfhtc"] + list(extra_targets), mods, theorems, AUDIT_MODS + mods, unproved=unproved)
    why = ("UrcuVerif/Props/%s.lean %s: no theorem of this property is checked by this run; only the executable model "
           "(Lfht/Conc/Step3) and the driver are built" % (props_name, "has no registered theorem list in props/c05.py" if os.path.exists(pfile) else "is not present"))
    chk.notes.append(why)
    return chk.proof_part([MODEL_TARGET, "drv_lfhtc"], MODEL_TARGET, [], AUDIT_MODEL, unproved=[why] + list(unproved))


def run_prop(chk, pid, props_name, theorems, unproved, own, what):
    chk.assumptions = TRUSTED
    chk.cov["trusted_base"] = TRUSTED
    proof(chk, props_name, theorems, unproved)
    b = batch(chk.seed, chk.tier)
    evaluate(chk, pid, own, b)
    chk.cov["rule"] = pid + ": " + RULE + what


def run(chk):
    run_prop(chk, "C05", "C05", THEOREMS05, UNPROVED05, OWN05,
             "own oracles: lin (Wing–Gong linearizability search against a reference multimap on the small-history runs) and resident "
             "(a key / node continuously present during a lookup, duplicate walk or traversal is returned; nothing removed before the "
             "call is returned; traversals never go backwards in split order); non-trivial = the run contains real interference "
             "(failed insertion cmpxchg, helping unlink, lookup through a removed node, operation during a resize); distinct = different "
             "(configuration, driver coverage summary)")


def c17_part(chk):
    """lfht facet of C17: proof part of Props/C17Lfht.lean (when present) + the solo runs of the shared batch
    (all other threads frozen at arbitrary points; lookups / traversals execute no spin hint and finish within
    4·calls + 2·chain + 8 own steps, updates within (flagged + 3)·(2·chain + 8) + 64).  Returns the failing results."""
    proof(chk, "C17Lfht", THEOREMS17, UNPROVED17)
    b = batch(chk.seed, chk.tier)
    before = len(chk.violations)
    evaluate(chk, "C17", OWN17, b)
    chk.cov["lfht_solo_bounds"] = {"reader": "4*calls + 2*chain + 8", "update": "(flagged+3)*(2*chain+8) + 64",
                                   "unit": "own scheduling points (shimmed primitives) with every other thread frozen"}
    return chk.violations[before:]


def replay(rp):
    ok, log = build()
    if not ok:
        print(log)
        return 2
    if "cmd" not in rp:
        print(json.dumps(rp, indent=1))
        return 1
    fd, tpath = tempfile.mkstemp(prefix="lfhtc_replay_", suffix=".trace", dir=vlib.BUILD)
    os.close(fd)
    args = [BIN] + [str(x) for x in rp["cmd"][1:]] + ["--trace", tpath]
    rc, out, err = vlib.sh2(args, timeout=180)
    with open(tpath, "rb") as f:
        trace = f.read()
    drc, dout = vlib.sh([DRV], inp=trace, timeout=300)
    print(err.strip())
    print("\n".join(l[:1000] for l in dout.strip().splitlines()))
    print("trace kept at", tpath)
    return 1 if (rc != 0 or drc != 0) else 0
