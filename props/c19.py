"""C19 — read-side critical sections inside signal handlers (memb, mb, bp).  DESIGN.md §4 C19."""
import vlib
from props import gp_common

THEOREMS = ["UrcuVerif.Signal.handler_balanced", "UrcuVerif.Signal.read_ongoing_unchanged",
            "UrcuVerif.Signal.interrupted_lock_same_as_plain", "UrcuVerif.Gp.sigPop_restores",
            "UrcuVerif.Gp.gp_guarantee_with_handlers", "UrcuVerif.Gp.inv_sigPush", "UrcuVerif.Gp.inv_sigPop",
            "UrcuVerif.Gp.inv_step"]
TRUSTED = ["Lean 4.33 kernel; axioms ⊆ {propext, Classical.choice, Quot.sound}",
           "a signal handler runs to completion on the interrupted thread before that thread's code resumes (POSIX); in the tie handlers are delivered at every shimmed access / barrier / lock event of the thread (the only thread-private access between two such points is the plain read of the thread's own word, so every distinct interruption class is reachable); real asynchronous delivery at instruction granularity is exercised by a separate stress run of the unshimmed sources (harness/scen/sig_real.c: supporting exploration, oracles only)",
           "same grace-period model and tie as C01 (Gp/Flip.lean with handler frames sigPush/sigPop); qsbr excluded as documented",
           "bp: registration and synchronize_rcu run with signals blocked (observed as SIGMASK events in the trace; the runtime does not deliver synthetic signals while blocked)"]
OWN = {"sigbalance", "gp", "litmus", "SELFLOCK"}
CONFIGS = [c for c in gp_common.CONFIGS if c[0] in ("memb", "mb", "bp")]


def run(chk):
    chk.assumptions = TRUSTED
    chk.cov["trusted_base"] = TRUSTED
    chk.proof_part(["UrcuVerif.Props.C19", "UrcuVerif.Props.C01", "drv_gp"], ["UrcuVerif.Props.C19", "UrcuVerif.Props.C01"], THEOREMS,
                   ["UrcuVerif.Gp", "UrcuVerif.Props.C19", "UrcuVerif.Machine"])
    ok, log = gp_common.build()
    if not ok:
        chk.fail("build", {"theorem": "harness/scen/gp*.c does not compile against /repo", "lean_error": log[-2000:]}, nofail=True)
        return
    n = 24 if chk.tier == "quick" else 400
    sig = ["--sig", "--psig", "70", "--sigdepth", "3"]
    fails = gp_common.suite(chk, n, "safety", OWN, rops=35, uops=2, extra_all=sig, configs=CONFIGS)
    h = chk.cov.get("branch_histogram", {})
    chk.cov["interruption_classes"] = {k: v for k, v in h.items() if k.startswith("sig_")}
    gp_common.report(chk, fails, OWN, gp_common.search_own(chk, OWN, "safety", 200 if chk.tier == "quick" else 2000, extra_all=sig, configs=CONFIGS))
    if not chk.violations:
        real_signal_stress(chk)


def real_signal_stress(chk):
    """Supporting exploration: REAL asynchronous signals (pthread_kill at random instants) against the unshimmed flavor sources,
    handler = nested read-side section; oracles: reader word balanced around the handler, no poisoned object seen in any section,
    progress.  Closes the gap 'synthetic delivery happens at shim points only'."""
    import os
    src = os.path.join(vlib.HARN, "scen", "sig_real.c")
    res = {}
    secs = 1 if chk.tier == "quick" else 8
    for name, flags in (("memb", ["-DRCU_MEMBARRIER"]), ("mb", ["-DRCU_MB"]), ("bp", ["-DFLAVOR_BP"])):
        cmd = ["gcc", "-O2", "-g", "-pthread", "-w"] + vlib.CFLAGS_REPO + flags + ["-o", os.path.join(vlib.BUILD, "sig_real_" + name), src] + \
              vlib.rsrc("compat_arch.c", "compat_futex.c")
        rc, log = vlib.sh(cmd, timeout=300)
        if rc != 0:
            chk.fail("build", {"theorem": "harness/scen/sig_real.c does not compile against /repo (%s)" % name, "lean_error": log[-1500:]}, nofail=True)
            return
        args = [os.path.join(vlib.BUILD, "sig_real_" + name), str(secs), str(chk.seed)]
        rc, out, err = vlib.sh2(args, timeout=secs + 200)
        chk.cov["evaluations"] += 1
        res[name] = out.strip()[-200:]
        if rc == 3:
            chk.fail("input", {"cmd": args, "scenario": "sig_real", "what": "real asynchronous signals, implementation oracle: " +
                               "; ".join(l for l in err.splitlines() if l.startswith("ORACLE"))[:600]})
            break
        if rc != 0:
            chk.fail("input", {"cmd": args, "scenario": "sig_real", "what": "real asynchronous signals: the program crashed / hung (rc=%d): %s" % (rc, err[-300:])})
            break
    chk.cov["real_signal_stress"] = res


def replay(rp):
    if rp.get("scenario") == "sig_real":
        rc, out, err = vlib.sh2([str(x) for x in rp["cmd"]], timeout=600)
        print(out, err)
        return 1 if rc else 0
    return gp_common.replay(rp)
