"""Source-translator tie (part of C01, C10, C11, C12, C17): the C text of the static-inline primitives of /repo is translated
on every run into Lean IR (harness/gen/gen_src.py -> Gen/Src.lean), the refinement theorems `generated IR ⊑ L2` are re-checked
against the regenerated terms (Props/Src*.lean), and the IR semantics + translator are validated against the compiled code by
replaying the traces of the scenario harnesses on `Src.exec` (Driver/Src.lean)."""
import os, re
import vlib

# mode -> (binaries (built by the owning check), extra args variants)
MODES = {
    # variant entries NAME=VALUE are environment settings; the parked-reader variant drives synchronize_rcu through wait_gp()
    "gp-memb": (["gp_memb"], [[], ["VRT_MEMBARRIER=0"], ["--parklen", "30000", "--nochurn", "--faults", "spur=200,eintr=300,enosys=0"]]),
    "gp-mb": (["gp_mb"], [[], ["--parklen", "30000", "--nochurn", "--faults", "spur=200,eintr=300,enosys=0"]]),
    "gp-bp": (["gp_bp"], [[]]),
    "gp-qsbr": (["gp_qsbr"], [[]]),
    "wfs": (["wfs", "wfs_rcu"], [[]]),
    "lfs": (["lfs", "lfs_rcu"], [[]]),
    "wfcq": (["wfcq", "wfcq_nl"], [[]]),
    "lfq": (["lfq_memb", "lfq_mb"], [[]]),
    "defer": (["defer_conc_memb", "defer_conc_mb"], [[]]),
    # proof-only parts (the futex wait / wake families; their events are inside calls replayed by other modes)
    "futex-gp": ([], [[]]), "futex-callrcu": ([], [[]]), "futex-defer": ([], [[]]), "futex-wq": ([], [[]]),
}

# refinement theorems per mode: filled from the builders' reports; (modules, theorem names)
THEOREMS = {
    "gp-memb": (["UrcuVerif.Props.SrcRead", "UrcuVerif.Props.SrcSync"], ["UrcuVerif.Props.SrcSync.urcu_common_reader_state_refines", "UrcuVerif.Props.SrcSync.memb_smp_mb_master_refines", "UrcuVerif.Props.SrcSync.memb_wait_gp_refines", "UrcuVerif.Props.SrcSync.memb_wait_for_readers_refines", "UrcuVerif.Props.SrcSync.memb_synchronize_rcu_refines", "UrcuVerif.Props.SrcSync.memb_grace_period_refines", "UrcuVerif.Props.SrcSync.first_disc", "UrcuVerif.Props.SrcSync.succOf_mem", "UrcuVerif.Props.SrcSync.succOf_disc", "UrcuVerif.Props.SrcSync.proj_enabled", "UrcuVerif.Props.SrcSync.proj_step", "UrcuVerif.Props.SrcSync.proj_frame", "UrcuVerif.Props.SrcRead._urcu_memb_read_lock_refines", "UrcuVerif.Props.SrcRead._urcu_memb_read_unlock_refines", "UrcuVerif.Props.SrcRead._urcu_memb_read_ongoing_refines", "UrcuVerif.Props.SrcRead._urcu_memb_read_lock_in_handler_refines", "UrcuVerif.Props.SrcRead._urcu_memb_read_unlock_in_handler_refines", "UrcuVerif.Props.SrcRead.urcu_common_wake_up_gp_shape", "UrcuVerif.Props.SrcRead.flip_proj_step", "UrcuVerif.Props.SrcRead.flip_proj_enabled", "UrcuVerif.Props.SrcRead.flip_proj_frame", "UrcuVerif.Props.SrcRead.handshake_proj_step", "UrcuVerif.Props.SrcRead.handshake_proj_enabled", "UrcuVerif.Props.SrcRead.handshake_proj_frame"]),
    "gp-mb": (["UrcuVerif.Props.SrcRead", "UrcuVerif.Props.SrcSync"], ["UrcuVerif.Props.SrcSync.urcu_common_reader_state_refines", "UrcuVerif.Props.SrcSync.mb_smp_mb_master_refines", "UrcuVerif.Props.SrcSync.mb_wait_gp_refines", "UrcuVerif.Props.SrcSync.mb_wait_for_readers_refines", "UrcuVerif.Props.SrcSync.mb_synchronize_rcu_refines", "UrcuVerif.Props.SrcSync.first_disc", "UrcuVerif.Props.SrcSync.succOf_mem", "UrcuVerif.Props.SrcSync.succOf_disc", "UrcuVerif.Props.SrcSync.proj_enabled", "UrcuVerif.Props.SrcSync.proj_step", "UrcuVerif.Props.SrcSync.proj_frame", "UrcuVerif.Props.SrcRead._urcu_mb_read_lock_refines", "UrcuVerif.Props.SrcRead._urcu_mb_read_unlock_refines", "UrcuVerif.Props.SrcRead._urcu_mb_read_ongoing_refines", "UrcuVerif.Props.SrcRead._urcu_mb_read_lock_in_handler_refines", "UrcuVerif.Props.SrcRead._urcu_mb_read_unlock_in_handler_refines", "UrcuVerif.Props.SrcRead.urcu_common_wake_up_gp_shape", "UrcuVerif.Props.SrcRead.flip_proj_step", "UrcuVerif.Props.SrcRead.flip_proj_enabled", "UrcuVerif.Props.SrcRead.flip_proj_frame", "UrcuVerif.Props.SrcRead.handshake_proj_step", "UrcuVerif.Props.SrcRead.handshake_proj_enabled", "UrcuVerif.Props.SrcRead.handshake_proj_frame"]),
    "gp-bp": (["UrcuVerif.Props.SrcRead"], ["UrcuVerif.Props.SrcRead._urcu_bp_read_lock_refines", "UrcuVerif.Props.SrcRead._urcu_bp_read_unlock_refines", "UrcuVerif.Props.SrcRead._urcu_bp_read_ongoing_refines", "UrcuVerif.Props.SrcRead._urcu_bp_read_lock_unregistered", "UrcuVerif.Props.SrcRead._urcu_bp_read_lock_in_handler_refines", "UrcuVerif.Props.SrcRead._urcu_bp_read_unlock_in_handler_refines", "UrcuVerif.Props.SrcRead.urcu_common_wake_up_gp_shape", "UrcuVerif.Props.SrcRead.flip_proj_step", "UrcuVerif.Props.SrcRead.flip_proj_enabled", "UrcuVerif.Props.SrcRead.flip_proj_frame", "UrcuVerif.Props.SrcRead.handshake_proj_step", "UrcuVerif.Props.SrcRead.handshake_proj_enabled", "UrcuVerif.Props.SrcRead.handshake_proj_frame"]),
    "futex-gp": (["UrcuVerif.Props.SrcFutex"], ["UrcuVerif.Props.SrcFutex.memb_wait_gp_refines", "UrcuVerif.Props.SrcFutex.mb_wait_gp_refines", "UrcuVerif.Props.SrcFutex.qsbr_wait_gp_refines", "UrcuVerif.Props.SrcFutex.urcu_common_wake_up_gp_refines", "UrcuVerif.Props.SrcFutex.urcu_qsbr_wake_up_gp_refines", "UrcuVerif.Props.SrcFutex.hs_waiter_proj_step", "UrcuVerif.Props.SrcFutex.hs_waiter_proj_enabled", "UrcuVerif.Props.SrcFutex.hs_waiter_proj_frame", "UrcuVerif.Props.SrcFutex.hs_waiter_env_wake", "UrcuVerif.Props.SrcFutex.qs_waiter_proj_step", "UrcuVerif.Props.SrcFutex.qs_waiter_proj_enabled", "UrcuVerif.Props.SrcFutex.qs_waiter_proj_frame", "UrcuVerif.Props.SrcFutex.qs_waiter_env_wake", "UrcuVerif.Props.SrcFutex.qs_waker_proj_step", "UrcuVerif.Props.SrcFutex.qs_waker_proj_enabled", "UrcuVerif.Props.SrcFutex.qs_waker_proj_frame"]),
    "futex-callrcu": (["UrcuVerif.Props.SrcFutex"], ["UrcuVerif.Props.SrcFutex.call_rcu_wait_refines", "UrcuVerif.Props.SrcFutex.call_rcu_wake_up_refines", "UrcuVerif.Props.SrcFutex.wake_call_rcu_thread_refines", "UrcuVerif.Props.SrcFutex.call_rcu_completion_wait_refines", "UrcuVerif.Props.SrcFutex.call_rcu_completion_wake_up_refines", "UrcuVerif.Props.SrcFutex.cr_waiter_proj_step", "UrcuVerif.Props.SrcFutex.cr_waiter_proj_enabled", "UrcuVerif.Props.SrcFutex.cr_waiter_proj_frame", "UrcuVerif.Props.SrcFutex.cr_waiter_env_wake", "UrcuVerif.Props.SrcFutex.cr_waker_proj_step", "UrcuVerif.Props.SrcFutex.cr_waker_proj_enabled", "UrcuVerif.Props.SrcFutex.cr_waker_proj_frame"]),
    "futex-defer": (["UrcuVerif.Props.SrcFutex"], ["UrcuVerif.Props.SrcFutex.wake_up_defer_refines", "UrcuVerif.Props.SrcFutex.df_waiter_proj_step", "UrcuVerif.Props.SrcFutex.df_waiter_proj_enabled", "UrcuVerif.Props.SrcFutex.df_waiter_proj_frame", "UrcuVerif.Props.SrcFutex.df_waiter_env_wake", "UrcuVerif.Props.SrcFutex.df_waker_proj_step", "UrcuVerif.Props.SrcFutex.df_waker_proj_enabled", "UrcuVerif.Props.SrcFutex.df_waker_proj_frame"]),
    "futex-wq": (["UrcuVerif.Props.SrcFutex"], ["UrcuVerif.Props.SrcFutex.futex_wait_refines", "UrcuVerif.Props.SrcFutex.futex_wake_up_refines", "UrcuVerif.Props.SrcFutex.wake_worker_thread_refines"]),
    "defer": (["UrcuVerif.Props.SrcDefer"], ["UrcuVerif.Props.SrcDefer._defer_rcu_refines", "UrcuVerif.Props.SrcDefer._defer_rcu_stores", "UrcuVerif.Props.SrcDefer._defer_rcu_blocked", "UrcuVerif.Props.SrcDefer.wake_up_defer_refines", "UrcuVerif.Props.SrcDefer.rcu_defer_barrier_queue_refines", "UrcuVerif.Props.SrcDefer.rcu_defer_barrier_queue_events", "UrcuVerif.Props.SrcDefer.defer_roundtrip_inv", "UrcuVerif.Props.SrcDefer.defer_roundtrip_encode", "UrcuVerif.Props.SrcDefer.defer_roundtrip_one", "UrcuVerif.Props.SrcDefer._defer_rcu_refines_local", "UrcuVerif.Props.SrcDefer.rcu_defer_barrier_queue_refines_local", "UrcuVerif.Props.SrcDefer.enc_ex", "UrcuVerif.Props.SrcDefer.owner_proj", "UrcuVerif.Props.SrcDefer.owner_enabled_iff", "UrcuVerif.Props.SrcDefer.owner_frame", "UrcuVerif.Props.SrcDefer.owner_frame_unlock", "UrcuVerif.Props.SrcDefer.runner_proj", "UrcuVerif.Props.SrcDefer.runner_enabled_iff", "UrcuVerif.Props.SrcDefer.runner_frame"]),
    "wfs": (["UrcuVerif.Props.SrcStack"], ["UrcuVerif.Props.SrcStack.wfs_proj_step", "UrcuVerif.Props.SrcStack.wfs_lift_step", "UrcuVerif.Props.SrcStack.wfs_enabled_iff", "UrcuVerif.Props.SrcStack.wfs_proj_run", "UrcuVerif.Props.SrcStack.wfs_frame", "UrcuVerif.Props.SrcStack.wfs_frame_own", "UrcuVerif.Props.SrcStack.wfs_frame_iterNext", "UrcuVerif.Props.SrcStack._cds_wfs_push_refines", "UrcuVerif.Props.SrcStack.___cds_wfs_node_sync_next_refines", "UrcuVerif.Props.SrcStack.___cds_wfs_pop_refines", "UrcuVerif.Props.SrcStack.___cds_wfs_pop_refines_total", "UrcuVerif.Props.SrcStack.___cds_wfs_pop_all_refines", "UrcuVerif.Props.SrcStack._cds_wfs_empty_refines"]),
    "lfs": (["UrcuVerif.Props.SrcStack"], ["UrcuVerif.Props.SrcStack.lfs_proj_step", "UrcuVerif.Props.SrcStack.lfs_lift_step", "UrcuVerif.Props.SrcStack.lfs_enabled_iff", "UrcuVerif.Props.SrcStack.lfs_proj_run", "UrcuVerif.Props.SrcStack.lfs_frame", "UrcuVerif.Props.SrcStack.lfs_frame_own", "UrcuVerif.Props.SrcStack.lfs_frame_iterNext", "UrcuVerif.Props.SrcStack._cds_lfs_push_refines", "UrcuVerif.Props.SrcStack.___cds_lfs_pop_refines", "UrcuVerif.Props.SrcStack.___cds_lfs_pop_all_refines", "UrcuVerif.Props.SrcStack._cds_lfs_empty_refines"]),
    "wfcq": (["UrcuVerif.Props.SrcQueue"], ["UrcuVerif.Props.SrcQueue.wfcq_proj", "UrcuVerif.Props.SrcQueue.wfcq_enabled_iff", "UrcuVerif.Props.SrcQueue.wfcq_frame", "UrcuVerif.Props.SrcQueue.wfcq_frame_env", "UrcuVerif.Props.SrcQueue._cds_wfcq_enqueue_refines", "UrcuVerif.Props.SrcQueue.___cds_wfcq_append_refines", "UrcuVerif.Props.SrcQueue._cds_wfcq_empty_refines", "UrcuVerif.Props.SrcQueue.___cds_wfcq_node_sync_next_refines", "UrcuVerif.Props.SrcQueue.___cds_wfcq_busy_wait_silent", "UrcuVerif.Props.SrcQueue.___cds_wfcq_dequeue_with_state_refines", "UrcuVerif.Props.SrcQueue.___cds_wfcq_splice_refines", "UrcuVerif.Props.SrcQueue.___cds_wfcq_node_sync_next_refines'", "UrcuVerif.Props.SrcQueue._cds_wfcq_node_init_atomic_refines", "UrcuVerif.Props.SrcQueue.urcu_ref_get_safe_refines", "UrcuVerif.Props.SrcQueue.urcu_ref_get_safe_never_stores_at_LONG_MAX", "UrcuVerif.Props.SrcQueue.urcu_ref_get_safe_at_LONG_MAX", "UrcuVerif.Props.SrcQueue.urcu_ref_get_unless_zero_refines", "UrcuVerif.Props.SrcQueue.urcu_ref_get_unless_zero_never_stores_at_zero_or_LONG_MAX", "UrcuVerif.Props.SrcQueue.urcu_ref_put_refines"]),
    "lfq": (["UrcuVerif.Props.SrcQueue"], ["UrcuVerif.Props.SrcQueue.lfq_proj", "UrcuVerif.Props.SrcQueue.lfq_enabled_iff", "UrcuVerif.Props.SrcQueue.lfq_frame", "UrcuVerif.Props.SrcQueue.lfq_frame_env", "UrcuVerif.Props.SrcQueue._cds_lfq_enqueue_rcu_refines", "UrcuVerif.Props.SrcQueue._cds_lfq_dequeue_rcu_refines_partial"]),
    "gp-qsbr": (["UrcuVerif.Props.SrcRead"], ["UrcuVerif.Props.SrcRead._urcu_qsbr_quiescent_state_refines", "UrcuVerif.Props.SrcRead._urcu_qsbr_thread_offline_refines", "UrcuVerif.Props.SrcRead._urcu_qsbr_thread_online_refines", "UrcuVerif.Props.SrcRead._urcu_qsbr_read_ongoing_refines", "UrcuVerif.Props.SrcRead._urcu_qsbr_read_lock_refines", "UrcuVerif.Props.SrcRead._urcu_qsbr_read_unlock_refines", "UrcuVerif.Props.SrcRead.urcu_qsbr_wake_up_gp_refines", "UrcuVerif.Props.SrcRead.qsbr_proj_step", "UrcuVerif.Props.SrcRead.qsbr_proj_enabled", "UrcuVerif.Props.SrcRead.qsbr_proj_frame", "UrcuVerif.Props.SrcRead.qsbr_handshake_proj_step", "UrcuVerif.Props.SrcRead.qsbr_handshake_proj_enabled", "UrcuVerif.Props.SrcRead.qsbr_handshake_proj_frame"]),
}

TRUSTED = [
    "source translator harness/gen/gen_src.py: a C-subset parser for the static-inline primitives; what it cannot express is an error, "
    "constants and zero-offset assumptions are evaluated / static-asserted by the C compiler against /repo's headers; its output and "
    "the IR semantics (Src/IR.lean: exact integers, memory orders carried but not interpreted, plain accesses on a private view) are "
    "validated against the compiled code only on the replayed traces (Driver/Src.lean)",
    "the concurrency macros (uatomic_*, cmm_smp_mb, CMM_LOAD/STORE_SHARED, rcu_dereference, futex_async) are opaque IR primitives: "
    "their implementation is C20's subject",
]


def legacy_default():
    try:
        txt = open(os.path.join(vlib.REPO, "include", "urcu", "config.h")).read()
    except OSError:
        return "1"
    return "1" if re.search(r"^\s*#\s*define\s+CONFIG_RCU_EMIT_LEGACY_MB\b", txt, re.M) else "0"


def replay_traces(chk, s, mode, nseeds):
    bins, variants = MODES[mode]
    drv = os.path.join(vlib.LEAN, ".lake", "build", "bin", "drv_src")
    fails = []
    for b in bins:
        path = os.path.join(vlib.BUILD, b)
        if not os.path.exists(path):
            s.setdefault("missing_binaries", []).append(b)
            continue
        for var in variants:
            # the parked-reader variant gives long traces and a large search for the list answers: fewer of them
            for k in range(max(1, nseeds // 6) if "--parklen" in var else nseeds):
                seed = chk.seed * 100 + k
                isenv = lambda v: re.match(r"^[A-Z_]+=", v) is not None
                args = [path, "--seed", str(seed), "--pswitch", str([30, 10, 60, 3][k % 4])] + [v for v in var if not isenv(v)]
                env = dict(v.split("=", 1) for v in var if isenv(v))
                rc, out, err = vlib.sh2(args, timeout=120, env=env)
                if rc not in (0,):
                    # the scenario's own oracles / budgets are the owning check's business
                    s["scenario_nonzero"] = s.get("scenario_nonzero", 0) + 1
                    continue
                rc2, dout, derr = vlib.sh2([drv, mode, "legacymb=" + legacy_default()], inp=out.encode(), timeout=120)
                s["evaluations"] += 1
                last = (dout.strip().splitlines() or [""])
                m = re.search(r"calls=(\d+) events=(\d+) (.*)", last[-1])
                if m:
                    s["calls"] += int(m.group(1))
                    s["events"] += int(m.group(2))
                    for kv in m.group(3).split():
                        if "=" in kv:
                            a, bb = kv.rsplit("=", 1)
                            if bb.isdigit():
                                s["histogram"][a] = s["histogram"].get(a, 0) + int(bb)
                if rc2 != 0:
                    fails.append({"mode": mode, "cmd": " ".join(args), "driver": "\n".join(last[-2:])[:1500]})
                    if len(fails) >= 2:
                        return fails
    return fails


def part(chk, modes):
    """Returns True when clean; violations through chk.fail."""
    s = chk.cov.setdefault("source_translator", {"evaluations": 0, "calls": 0, "events": 0, "histogram": {}})
    for a in TRUSTED:
        if a not in chk.assumptions:
            chk.assumptions.append(a)
    ok, log, info = vlib.gen_src()
    s.update(info)
    chk.cov["obligations"] += 1
    if not ok:
        chk.fail("theorem", {"theorem": "Gen.Src (source translator): a translated function left the C subset or its constants / "
                             "zero-offset assertions no longer compile", "lean_error": log[-3000:], "scenario": "src"}, nofail=True)
        return False
    mods, thms = [], []
    for m in modes:
        mm, tt = THEOREMS.get(m, ([], []))
        mods += [x for x in mm if x not in mods]
        thms += [x for x in tt if x not in thms]
    th, ax, un = list(chk.cov.get("theorems", [])), dict(chk.cov.get("axioms", {})), list(chk.cov.get("unproved_full_statements", []))
    cmd = chk.cov.get("checker_cmd", "")
    if mods:
        okp = chk.proof_part(mods + ["drv_src"], mods, thms, mods + ["UrcuVerif.Src.IR"], unproved=[], thorough_checker=False)
        chk.cov["theorems"] = th + [t for t in chk.cov.get("theorems", []) if t not in th]
        ax.update(chk.cov.get("axioms", {}))
        chk.cov["axioms"] = ax
        chk.cov["unproved_full_statements"] = un
        s["refinement_theorems"] = thms
        if cmd:
            chk.cov["checker_cmd"] = cmd + " ; " + chk.cov.get("checker_cmd", "")
        if not okp:
            if chk.violations:
                chk.violations[-1]["scenario"] = "src"
                chk.violations[-1]["what"] = ("a refinement theorem `generated source IR ⊑ L2` no longer checks against the IR regenerated "
                                              "from /repo's current C text")
            return False
    else:
        okb, logb = vlib.lake_build(["drv_src"])
        if not okb:
            chk.fail("theorem", {"theorem": "Driver.Src / Gen.Src do not build", "lean_error": logb[-3000:], "scenario": "src"}, nofail=True)
            return False
    chk.cov["discharged"] += 1
    n = 6 if chk.tier == "quick" else 40
    fails = []
    for m in modes:
        fails += replay_traces(chk, s, m, n)
    chk.cov["evaluations"] += s["evaluations"]
    if fails:
        chk.fail("divergence", dict(fails[0], scenario="src",
                                    correspondence="Gen/Src.lean (translated from the C text) run by Src.exec vs the compiled code's trace",
                                    what="the event sequence of a compiled primitive is not the one its source IR gives"), nofail=True)
        return False
    return True


def replay(rp):
    cmd = rp.get("cmd")
    if not cmd:
        print("replay: %s" % rp.get("theorem", rp.get("what", "")))
        print(rp.get("lean_error", "")[:2000])
        return 1
    rc, out, err = vlib.sh2(cmd.split(), timeout=120)
    drv = os.path.join(vlib.LEAN, ".lake", "build", "bin", "drv_src")
    rc2, dout, derr = vlib.sh2([drv, rp["mode"], "legacymb=" + legacy_default()], inp=out.encode(), timeout=120)
    print(dout[-1500:])
    return 1 if rc2 != 0 else 0
