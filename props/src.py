"""Source-translator tie (part of C01, C10, C11, C12, C17): the C text of the static-inline primitives of /repo is translated
on every run into Lean IR (harness/gen/gen_src.py -> Gen/Src.lean), the refinement theorems `generated IR ⊑ L2` are re-checked
against the regenerated terms (Props/Src*.lean), and the IR semantics + translator are validated against the compiled code by
replaying the traces of the scenario harnesses on `Src.exec` (Driver/Src.lean)."""
import os, re
import vlib

# mode -> (binaries (built by the owning check), extra args variants)
MODES = {
    # variant entries NAME=VALUE are environment settings; the parked-reader variant drives synchronize_rcu through wait_gp()
    "gp-memb": (["gp_memb"], [[], ["VRT_MEMBARRIER=0"], ["--parklen", "30000", "--nochurn", "--faults", "spur=200,eintr=300,enosys=0"]]),
    "gp-mb": (["gp_mb"], [[], ["--parklen", "30000", "--nochurn", "--faults", "spur=200,eintr=300,enosys=0"]]),
    "gp-bp": (["gp_bp"], [[]]),
    "gp-qsbr": (["gp_qsbr"], [[]]),
    "wfs": (["wfs", "wfs_rcu"], [[]]),
    "lfs": (["lfs", "lfs_rcu"], [[]]),
    "wfcq": (["wfcq", "wfcq_nl"], [[]]),
    "lfq": (["lfq_memb", "lfq_mb"], [[]]),
    "defer": (["defer_conc_memb", "defer_conc_mb"], [[]]),
    # proof-only parts (the futex wait / wake families; their events are inside calls replayed by other modes)
    "futex-gp": ([], [[]]), "futex-callrcu": ([], [[]]), "futex-defer": ([], [[]]), "futex-wq": ([], [[]]), "poll": ([], [[]]), "reg": ([], [[]]), "fork": ([], [[]]),
    "lfht": (["lfht_conc"], [[]]),
}

# refinement theorems per mode: (Props modules, selector on the theorem's short name); the names are read from the module
# texts (`namespace` / `section` / `theorem` lines) so that what is audited is what the modules state
def theorems_of(module):
    path = os.path.join(vlib.LEAN, *module.split(".")) + ".lean"
    out, ns, stack = [], [], []
    try:
        lines = open(path).read().split("\n")
    except OSError:
        return out
    for ln in lines:
        m = re.match(r"^(namespace|section|end)\b\s*(\S*)", ln)
        if m:
            kind, name = m.group(1), m.group(2)
            if kind == "namespace":
                stack.append(("ns", name))
            elif kind == "section":
                stack.append(("sec", name))
            elif stack:
                stack.pop()
            continue
        m = re.match(r"^(?:protected\s+|private\s+)?theorem\s+(\S+)", ln)
        if m:
            prefix = ".".join(n for k, n in stack if k == "ns" and n)
            out.append((prefix + "." if prefix else "") + m.group(1))
    return out


def _sel(*subs):
    return lambda n: any(x in n for x in subs)


MODE_THEOREMS = {
    "gp-memb": [("UrcuVerif.Props.SrcRead", lambda n: "_mb_" not in n and "_bp_" not in n and "qsbr" not in n),
                ("UrcuVerif.Props.SrcSync", lambda n: "SrcSyncQsbr" not in n and ".mb_" not in n)],
    "gp-mb": [("UrcuVerif.Props.SrcRead", lambda n: "_memb_" not in n and "_bp_" not in n and "qsbr" not in n),
              ("UrcuVerif.Props.SrcSync", lambda n: "SrcSyncQsbr" not in n and ".memb_" not in n)],
    "gp-bp": [("UrcuVerif.Props.SrcRead", lambda n: "_memb_" not in n and "_mb_" not in n and "qsbr" not in n),
              ("UrcuVerif.Props.SrcSync2", lambda n: "SrcSync2Qsbr" not in n)],
    "gp-qsbr": [("UrcuVerif.Props.SrcRead", _sel("qsbr")), ("UrcuVerif.Props.SrcSync", _sel("SrcSyncQsbr")),
                ("UrcuVerif.Props.SrcSync2", _sel("SrcSync2Qsbr"))],
    "wfs": [("UrcuVerif.Props.SrcStack", lambda n: "lfs" not in n)],
    "lfs": [("UrcuVerif.Props.SrcStack", _sel("lfs"))],
    "wfcq": [("UrcuVerif.Props.SrcQueue", lambda n: "lfq" not in n)],
    "lfq": [("UrcuVerif.Props.SrcQueue", _sel("lfq"))],
    "defer": [("UrcuVerif.Props.SrcDefer", lambda n: True)],
    "futex-gp": [("UrcuVerif.Props.SrcFutex", _sel("wait_gp", "wake_up_gp", "hs_", "qs_", "wait_node", "adaptative", "wait_add"))],
    "futex-callrcu": [("UrcuVerif.Props.SrcFutex", _sel("call_rcu", "cr_", "completion")), ("UrcuVerif.Props.SrcCallRcu", lambda n: True),
                      ("UrcuVerif.Props.SrcTail", lambda n: True)],
    "futex-defer": [("UrcuVerif.Props.SrcFutex", _sel("defer", "df_"))],
    "futex-wq": [("UrcuVerif.Props.SrcFutex", _sel(".futex_wait", ".futex_wake_up", "wake_worker_thread")), ("UrcuVerif.Props.SrcWq", lambda n: True),
                 ("UrcuVerif.Props.SrcWq2", lambda n: True), ("UrcuVerif.Props.SrcWq3", lambda n: True),
                 ("UrcuVerif.Props.SrcWq4", lambda n: True), ("UrcuVerif.Props.SrcWq5", lambda n: True),
                 ("UrcuVerif.Props.SrcWq6", lambda n: True)],
    "poll": [("UrcuVerif.Props.SrcPoll", lambda n: True)],
    "reg": [("UrcuVerif.Props.SrcReg", lambda n: True)],
    "fork": [("UrcuVerif.Props.SrcFork", lambda n: True), ("UrcuVerif.Props.SrcFork2", lambda n: True)],
    "lfht": [("UrcuVerif.Props.SrcLfht", lambda n: True), ("UrcuVerif.Props.SrcLfht2", lambda n: True),
             ("UrcuVerif.Props.SrcLfht3", lambda n: True), ("UrcuVerif.Props.SrcLfht4", lambda n: True),
             ("UrcuVerif.Props.SrcLfht5", lambda n: True), ("UrcuVerif.Props.SrcLfht6", lambda n: True),
             ("UrcuVerif.Props.SrcLfht7", lambda n: True)],
}


# modules whose builders have reported and which are imported by lean/UrcuVerif.lean
INTEGRATED = {"UrcuVerif.Props.SrcRead", "UrcuVerif.Props.SrcSync", "UrcuVerif.Props.SrcStack", "UrcuVerif.Props.SrcQueue",
              "UrcuVerif.Props.SrcDefer", "UrcuVerif.Props.SrcFutex", "UrcuVerif.Props.SrcPoll", "UrcuVerif.Props.SrcWq",
              "UrcuVerif.Props.SrcCallRcu", "UrcuVerif.Props.SrcLfht",
              "UrcuVerif.Props.SrcSync2", "UrcuVerif.Props.SrcWq2", "UrcuVerif.Props.SrcReg", "UrcuVerif.Props.SrcFork", "UrcuVerif.Props.SrcLfht2",
              "UrcuVerif.Props.SrcLfht3", "UrcuVerif.Props.SrcTail", "UrcuVerif.Props.SrcWq3", "UrcuVerif.Props.SrcLfht4",
              "UrcuVerif.Props.SrcWq4", "UrcuVerif.Props.SrcLfht5", "UrcuVerif.Props.SrcFork2",
              "UrcuVerif.Props.SrcWq5", "UrcuVerif.Props.SrcLfht6", "UrcuVerif.Props.SrcWq6", "UrcuVerif.Props.SrcLfht7"}


def mode_theorems(mode):
    mods, thms = [], []
    for module, sel in MODE_THEOREMS.get(mode, []):
        if module not in INTEGRATED:
            continue
        names = [n for n in theorems_of(module) if sel(n)]
        if names:
            mods.append(module)
            thms += names
    return mods, thms


TRUSTED = [
    "source translator harness/gen/gen_src.py: a C-subset parser for the static-inline primitives; what it cannot express is an error, "
    "constants and zero-offset assumptions are evaluated / static-asserted by the C compiler against /repo's headers; its output and "
    "the IR semantics (Src/IR.lean: exact integers, memory orders carried but not interpreted, plain accesses on a private view) are "
    "validated against the compiled code only on the replayed traces (Driver/Src.lean)",
    "the concurrency macros (uatomic_*, cmm_smp_mb, CMM_LOAD/STORE_SHARED, rcu_dereference, futex_async) are opaque IR primitives: "
    "their implementation is C20's subject",
]


def legacy_default():
    try:
        txt = open(os.path.join(vlib.REPO, "include", "urcu", "config.h")).read()
    except OSError:
        return "1"
    return "1" if re.search(r"^\s*#\s*define\s+CONFIG_RCU_EMIT_LEGACY_MB\b", txt, re.M) else "0"


def replay_traces(chk, s, mode, nseeds):
    bins, variants = MODES[mode]
    drv = os.path.join(vlib.LEAN, ".lake", "build", "bin", "drv_src")
    fails = []
    for b in bins:
        path = os.path.join(vlib.BUILD, b)
        if not os.path.exists(path):
            s.setdefault("missing_binaries", []).append(b)
            continue
        for var in variants:
            # the parked-reader variant gives long traces and a large search for the list answers: fewer of them
            for k in range(max(1, nseeds // 6) if "--parklen" in var else nseeds):
                seed = chk.seed * 100 + k
                isenv = lambda v: re.match(r"^[A-Z_]+=", v) is not None
                args = [path, "--seed", str(seed), "--pswitch", str([30, 10, 60, 3][k % 4])] + [v for v in var if not isenv(v)]
                env = dict(v.split("=", 1) for v in var if isenv(v))
                rc, out, err = vlib.sh2(args, timeout=120, env=env)
                if rc not in (0,):
                    # the scenario's own oracles / budgets are the owning check's business
                    s["scenario_nonzero"] = s.get("scenario_nonzero", 0) + 1
                    continue
                rc2, dout, derr = vlib.sh2([drv, mode, "legacymb=" + legacy_default()], inp=out.encode(), timeout=120)
                s["evaluations"] += 1
                last = (dout.strip().splitlines() or [""])
                m = re.search(r"calls=(\d+) events=(\d+) (.*)", last[-1])
                if m:
                    s["calls"] += int(m.group(1))
                    s["events"] += int(m.group(2))
                    for kv in m.group(3).split():
                        if "=" in kv:
                            a, bb = kv.rsplit("=", 1)
                            if bb.isdigit():
                                s["histogram"][a] = s["histogram"].get(a, 0) + int(bb)
                if rc2 != 0:
                    fails.append({"mode": mode, "cmd": " ".join(args), "driver": "\n".join(last[-2:])[:1500]})
                    if len(fails) >= 2:
                        return fails
    return fails


def part(chk, modes):
    """Returns True when clean; violations through chk.fail."""
    s = chk.cov.setdefault("source_translator", {"evaluations": 0, "calls": 0, "events": 0, "histogram": {}})
    for a in TRUSTED:
        if a not in chk.assumptions:
            chk.assumptions.append(a)
    ok, log, info = vlib.gen_src()
    s.update(info)
    chk.cov["obligations"] += 1
    if not ok:
        chk.fail("theorem", {"theorem": "Gen.Src (source translator): a translated function left the C subset or its constants / "
                             "zero-offset assertions no longer compile", "lean_error": log[-3000:], "scenario": "src"}, nofail=True)
        return False
    mods, thms = [], []
    for m in modes:
        mm, tt = mode_theorems(m)
        mods += [x for x in mm if x not in mods]
        thms += [x for x in tt if x not in thms]
    th, ax, un = list(chk.cov.get("theorems", [])), dict(chk.cov.get("axioms", {})), list(chk.cov.get("unproved_full_statements", []))
    cmd = chk.cov.get("checker_cmd", "")
    if mods:
        okp = chk.proof_part(mods + ["drv_src"], mods, thms, mods + ["UrcuVerif.Src.IR"], unproved=[], thorough_checker=False)
        chk.cov["theorems"] = th + [t for t in chk.cov.get("theorems", []) if t not in th]
        ax.update(chk.cov.get("axioms", {}))
        chk.cov["axioms"] = ax
        chk.cov["unproved_full_statements"] = un
        s["refinement_theorems"] = thms
        if cmd:
            chk.cov["checker_cmd"] = cmd + " ; " + chk.cov.get("checker_cmd", "")
        if not okp:
            if chk.violations:
                chk.violations[-1]["scenario"] = "src"
                chk.violations[-1]["what"] = ("a refinement theorem `generated source IR ⊑ L2` no longer checks against the IR regenerated "
                                              "from /repo's current C text")
            return False
    else:
        okb, logb = vlib.lake_build(["drv_src"])
        if not okb:
            chk.fail("theorem", {"theorem": "Driver.Src / Gen.Src do not build", "lean_error": logb[-3000:], "scenario": "src"}, nofail=True)
            return False
    chk.cov["discharged"] += 1
    n = 6 if chk.tier == "quick" else 40
    fails = []
    for m in modes:
        fails += replay_traces(chk, s, m, n)
    chk.cov["evaluations"] += s["evaluations"]
    if fails:
        chk.fail("divergence", dict(fails[0], scenario="src",
                                    correspondence="Gen/Src.lean (translated from the C text) run by Src.exec vs the compiled code's trace",
                                    what="the event sequence of a compiled primitive is not the one its source IR gives"), nofail=True)
        return False
    return True


def replay(rp):
    cmd = rp.get("cmd")
    if not cmd:
        print("replay: %s" % rp.get("theorem", rp.get("what", "")))
        print(rp.get("lean_error", "")[:2000])
        return 1
    rc, out, err = vlib.sh2(cmd.split(), timeout=120)
    drv = os.path.join(vlib.LEAN, ".lake", "build", "bin", "drv_src")
    rc2, dout, derr = vlib.sh2([drv, rp["mode"], "legacymb=" + legacy_default()], inp=out.encode(), timeout=120)
    print(dout[-1500:])
    return 1 if rc2 != 0 else 0
