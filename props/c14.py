"""C14 — grace-period polling (src/urcu-poll-impl.h).  DESIGN.md §4 C14."""
import json
import os
import vlib

THEOREMS = ["UrcuVerif.Poll.poll_sound", "UrcuVerif.Poll.poll_monotone", "UrcuVerif.Poll.poll_no_stuck",
            "UrcuVerif.Poll.poll_progress", "UrcuVerif.Poll.need_noninc", "UrcuVerif.Poll.need_le_two",
            "UrcuVerif.Poll.poll_true_iff_need_zero", "UrcuVerif.Poll.signed_cmp_correct",
            "UrcuVerif.Poll.inv_step"]
TRUSTED = ["Lean 4.33 kernel; axioms ⊆ {propext, Classical.choice, Quot.sound}",
           "call_rcu abstracted by C03's guarantee (callback runs after a grace period that started after it was queued)",
           "grace period abstracted by GpSpec (C01)",
           "tie: harness/scen/poll.c (sequential op sequences) and harness/scen/poll_conc.c (the same real file under the cooperative runtime: threads are preempted at every mutex acquisition/release; operations ordered by the ticket taken when the mutex is acquired) + Driver/Poll.lean",
           "fewer than 2^63 grace periods per run (signed_cmp_correct)"]


def build():
    ok, log = vlib.cc("poll", [os.path.join(vlib.HARN, "scen", "poll.c")])
    if not ok:
        return ok, log
    return vlib.cc("poll_conc", [os.path.join(vlib.HARN, "scen", "poll_conc.c"), os.path.join(vlib.HARN, "rt", "vrt.c")], ["-w"])


def run_conc(seed, hold=2, pops=12, rops=20):
    """concurrent scenario under the cooperative runtime; ops are ordered by the ticket taken at their linearisation point"""
    args = [os.path.join(vlib.BUILD, "poll_conc"), "--seed", str(seed), "--pswitch", str(10 + (seed * 13) % 60),
            "--pollers", str(1 + seed % 3), "--readers", str(1 + seed % 4), "--pops", str(pops), "--rops", str(rops),
            "--hold", str(hold)]
    if seed % 3 == 0:
        args += ["--base", str((1 << 64) - 1 - seed % 5)]
    rc, out, err = vlib.sh2(args, timeout=60)
    if rc not in (0, 3):
        return "crash", {"cmd": args, "rc": rc, "stderr": err[-600:]}, ""
    ops = []
    for ln in out.splitlines():
        if ln.startswith("SEQ "):
            w = ln.split(" ", 2)
            ops.append((int(w[1]), w[2]))
    ops.sort(key=lambda x: x[0])
    text = "\n".join(o for _, o in ops) + "\n"
    drc, dout = vlib.sh([os.path.join(vlib.LEAN, ".lake", "build", "bin", "drv_poll")], inp=text.encode(), timeout=120)
    if rc == 3:
        return "oracle", {"cmd": args, "oracle": err.strip().splitlines()[:4], "driver": dout.strip().splitlines()[:2]}, dout
    if drc != 0:
        return "diverge", {"cmd": args, "driver": dout.strip().splitlines()[:2]}, dout
    return "ok", {"cmd": args, "ops": len(ops)}, dout


def run_one(chk, seed, nops, base=None):
    """returns (verdict, detail) verdict in ok|diverge|oracle|crash"""
    args = [os.path.join(vlib.BUILD, "poll"), str(seed), str(nops)] + ([str(base)] if base is not None else [])
    rc, out, err = vlib.sh2(args, timeout=60)
    if rc not in (0, 3):
        return "crash", {"cmd": args, "rc": rc, "stderr": err[-800:]}, ""
    drc, dout = vlib.sh([os.path.join(vlib.LEAN, ".lake", "build", "bin", "drv_poll")], inp=out.encode(), timeout=120)
    if rc == 3:
        return "oracle", {"cmd": args, "oracle": err.strip().splitlines()[:5], "driver": dout.strip().splitlines()[:2]}, dout
    if drc != 0:
        return "diverge", {"cmd": args, "driver": dout.strip().splitlines()[:2]}, dout
    return "ok", {"cmd": args, "lines": len(out.splitlines())}, dout


def run(chk):
    chk.assumptions = TRUSTED
    chk.cov["trusted_base"] = TRUSTED
    proved = chk.proof_part(["UrcuVerif.Props.C14", "drv_poll"], "UrcuVerif.Props.C14", THEOREMS,
                            ["UrcuVerif.Poll", "UrcuVerif.Props.C14", "UrcuVerif.Machine"])
    proved = chk.live_part() and proved
    ok, log = build()
    if not ok:
        chk.fail("build", {"theorem": "harness/scen/poll.c does not compile against /repo", "lean_error": log[-2000:]}, nofail=True)
        return
    if not proved:
        # still search for a concrete failing input below (driver may be stale: only oracle counts)
        pass
    nseq = 60 if chk.tier == "quick" else 1500
    nops = 300 if chk.tier == "quick" else 1200
    hist = {}
    bad = None
    nontriv = set()
    for k in range(nseq):
        sd = chk.seed * 100000 + k
        v, d, dout = run_one(chk, sd, nops)
        chk.cov["evaluations"] += 1
        if v == "ok":
            cov = dict(x.split("=") for x in dout.split()[2:] if "=" in x)
            for kk, vv in cov.items():
                hist[kk] = hist.get(kk, 0) + int(vv)
            if int(cov.get("poll_true", 0)) and int(cov.get("poll_false", 0)) and int(cov.get("start_active", 0)):
                nontriv.add(dout)
            if k < 2:
                chk.sample({"seed": sd, "ops": nops, "driver": dout.strip()})
        else:
            bad = (v, d)
            break
    # concurrent part: real mutex boundaries under the cooperative scheduler
    nconc = 120 if chk.tier == "quick" else 3000
    chist = {}
    if not bad:
        for k in range(nconc):
            sd = chk.seed * 100000 + 70000 + k
            v, d, dout = run_conc(sd, hold=2 + k % 7)
            chk.cov["evaluations"] += 1
            if v == "ok":
                for x in dout.split()[2:]:
                    if "=" in x:
                        kk, vv = x.split("=")
                        chist[kk] = chist.get(kk, 0) + int(vv)
                if k < 1:
                    chk.sample({"concurrent": " ".join(d["cmd"][1:]), "driver": dout.strip()})
            else:
                d["scenario"] = "poll_conc"
                bad = (v, d)
                break
    chk.cov["concurrent_branch_histogram"] = chist
    chk.cov["traces_validated_against_impl"] = chk.cov["evaluations"]
    chk.cov["distinct_nontrivial"] = len(nontriv)
    chk.cov["rule"] = ("operation sequences (start_poll/poll/worker/gp start/gp end/lock/unlock) drawn from VERIF_SEED over "
                       "1-4 readers, counter base near 0, 2^63 and 2^64; non-trivial = contains a true poll, a false poll and a "
                       "start while the worker is active; distinct = different driver coverage summary")
    chk.cov["branch_histogram"] = hist
    if bad:
        v, d = bad
        if v == "oracle":
            chk.fail("input", dict(d, scenario="poll", what="implementation oracle: " + "; ".join(d["oracle"])))
        elif v == "diverge":
            # correspondence broken: look for a concrete failing input with the oracle on more sequences
            found = None
            if d.get("scenario") == "poll_conc":
                for k in range(4000):
                    v2, d2, _ = run_conc(chk.seed * 100000 + 200000 + k, hold=4 + k % 6, pops=20, rops=60)
                    if v2 == "oracle":
                        found = d2
                        break
            for k in range(3000 if not found else 0):
                sd = chk.seed * 100000 + 50000 + k
                v2, d2, _ = run_one(chk, sd, 1500)
                if v2 == "oracle":
                    found = d2
                    break
            if found:
                chk.fail("input", dict(found, scenario="poll", what="implementation oracle: " + "; ".join(found["oracle"]),
                                       first_divergence=d))
            else:
                chk.fail("divergence", dict(d, scenario="poll", correspondence="Driver/Poll.lean vs src/urcu-poll-impl.h",
                                            what="implementation no longer behaves as a run of the proven model"), nofail=True)
        else:
            chk.fail("input", dict(d, scenario="poll", what="harness crashed"))


def replay(rp):
    ok, log = build()
    if not ok:
        print(log)
        return 2
    if "cmd" in rp and "poll_conc" in rp["cmd"][0]:
        rc, out, err = vlib.sh2([os.path.join(vlib.BUILD, "poll_conc")] + [str(x) for x in rp["cmd"][1:]], timeout=60)
        print(err)
        return 1 if rc != 0 else 0
    if "cmd" in rp:
        args = [os.path.join(vlib.BUILD, "poll")] + [str(x) for x in rp["cmd"][1:]]
        rc, out, err = vlib.sh2(args, timeout=60)
        drc, dout = vlib.sh([os.path.join(vlib.LEAN, ".lake", "build", "bin", "drv_poll")], inp=out.encode(), timeout=120)
        print(err)
        print(dout)
        return 1 if (rc != 0 or drc != 0) else 0
    print(json.dumps(rp, indent=1))
    return 1
