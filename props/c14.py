"""C14 — grace-period polling (src/urcu-poll-impl.h).  DESIGN.md §4 C14."""
import json
import os
import vlib

THEOREMS = ["UrcuVerif.Poll.poll_sound", "UrcuVerif.Poll.poll_monotone", "UrcuVerif.Poll.poll_no_stuck",
            "UrcuVerif.Poll.poll_progress", "UrcuVerif.Poll.need_noninc", "UrcuVerif.Poll.need_le_two",
            "UrcuVerif.Poll.poll_true_iff_need_zero", "UrcuVerif.Poll.signed_cmp_correct",
            "UrcuVerif.Poll.inv_step"]
TRUSTED = ["Lean 4.33 kernel; axioms ⊆ {propext, Classical.choice, Quot.sound}",
           "call_rcu abstracted by C03's guarantee (callback runs after a grace period that started after it was queued)",
           "grace period abstracted by GpSpec (C01)",
           "tie: harness/scen/poll.c + Driver/Poll.lean (operation-sequence replay; each API body is atomic under the mutex)",
           "fewer than 2^63 grace periods per run (signed_cmp_correct)"]


def build():
    ok, log = vlib.cc("poll", [os.path.join(vlib.HARN, "scen", "poll.c")])
    return ok, log


def run_one(chk, seed, nops, base=None):
    """returns (verdict, detail) verdict in ok|diverge|oracle|crash"""
    args = [os.path.join(vlib.BUILD, "poll"), str(seed), str(nops)] + ([str(base)] if base is not None else [])
    rc, out, err = vlib.sh2(args, timeout=60)
    if rc not in (0, 3):
        return "crash", {"cmd": args, "rc": rc, "stderr": err[-800:]}, ""
    drc, dout = vlib.sh([os.path.join(vlib.LEAN, ".lake", "build", "bin", "drv_poll")], inp=out.encode(), timeout=120)
    if rc == 3:
        return "oracle", {"cmd": args, "oracle": err.strip().splitlines()[:5], "driver": dout.strip().splitlines()[:2]}, dout
    if drc != 0:
        return "diverge", {"cmd": args, "driver": dout.strip().splitlines()[:2]}, dout
    return "ok", {"cmd": args, "lines": len(out.splitlines())}, dout


def run(chk):
    chk.assumptions = TRUSTED
    chk.cov["trusted_base"] = TRUSTED
    proved = chk.proof_part(["UrcuVerif.Props.C14", "drv_poll"], "UrcuVerif.Props.C14", THEOREMS,
                            ["UrcuVerif.Poll", "UrcuVerif.Props.C14", "UrcuVerif.Machine"])
    ok, log = build()
    if not ok:
        chk.fail("build", {"theorem": "harness/scen/poll.c does not compile against /repo", "lean_error": log[-2000:]}, nofail=True)
        return
    if not proved:
        # still search for a concrete failing input below (driver may be stale: only oracle counts)
        pass
    nseq = 60 if chk.tier == "quick" else 1500
    nops = 300 if chk.tier == "quick" else 1200
    hist = {}
    bad = None
    nontriv = set()
    for k in range(nseq):
        sd = chk.seed * 100000 + k
        v, d, dout = run_one(chk, sd, nops)
        chk.cov["evaluations"] += 1
        if v == "ok":
            cov = dict(x.split("=") for x in dout.split()[2:] if "=" in x)
            for kk, vv in cov.items():
                hist[kk] = hist.get(kk, 0) + int(vv)
            if int(cov.get("poll_true", 0)) and int(cov.get("poll_false", 0)) and int(cov.get("start_active", 0)):
                nontriv.add(dout)
            if k < 2:
                chk.sample({"seed": sd, "ops": nops, "driver": dout.strip()})
        else:
            bad = (v, d)
            break
    chk.cov["traces_validated_against_impl"] = chk.cov["evaluations"]
    chk.cov["distinct_nontrivial"] = len(nontriv)
    chk.cov["rule"] = ("operation sequences (start_poll/poll/worker/gp start/gp end/lock/unlock) drawn from VERIF_SEED over "
                       "1-4 readers, counter base near 0, 2^63 and 2^64; non-trivial = contains a true poll, a false poll and a "
                       "start while the worker is active; distinct = different driver coverage summary")
    chk.cov["branch_histogram"] = hist
    if bad:
        v, d = bad
        if v == "oracle":
            chk.fail("input", dict(d, scenario="poll", what="implementation oracle: " + "; ".join(d["oracle"])))
        elif v == "diverge":
            # correspondence broken: look for a concrete failing input with the oracle on more sequences
            found = None
            for k in range(3000):
                sd = chk.seed * 100000 + 50000 + k
                v2, d2, _ = run_one(chk, sd, 1500)
                if v2 == "oracle":
                    found = d2
                    break
            if found:
                chk.fail("input", dict(found, scenario="poll", what="implementation oracle: " + "; ".join(found["oracle"]),
                                       first_divergence=d))
            else:
                chk.fail("divergence", dict(d, scenario="poll", correspondence="Driver/Poll.lean vs src/urcu-poll-impl.h",
                                            what="implementation no longer behaves as a run of the proven model"), nofail=True)
        else:
            chk.fail("input", dict(d, scenario="poll", what="harness crashed"))


def replay(rp):
    ok, log = build()
    if not ok:
        print(log)
        return 2
    if "cmd" in rp:
        args = [os.path.join(vlib.BUILD, "poll")] + [str(x) for x in rp["cmd"][1:]]
        rc, out, err = vlib.sh2(args, timeout=60)
        drc, dout = vlib.sh([os.path.join(vlib.LEAN, ".lake", "build", "bin", "drv_poll")], inp=out.encode(), timeout=120)
        print(err)
        print(dout)
        return 1 if (rc != 0 or drc != 0) else 0
    print(json.dumps(rp, indent=1))
    return 1
