"""C13, concurrent part — defer_rcu owner/runner interleaving at single-access granularity on x86-TSO and the
defer thread's futex handshake (src/urcu-defer-impl.h inside the real src/urcu.c).  DESIGN.md §4 C13, §10.2.

`run_part(chk)` is called by props/c13.py; `run(chk)` / `replay(rp)` make `check.py C13CONC` work stand-alone."""
import json
import os
import re
from concurrent.futures import ThreadPoolExecutor

import vlib

A = "UrcuVerif.DeferConc."
W = "UrcuVerif.DeferWake."
THEOREMS = [A + n for n in ("tso_publication", "no_overwrite_unread", "conc_exactly_once_in_order", "invoke_is_next",
                            "conc_runs_after_gp", "gp_is_GpSpec", "flush_leaves_empty", "ld_below_snap", "real_cfg_wf", "inv_step",
                            "inv_reach", "enc1_shape")] + \
           [W + n for n in ("reclaimer_no_lost_wakeup", "defer_futex_range", "waker_not_stuck", "waker_measure", "wake_wakes",
                            "woken_returns", "test_sees_sleeper", "inv_step", "inv_reach")] + \
           ["UrcuVerif.C13_conc_partial_proved",
            W + "Neg.lost_wakeup_without_mb", W + "Neg.lost_wakeup_without_mb_late", W + "Neg.lost_wakeup_scan_before_dec",
            A + "Neg.overwrite_when_tail_published_early"]
UNPROVED = []   # C13_conc_full is proved: UrcuVerif.C13_conc_full_proved (Props/LiveC13.lean, audited by chk.live_part)
TRUSTED = ["Lean 4.33 kernel; axioms ⊆ {propext, Classical.choice, Quot.sound}",
           "x86-TSO machine (FIFO store buffer per thread, loads from memory or own buffer, locked RMW / mfence / mutex / "
           "system calls drain the buffer); futex contract (FUTEX_WAIT compares and sleeps atomically; EAGAIN / EINTR / "
           "spurious returns unconstrained)",
           "grace period abstracted by GpSpec (C01): synchronize_rcu() returns only when every section begun before the "
           "call has ended; the driver checks this guard on every real synchronize_rcu() of the explored runs",
           "two-level structure: all theorems are about the L2 models (Defer/ConcModel.lean, Defer/ConcWake.lean); the L1 "
           "transliteration Driver/DeferConc.lean ⊑ L2 is checked on every explored schedule, not proved; the two L2 models "
           "share the `store head; mb` steps and are composed by interface",
           "the order in which a barrier visits the registry and the registry itself are abstracted (any duplicate-free "
           "sequence of queues: superset); register/unregister life cycle, barrier completeness and the codec's algebra "
           "are the op-level part of C13 (Props/C13.lean)",
           "tie: harness/scen/defer_conc.c = the real src/urcu.c (mb and memb flavors) + the real src/urcu-defer-impl.h "
           "(re-included by include path with synchronize_rcu bracketed by markers) under harness/rt/vrt_shim.h and the "
           "cooperative runtime; macro shim only: every access to q[], head, tail, defer_thread_futex/stop is a uatomic_* "
           "in this source; thread-private / mutex-protected plain accesses are folded into adjacent events",
           "liveness: 'sleeper always has a non-stuck waker with a strictly decreasing own-step measure'; 'eventually runs' "
           "additionally needs a fair scheduler; callbacks return; 64-bit long; malloc of the ring succeeds"]
OWN = {"order", "extra", "early", "lost", "notrun", "DEADLOCK", "BUDGET", "SELFLOCK", "BADUNLOCK"}
WANT = ["threshold_flush", "entry_across_ring_wrap", "entry_slots_1", "entry_slots_2", "entry_slots_3", "own_flush_run",
        "barrier_run", "barrier_by_thread", "defer_thread_pass", "defer_futex_SLEEP", "wake_sleeping_defer_thread",
        "wake_not_needed", "wait_defer_callbacks_queued", "re_register", "stop_defer_thread", "reader_lock", "gp", "invoke"]
DRV = os.path.join(vlib.LEAN, ".lake", "build", "bin", "drv_deferconc")
FLAVORS = [("mb", "RCU_MB"), ("memb", "RCU_MEMBARRIER")]


def build():
    rt = os.path.join(vlib.HARN, "rt")
    srcs = [os.path.join(vlib.HARN, "scen", "defer_conc.c"), os.path.join(rt, "vrt.c"),
            os.path.join(rt, "vrt_compat_futex.c")] + vlib.rsrc("compat_arch.c")
    for fl, d in FLAVORS:
        ok, log = vlib.cc("defer_conc_" + fl, srcs, ["-w", "-D" + d])
        if not ok:
            return False, log
    return True, ""


def one(flavor, seed, extra, budget=600000):
    """returns dict(verdict=ok|diverge|oracle|crash, ...)"""
    args = [os.path.join(vlib.BUILD, "defer_conc_" + flavor), "--seed", str(seed), "--budget", str(budget)] + [str(x) for x in extra]
    rc, out, err = vlib.sh2(args, timeout=180, env={"VRT_MEMBARRIER": "1"})
    res = {"cmd": args, "rc": rc, "flavor": flavor}
    kinds = sorted(set(re.findall(r"ORACLE (\w+)", err)))
    if rc not in (0, 3, 4, 5):
        drc, dout = vlib.sh([DRV], inp=out.encode(), timeout=300)
        res.update(verdict="crash", stderr=err.strip().splitlines()[-4:], driver=dout.strip().splitlines()[:1])
        return res
    drc, dout = vlib.sh([DRV], inp=out.encode(), timeout=300)
    res["driver"] = [l[:1500] for l in dout.strip().splitlines()[:2]]
    res["events"] = len(out.splitlines())
    if kinds:
        res.update(verdict="oracle", kinds=kinds, oracle=err.strip().splitlines()[:4])
    elif drc != 0:
        res.update(verdict="diverge")
    else:
        res.update(verdict="ok")
        res["cov"] = dict((k, int(v)) for k, v in (x.split("=") for x in dout.split()[2:] if "=" in x))
    return res


def plan(seed, tier):
    """list of (flavor, seed, extra-args, tag)"""
    jobs = []
    n = 240 if tier == "quick" else 9000
    for k in range(n):
        sd = seed * 100000 + k
        fl = FLAVORS[k % 2][0]
        owners = 1 + k % 3
        readers = (k // 3) % 4 if k % 7 else 0
        extra = ["--owners", owners, "--readers", min(readers, 3), "--calls", 60 + (k * 37) % 180, "--churn", [0, 3, 12][k % 3],
                 "--psame", [60, 20, 85][(k // 2) % 3], "--padv", [25, 5, 50][(k // 5) % 3], "--pflush", [1, 4, 0][k % 3]]
        if k % 4 == 1:
            extra += ["--bar"]
        if k % 3 != 2:
            extra += ["--faults", "spur=%d,eintr=%d,enosys=%d" % ([0, 150, 300][k % 3], [0, 200, 100][(k // 2) % 3], [0, 0, 60, 1000][(k // 3) % 4])]
        if k % 5 == 2:
            extra += ["--quiesce"]
        if k % 6 == 3:
            extra += ["--strategy", "pct", "--pctd", 1 + k % 4, "--pctlen", 3000]
        else:
            extra += ["--pswitch", [3, 10, 25, 50, 80][k % 5]]
        jobs.append((fl, sd, extra, "mixed"))
    # ring wrap and the SIZE-2 flush: long sections hold the defer thread's grace period while the rings fill
    nh = 8 if tier == "quick" else 150
    for k in range(nh):
        sd = seed * 100000 + 50000 + k
        extra = ["--owners", 1 + k % 2, "--readers", 1, "--calls", 3000 + 400 * (k % 3), "--hog", "--pflush", 0, "--churn", 0,
                 "--park", 30000, "--psame", [60, 85, 40][k % 3], "--pswitch", [10, 4, 30][k % 3]]
        jobs.append((FLAVORS[k % 2][0], sd, extra, "hog"))
    # directed: ring filled behind a long section, the defer thread preempted for long in the middle of its batch, a burst
    # of calls meanwhile (the interleaving in which tail must not be published before the batch is consumed)
    for k in range(2 if tier == "quick" else 30):
        jobs.append((FLAVORS[k % 2][0], seed * 100000 + 60000 + k, ["--overrun", "--calls", 3900 - 7 * k, "--pswitch", [20, 45, 8][k % 3]], "hog"))
    return jobs


def sweep_jobs(tier):
    """one-preemption sweep: non-preemptive base schedule (the defer thread runs wait_defer to its FUTEX_WAIT while the
    single owner is parked); the owner is resumed at global step N for M steps, for every N inside / around the
    dec-futex -> scan -> wait window and around every futex event of the base run; afterwards it waits (no API call)
    for its one call to be run by the defer thread."""
    jobs = []
    for fl, _ in FLAVORS:
        args = [os.path.join(vlib.BUILD, "defer_conc_" + fl), "--seed", "1", "--oneshot-sweep", "--strategy", "sweep"]
        rc, out, err = vlib.sh2(args, timeout=60)
        marks = [int(x) for x in re.findall(r"^#@ (\d+)$", out, re.M) if int(x) < 500000]
        pts = set()
        for m in marks:
            pts.update(range(max(1, m - 16), m + 5))
        for n in sorted(pts):
            for ln in ((2, 4, 7, 12) if tier == "quick" else (1, 2, 3, 4, 5, 7, 9, 12, 20)):
                jobs.append((fl, 1, ["--oneshot-sweep", "--strategy", "sweep", "--preempt-at", n, "--preempt-tid", 1,
                                     "--preempt-len", ln], "sweep"))
        # the other window: the owner runs three calls back to back; the defer thread (T2, woken by the first call) is
        # forced in for M steps at every step N of the owner's head-store -> mb -> futex-load windows
        args = [os.path.join(vlib.BUILD, "defer_conc_" + fl), "--seed", "1", "--oneshot-sweep2", "--strategy", "sweep"]
        rc, out, err = vlib.sh2(args, timeout=60)
        marks = [int(x) for x in re.findall(r"^#@ (\d+)$", out, re.M)]
        hi = min(marks) if marks else 60     # the owner's three calls precede the first futex event of the base run
        for n in range(8, hi + 2, 1 if tier != "quick" else 2):
            for ln in ((6, 18, 45) if tier == "quick" else (2, 4, 6, 10, 18, 30, 45, 70)):
                jobs.append((fl, 1, ["--oneshot-sweep2", "--strategy", "sweep", "--preempt-at", n, "--preempt-tid", 2,
                                     "--preempt-len", ln], "sweep"))
    return jobs


def run_jobs(jobs):
    with ThreadPoolExecutor(max_workers=max(2, min(12, vlib.NCPU))) as ex:
        return list(ex.map(lambda j: (j, one(j[0], j[1], j[2], budget=4000000 if j[3] == "hog" else 600000)), jobs))


def tso_witness(chk, f):
    """a fence the TSO proof needs is missing: the SC harness cannot show the failure; the pre-proved x86-TSO run of the
    algorithm without it (Neg/C13.lean) is the concrete failing history"""
    dmsg = " ".join(f.get("driver") or [])
    if "[cmm_smp_mb before wake_up_defer" in dmsg or "[store defer_thread_stop before testing futex]" in dmsg:
        return dict(f, scenario="defer_conc", theorem=W + "Neg.lost_wakeup_without_mb",
                    model_run=["k0 0 (head store, buffered)", "kf 0 (no fence)", "k1 0 (futex load reads 0)", "k2Skip 0 (returns)",
                               "dDec (futex := -1)", "dScanQ 0 (memory: queue empty)", "dScanEnd", "dLoad (-1)",
                               "dWaitSleep -> defer thread asleep, queue non-empty, nobody left to wake it"],
                    what="the code no longer issues cmm_smp_mb() between the head store and the futex load; Lean-checked x86-TSO "
                         "run of the algorithm without it loses the wake-up (queued call not run without a further API call): " + dmsg[:200])
    return None


def run_part(chk):
    chk.assumptions = list(getattr(chk, "assumptions", [])) + [t for t in TRUSTED if t not in getattr(chk, "assumptions", [])]
    chk.cov["trusted_base"] = list(chk.cov.get("trusted_base", [])) + [t for t in TRUSTED if t not in chk.cov.get("trusted_base", [])]
    proved = chk.proof_part(["UrcuVerif.Props.C13Conc", "UrcuVerif.Neg.C13", "drv_deferconc"],
                            ["UrcuVerif.Props.C13Conc", "UrcuVerif.Neg.C13"], THEOREMS,
                            ["UrcuVerif.Defer", "UrcuVerif.Props.C13Conc", "UrcuVerif.Neg.C13", "UrcuVerif.Machine"],
                            unproved=UNPROVED)
    ok, log = build()
    if not ok:
        chk.fail("build", {"theorem": "harness/scen/defer_conc.c does not compile against the repository",
                           "lean_error": log[-2000:]}, nofail=True)
        return
    if not proved and not os.path.exists(DRV):
        return
    jobs = plan(chk.seed, chk.tier)
    results = run_jobs(jobs)
    results += run_jobs(sweep_jobs(chk.tier))
    hist = chk.cov.setdefault("conc_branch_histogram", {})
    nontriv = set()
    fails = []
    events = 0
    per_tag = {}
    for (fl, sd, extra, tag), r in results:
        chk.cov["evaluations"] += 1
        per_tag[tag] = per_tag.get(tag, 0) + 1
        if r["verdict"] == "ok":
            events += r["events"]
            for kk, vv in r["cov"].items():
                hist[kk] = hist.get(kk, 0) + vv
            c = r["cov"]
            if c.get("invoke") and c.get("gp") and c.get("entry_slots_3") and c.get("defer_thread_pass"):
                nontriv.add((fl, r["driver"][0]))
            if tag in ("mixed", "hog") and sum(1 for s in chk.cov["samples"] if s.get("tag") == tag) < 1:
                chk.sample({"tag": tag, "cmd": " ".join(r["cmd"][1:]), "driver": r["driver"][0][:900]})
        else:
            r["tag"] = tag
            fails.append(r)
    chk.cov["conc_runs"] = per_tag
    chk.cov["conc_events_compared"] = events
    chk.cov["traces_validated_against_impl"] = chk.cov.get("traces_validated_against_impl", 0) + sum(per_tag.values()) - len(fails)
    chk.cov["distinct_nontrivial"] = chk.cov.get("distinct_nontrivial", 0) + len(nontriv)
    rule = ("concurrent part: schedules of harness/scen/defer_conc.c (real src/urcu.c mb+memb with the real urcu-defer-impl.h; "
            "1-3 owners with generated (fct, arg) streams incl. odd-address functions / odd, mark, mark|1 arguments, own "
            "flushes, rcu_defer_barrier, unregister/register churn; the real defer thread; optional barrier caller; 0-3 "
            "readers; futex fault plans spur/eintr/enosys) drawn from VERIF_SEED with random walk (5 switch rates), PCT, directed 'overrun' runs (defer thread frozen mid-batch while the owner bursts), "
            "'hog' runs that wrap the 4096-slot ring and reach the SIZE-2 flush, 'quiesce' runs (no further API call), and a "
            "systematic one-preemption sweep around the head-store->futex-load and dec-futex->scan->wait windows; every "
            "event replayed on Driver/DeferConc.lean + both proven models; non-trivial = contains invocations, a grace "
            "period, a 3-slot entry and a pass of the defer thread; distinct = different (flavor, driver summary)")
    chk.cov["rule"] = (chk.cov.get("rule", "") + " || " + rule) if chk.cov.get("rule") else rule
    missing = [t for t in WANT if not hist.get(t)]
    if missing and not fails:
        chk.notes.append("concurrent part: coverage tags not hit in this run: " + ", ".join(missing))
    chk.cov.setdefault("fingerprint", {})["src/urcu-defer-impl.h"] = vlib.fingerprint("src/urcu-defer-impl.h")
    if not fails:
        return
    # 1. a concrete failing schedule found by the implementation oracle
    own = [f for f in fails if f["verdict"] == "oracle" and any(k in OWN for k in f["kinds"])]
    first_div = next((f.get("driver") for f in fails if f["verdict"] == "diverge"), None)
    if own:
        f = own[0]
        chk.fail("schedule", dict(f, scenario="defer_conc", what="implementation oracle: " + "; ".join(f["oracle"][:2]),
                                  failing_runs=len(fails), first_divergence=first_div))
        return
    crash = [f for f in fails if f["verdict"] == "crash"]
    if crash:
        f = crash[0]
        chk.fail("schedule", dict(f, scenario="defer_conc", what="harness crashed (assertion of the library / wild access): " +
                                  "; ".join(f.get("stderr", [])[-2:]), failing_runs=len(fails), first_divergence=first_div))
        return
    # 2. correspondence broken, oracles silent so far: extended search with the oracles
    found = None
    extra_jobs = [(j[0], j[1] + 7000, j[2], j[3]) for j in plan(chk.seed, "quick")]
    extra_jobs += [(fl, 1, ["--oneshot-sweep", "--strategy", "sweep", "--preempt-at", n, "--preempt-tid", 1, "--preempt-len", ln], "sweep")
                   for fl, _ in FLAVORS for n in range(1, 60) for ln in (1, 2, 3, 5, 8, 13, 21)]
    for j, r in run_jobs(extra_jobs):
        if r["verdict"] in ("oracle", "crash") and (r["verdict"] == "crash" or any(k in OWN for k in r["kinds"])):
            found = r
            break
    if found:
        chk.fail("schedule", dict(found, scenario="defer_conc", first_divergence=first_div, failing_runs=len(fails),
                                  what="implementation oracle: " + "; ".join(found.get("oracle", found.get("stderr", []))[:2])))
        return
    # 3. a missing fence: Lean-checked TSO witness
    for f in fails:
        w = tso_witness(chk, f)
        if w:
            chk.fail("tso-witness", dict(w, failing_runs=len(fails)))
            return
    f = fails[0]
    chk.fail("divergence", dict(f, scenario="defer_conc", correspondence="Driver/DeferConc.lean vs src/urcu-defer-impl.h",
                                failing_runs=len(fails),
                                what="the implementation is no longer a run of the proven models (or fails an oracle owned by "
                                     "another property: %s)" % ",".join(sorted(set(sum([x.get("kinds", []) for x in fails], []))))),
             nofail=True)


def run(chk):
    run_part(chk)
    chk.cov["branch_histogram"] = chk.cov.get("conc_branch_histogram", {})


def replay(rp):
    ok, log = build()
    if not ok:
        print(log)
        return 2
    if "cmd" in rp and "defer_conc" in os.path.basename(rp["cmd"][0]):
        args = [os.path.join(vlib.BUILD, os.path.basename(rp["cmd"][0]))] + [str(x) for x in rp["cmd"][1:]]
        rc, out, err = vlib.sh2(args, timeout=180, env={"VRT_MEMBARRIER": "1"})
        drc, dout = vlib.sh([DRV], inp=out.encode(), timeout=300)
        print(err.strip())
        print(dout.strip()[:3000])
        if rp.get("theorem"):
            print("TSO witness: theorem %s (lean/UrcuVerif/Neg/C13.lean); model run: %s" % (rp["theorem"], "; ".join(rp.get("model_run", []))))
        return 1 if (rc != 0 or drc != 0) else 0
    print(json.dumps(rp, indent=1))
    return 1
