"""C18 — RCU lists: readers concurrent with an updater always see a consistent list.  DESIGN.md §4 C18.

Proof part: lean/UrcuVerif/RcuList/{Model,SeqInv,Inv,Measure}.lean, Props/C18.lean, Neg/C18.lean.
Tie: harness/scen/rculist.c (the real urcu/rculist.h, rcuhlist.h, list.h, hlist.h, static/pointer.h) compiled with
-fsanitize=thread and linked against harness/rt/vrt_tsan.c (own access callbacks, no libtsan), so that every plain
next/prev/payload access and every uatomic store/load is an event and a scheduling point; every trace is replayed on
Driver/RcuList.lean (drv_rculist)."""
import json
import os
import re
import vlib

THEOREMS = ["UrcuVerif.RcuList.memory_is_sequential_state", "UrcuVerif.RcuList.flush_writes_buffered_value",
            "UrcuVerif.RcuList.drained_view_is_memory",
            "UrcuVerif.RcuList.forward_chain_inv", "UrcuVerif.RcuList.chain_reaches_head",
            "UrcuVerif.RcuList.chain_in_list_order", "UrcuVerif.RcuList.removed_next_intact",
            "UrcuVerif.RcuList.traversal_measure", "UrcuVerif.RcuList.traversal_terminates",
            "UrcuVerif.RcuList.visits_in_order", "UrcuVerif.RcuList.resident_visited_exactly_once",
            "UrcuVerif.RcuList.visited_was_member", "UrcuVerif.RcuList.visited_initialised",
            "UrcuVerif.RcuList.never_touches_freed", "UrcuVerif.RcuList.inv_step_wf", "UrcuVerif.RcuList.sinv_ustep",
            "UrcuVerif.RcuList.inv_reach", "UrcuVerif.RcuList.run_reach"]
NEG_THEOREMS = ["UrcuVerif.RcuList.Neg.pubEarly_misses_resident_node", "UrcuVerif.RcuList.Neg.pubEarly_n1_was_resident",
                "UrcuVerif.RcuList.Neg.delPoison_strands_reader", "UrcuVerif.RcuList.Neg.delPoison_measure_stuck"]
TRUSTED = ["Lean 4.33 kernel; axioms ⊆ {propext, Classical.choice, Quot.sound}",
           "x86-TSO abstract machine: the updater's plain stores and its uatomic (release / relaxed) stores all go through one FIFO "
           "store buffer with store forwarding to the updater itself and are committed to memory at arbitrary later times; readers "
           "load from memory; weaker machines (ARM/POWER: the release store and the consume load matter there) are out of scope",
           "API contract as model guards: ONE updater at a time; added nodes are fresh (never in a list before, ids not reused); "
           "del/replace only on nodes that are in the list; hlist has add_head/del only",
           "grace period abstracted by GpSpec (C01): synchronize_rcu() starts with a full fence (empty store buffer) and returns only "
           "after every read-side section that began before it has ended; a node is freed only after such a grace period that "
           "started after its unlinking store reached memory",
           "compiler: plain stores before rcu_assign_pointer() are not moved after it (release semantics of uatomic_store(.., CMM_RELEASE)); "
           "presence, order and kind (plain vs uatomic, memory order) of every access are checked as events, the optimiser is not modelled",
           "tie: harness/rt/vrt.c scheduler, harness/rt/vrt_tsan.c access callbacks, gcc's -fsanitize=thread pass reporting every plain access "
           "of the scenario TU, Driver/RcuList.lean event-level transliteration (checked on the explored schedules, not proved); harness "
           "runs are sequentially consistent: store-buffer delays are quantified in the theorems only",
           "rcu_dereference / rcu_assign_pointer are taken from urcu/static/pointer.h (_LGPL_SOURCE); the out-of-line wrappers of "
           "src/urcu-pointer.c are not exercised"]
OWN = {"garbage", "freed", "nonterm", "order", "missed", "twice", "phantom", "uninit", "BUDGET", "DEADLOCK"}
DRV = os.path.join(vlib.LEAN, ".lake", "build", "bin", "drv_rculist")
EXE = os.path.join(vlib.BUILD, "rculist")


def build():
    """scenario TU with -fsanitize=thread; runtime + callbacks without; link WITHOUT -fsanitize=thread (no libtsan)."""
    vlib.ensure_dirs()
    rt = os.path.join(vlib.HARN, "rt")
    base = ["gcc", "-O1", "-g", "-pthread", "-w"] + vlib.CFLAGS_REPO
    objs = []
    for src, san in ((os.path.join(vlib.HARN, "scen", "rculist.c"), True), (os.path.join(rt, "vrt.c"), False),
                     (os.path.join(rt, "vrt_tsan.c"), False)):
        o = os.path.join(vlib.BUILD, "c18_" + os.path.basename(src)[:-2] + ".o")
        rc, log = vlib.sh(base + (["-fsanitize=thread"] if san else []) + ["-c", src, "-o", o], timeout=300)
        if rc != 0:
            return False, log
        objs.append(o)
    rc, log = vlib.sh(["gcc", "-pthread", "-o", EXE] + objs, timeout=300)
    return rc == 0, log


def one(args, drive=True):
    """returns dict(verdict=ok|diverge|oracle|crash, ...)"""
    cmd = [EXE] + [str(a) for a in args]
    rc, out, err = vlib.sh2(cmd, timeout=120)
    res = {"cmd": cmd, "rc": rc}
    kinds = re.findall(r"ORACLE (\w+)", err)
    if rc not in (0, 3, 4, 5):
        res.update(verdict="crash", stderr=err[-600:], tail=out.strip().splitlines()[-6:])
        return res
    res["events"] = len(out.splitlines())
    m = re.search(r"# STATS (.*)", out)
    res["stats"] = dict((k, int(v)) for k, v in (x.split("=") for x in m.group(1).split())) if m else {}
    if kinds:
        res.update(verdict="oracle", kinds=kinds, oracle=err.strip().splitlines()[:4])
        return res
    if not drive:
        res.update(verdict="ok")
        return res
    drc, dout = vlib.sh([DRV], inp=out.encode(), timeout=300)
    res["driver"] = dout.strip().splitlines()[:2]
    if drc != 0:
        res.update(verdict="diverge")
    else:
        res.update(verdict="ok")
        res["cov"] = dict((k, int(v)) for k, v in (x.split("=") for x in dout.split()[2:] if "=" in x))
    return res


def plan(rng, k, seed):
    """random-walk / PCT scenario k"""
    a = ["--seed", seed, "--readers", 1 + k % 3, "--uops", rng.choice([8, 12, 16, 24]), "--travs", rng.choice([3, 5, 8]),
         "--prefill", rng.choice([0, 2, 4])]
    if k % 2:
        a.append("--hlist")
    if k % 5 == 4:
        a += ["--abort", "40"]
    if k % 7 == 3:
        a += ["--strategy", "pct", "--pctd", 1 + k % 4, "--pctlen", "400"]
    else:
        a += ["--pswitch", rng.choice([5, 15, 30, 50, 70])]
    return a


def sweep_plans(seed, wide):
    """systematic one-preemption sweep: the reader walks K nodes and parks on the K-th; it is resumed exactly at global
    step N, i.e. between any two stores of the updater's following primitives"""
    res = []
    for hl in (False, True):
        for park in ((0, 1, 2, 3) if wide else (1, 2)):
            lo = 4 * 7 + 10
            hi = lo + (150 if wide else 70)
            for n in range(lo, hi, 1 if wide else 2):
                a = ["--seed", seed, "--readers", 1, "--uops", 14 if wide else 10, "--travs", 2, "--prefill", 4, "--park", park,
                     "--strategy", "sweep", "--preempt-at", n, "--preempt-tid", 2, "--preempt-len", 3]
                if hl:
                    a.append("--hlist")
                res.append(a)
    return res


def suite(chk, nrand, wide):
    hist, stats, fails, nontriv = {}, {}, [], set()
    events = 0
    runs = {"random+pct": 0, "sweep": 0}
    plans = [("random+pct", plan(chk.rng, k, chk.seed * 1000 + k)) for k in range(nrand)]
    plans += [("sweep", a) for a in sweep_plans(chk.seed, wide)]
    for i, (kind, a) in enumerate(plans):
        r = one(a)
        chk.cov["evaluations"] += 1
        runs[kind] += 1
        if r["verdict"] == "ok":
            events += r["events"]
            for kk, vv in r["cov"].items():
                hist[kk] = hist.get(kk, 0) + vv
            for kk, vv in r["stats"].items():
                stats[kk] = stats.get(kk, 0) + vv
            if r["cov"].get("deref_from_removed_node", 0) or r["cov"].get("read_removed_node", 0):
                nontriv.add(r["driver"][0])
            if i < 2 or (kind == "sweep" and runs["sweep"] == 1):
                chk.sample({"cmd": " ".join(str(x) for x in r["cmd"][1:]), "driver": r["driver"][0][:400]})
        else:
            fails.append(r)
            if len(fails) >= 3:
                break
    chk.cov["traces_validated_against_impl"] = chk.cov["evaluations"] - len(fails)
    chk.cov["events_compared"] = events
    chk.cov["distinct_nontrivial"] = len(nontriv)
    chk.cov["runs_per_strategy"] = runs
    chk.cov["branch_histogram"] = hist
    chk.cov["harness_stats"] = stats
    chk.cov["rule"] = ("schedules of harness/scen/rculist.c (real rculist.h / rcuhlist.h; one updater applying random add/add_tail/del/replace "
                       "resp. hlist add_head/del with harness-level grace periods and poisoning frees; 1-3 readers traversing with "
                       "cds_list_for_each_entry_rcu / cds_list_for_each_rcu / cds_hlist_for_each_entry_rcu(_2) / cds_hlist_for_each_rcu, some "
                       "traversals abandoned) drawn from VERIF_SEED with random-walk (several switch rates) and PCT strategies, plus the "
                       "systematic one-preemption sweep (reader parked on the K-th node and resumed at every step of the updater's "
                       "following primitives); every plain store/load and uatomic access is an event, replayed on Driver/RcuList.lean; "
                       "non-trivial = a reader dereferenced or read a node after its removal had reached memory; distinct = different "
                       "driver coverage summary")
    return fails


def search(chk, n):
    """extended schedule search with the implementation oracle only"""
    for k in range(n):
        a = plan(chk.rng, k, chk.seed * 1000 + 500000 + k)
        r = one(a, drive=False)
        if r["verdict"] in ("oracle", "crash"):
            return r
    for a in sweep_plans(chk.seed + 17, True):
        r = one(a, drive=False)
        if r["verdict"] in ("oracle", "crash"):
            return r
    return None


def report(chk, fails):
    if not fails:
        return
    own = [f for f in fails if f["verdict"] == "oracle" and any(k in OWN for k in f["kinds"])]
    crash = [f for f in fails if f["verdict"] == "crash"]
    if own:
        f = own[0]
        chk.fail("schedule", dict(f, scenario="rculist", what="implementation oracle: " + "; ".join(f["oracle"])))
        return
    if crash:
        f = crash[0]
        chk.fail("schedule", dict(f, scenario="rculist", what="the harness crashed while a reader traversed the list (rc=%s): "
                                  "a traversal followed an invalid pointer" % f["rc"]))
        return
    found = search(chk, 400 if chk.tier == "quick" else 4000)
    if found:
        chk.fail("schedule", dict(found, scenario="rculist", first_divergence=fails[0].get("driver"),
                                  what=("implementation oracle: " + "; ".join(found.get("oracle", []))) if found["verdict"] == "oracle"
                                  else "harness crashed (rc=%s) while traversing" % found["rc"]))
        return
    f = fails[0]
    dmsg = " ".join(f.get("driver") or [])
    extra = {}
    if "[rcu_dereference]" in dmsg or "weaker than consume" in dmsg:
        extra["note"] = ("a traversal no longer loads the forward pointer with rcu_dereference(): on the sequentially consistent harness and on x86 "
                         "hardware the loaded values are the same, so no failing schedule exists at machine level; what is lost is the "
                         "volatile/consume access that forbids the compiler to re-load or speculate the pointer (urcu/static/pointer.h)")
    elif "expected ST" in dmsg or "weaker than" in dmsg:
        # a publishing store / rcu_dereference was weakened to a plain or weaker access: on the SC harness (and on x86 hardware) the
        # machine behaviour is unchanged; what is lost is the compiler-level ordering guarantee.  The Lean-checked run of the
        # algorithm with the publication moved before the initialisation is the failing history this change permits.
        ok, log = vlib.lake_build(["UrcuVerif.Neg.C18"])
        if ok:
            chk.fail("tso-witness", dict(f, scenario="rculist", theorem="UrcuVerif.RcuList.Neg.pubEarly_misses_resident_node",
                                         model_run=["add n1 (flushed)", "add n2: payload store", "head->next = n2 reaches memory BEFORE n2->next is written",
                                                    "reader: head -> n2 -> n2.next (uninitialised) -> end of traversal", "n1, in the list all the time, is never visited"],
                                         what="the code no longer uses the ordered access the proof relies on (%s): without it the compiler may emit the publishing store "
                                              "before the initialising stores; Lean-checked run of that store order violates resident_visited_exactly_once" % dmsg[:200]))
            return
    chk.fail("divergence", dict(f, scenario="rculist", correspondence="Driver/RcuList.lean vs urcu/rculist.h, rcuhlist.h, static/pointer.h",
                                what="the implementation is no longer a run of the proven model", **extra), nofail=True)


def run(chk):
    chk.assumptions = TRUSTED
    chk.cov["trusted_base"] = TRUSTED
    chk.proof_part(["UrcuVerif.Props.C18", "UrcuVerif.Neg.C18", "drv_rculist"], ["UrcuVerif.Props.C18", "UrcuVerif.Neg.C18"],
                   THEOREMS + NEG_THEOREMS, ["UrcuVerif.RcuList", "UrcuVerif.Props.C18", "UrcuVerif.Neg.C18", "UrcuVerif.Machine"],
                   thorough_checker=True)
    ok, log = build()
    if not ok:
        chk.fail("build", {"theorem": "harness/scen/rculist.c does not compile against /repo", "lean_error": log[-2000:]}, nofail=True)
        return
    fails = suite(chk, 120 if chk.tier == "quick" else 2500, chk.tier != "quick")
    if not fails:
        need = ["store_a0", "store_a1", "store_a2", "store_a3", "skip_a3", "store_a4", "store_t0", "store_t1", "store_t2", "store_t3",
                "store_t4", "store_r0", "store_r1", "store_r2", "store_r3", "store_r4", "store_d1", "skip_d1", "store_d2", "gp_start",
                "gp_end", "free", "deref_from_removed_node", "read_removed_node", "trav_aborted", "trav_entry", "trav_pos",
                "trav_hentry", "trav_hentry2", "trav_hpos"]
        missing = [k for k in need if not chk.cov["branch_histogram"].get(k)]
        chk.cov["model_pcs_not_covered"] = missing
        if missing:
            chk.notes.append("coverage gap (generator, not a property failure): " + ",".join(missing))
    report(chk, fails)


def replay(rp):
    ok, log = build()
    if not ok:
        print(log)
        return 2
    if "cmd" not in rp:
        print(json.dumps(rp, indent=1))
        return 1
    args = [EXE] + [str(x) for x in rp["cmd"][1:]]
    rc, out, err = vlib.sh2(args, timeout=120)
    drc, dout = vlib.sh([DRV], inp=out.encode(), timeout=300)
    print(err.strip())
    print(dout.strip()[:2000])
    return 1 if (rc != 0 or drc != 0) else 0
