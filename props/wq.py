"""WQ — the hash table's internal work queue (src/workqueue.c): component check shared by C09 (resize / destroy work is
queued in order, destroy behind queued resizes) and C16 (work queue paused, resumed in the parent, worker re-created in the
child).  `part(chk)` adds the proofs, the tie and the oracles of this component to a running check; `run(chk)` /
`replay(rp)` make `python3 check.py WQ --tier quick` work on its own.

Model + theorems: lean/UrcuVerif/Wq/*.lean, Props/Workqueue.lean, Props/LiveWq.lean.  Tie: harness/scen/wq.c (the REAL
src/workqueue.c + wfcqueue + compat_futex under the shim and the cooperative runtime) replayed event by event on
lean/Driver/Wq.lean, which maps every run to labels of the proven model."""
import hashlib
import os
import re
import vlib

PROP_MODULE = "UrcuVerif.Props.Workqueue"
LIVE_MODULE = "UrcuVerif.Props.LiveWq"
NS = "UrcuVerif.Wq."
THEOREMS = [NS + t for t in (
    "work_exactly_once", "unqueued_nowhere", "work_fifo", "work_fifo_pair", "flush_waits_for_all_prior",
    "completion_behind_prior", "completion_lifetime", "waiter_no_lost_wakeup", "completion_futex_range",
    "worker_no_lost_wakeup", "worker_no_missed_request", "waker_not_stuck", "waker_measure", "wake_wakes",
    "worker_no_stuck", "worker_futex_range", "pause_quiescent", "pause_stays", "resume_restarts", "resume_returns",
    "paused_flag_exact", "child_nothing_in_hand", "create_worker_state", "stop_after_drain", "destroy_requires_empty",
    "destroy_assert", "dead_never_runs", "spin_stable", "spin_awake",
    "child_worker_never_sleeps_if_futex_inherited_negative", "spin_reachable_after_fork", "no_spin_if_futex_reset",
    "parent_never_spins", "inv_step", "inv_reach")]
LIVE_THEOREMS = [NS + t for t in (
    "worker_eventually_wakes", "batch_eventually_done", "queued_eventually_spliced", "batched_work_eventually_runs",
    "queued_work_eventually_runs", "enqueued_work_eventually_finishes", "flush_eventually_returns")]
FAIR = ["UrcuVerif.Fair.fair_measure_leadsto", "UrcuVerif.Fair.fair_measure_leadsto_family", "UrcuVerif.Fair.fair_measure_leadsTo",
        "UrcuVerif.Fair.measure_leadsto_core"]
AUDIT_MODS = ["UrcuVerif.Wq", "UrcuVerif.Props.Workqueue", "UrcuVerif.Props.LiveWq"]
UNPROVED = ["(none) safety: every statement of Props/Workqueue.lean is proved for all reachable states of the model; "
            "liveness: queued_work_eventually_runs / flush_eventually_returns are proved with their provisos as explicit hypotheses "
            "on the run (weak fairness of the worker's own steps and of every thread's wake path / of the waiter, user works "
            "terminate, no STOP, no PAUSE pending, the worker thread exists)"]
TRUSTED = [
    "Lean 4.33 kernel; axioms ⊆ {propext, Classical.choice, Quot.sound}",
    "wfcqueue enqueue is atomic at the xchg of the tail and splice / iteration return the nodes in enqueue order (C10); the delayed "
    "old_tail->next store and the dequeuer's busy-wait are checked at event level only",
    "x86-TSO: every store the safety theorems depend on is a locked instruction (xchg, lock or/and/inc/dec/sub/cmpxchg); the two plain "
    "stores futex := 0 (waker → workqueue->futex, work item → completion->futex) sit in explicit store buffers until flushed, FUTEX_WAKE "
    "needs the buffer drained; futex contract (FUTEX_WAIT checks the value and sleeps atomically; spurious / EINTR returns unconstrained)",
    "caller obligations of the API are guards of the model: flush / wait_completion / pause / destroy are not called from the worker's "
    "own thread; one pause-resume (or fork) at a time, not concurrently with destroy; nothing is started once destroy has been called; "
    "a completion is created, queued once (the flush shape, the only one the library uses), waited for once and destroyed by one thread",
    "fork = the state becomes the child's (same memory, only the forking thread, no worker thread, empty store buffers); "
    "int32 wrap-around of the futex is not modelled (Int)",
    "user work functions terminate (hypothesis of the liveness theorems); memory allocation and thread creation succeed",
    "tie: Driver/Wq.lean event-level transliteration of workqueue.c (L1) replaying labels of Wq/Model.lean (L2) on the explored "
    "schedules only; L1 ⊑ L2 is not a theorem; harness runs are sequentially consistent (the buffered store is committed at once)",
    "the child after fork is emulated in-process (the paused worker thread is frozen for ever, the forking thread goes on alone); "
    "the real fork() path of the hash table's handlers is exercised by the C16 scenario"]
DRV = os.path.join(vlib.LEAN, ".lake", "build", "bin", "drv_wq")
OWN = {"once", "order", "flush", "pause", "resume", "drain", "uaf", "assert", "DEADLOCK", "BUDGET"}
REQUIRED = ["create", "queue_work", "queue_work_from_worker", "work_run", "splice_batch", "splice_empty", "worker_wait_path",
            "worker_queue_nonempty", "worker_futex_SLEEP", "worker_futex_EAGAIN", "worker_futex_SPURIOUS", "worker_futex_EINTR",
            "worker_futex_ENOSYS", "wake_sleeping_worker", "wake_nobody", "wake_futex_not_-1", "wake_rt_worker", "worker_poll_rt",
            "worker_rt_nonempty", "completion_queued", "wait_completion_returned", "split_wait_completion", "flush",
            "waiter_futex_SLEEP", "waiter_futex_EAGAIN", "waiter_futex_SPURIOUS", "waiter_futex_EINTR", "waiter_futex_ENOSYS",
            "completion_wake_sleeper", "completion_wake_nobody", "completion_no_sleeper", "completion_freed_by_caller",
            "completion_freed_by_work_item", "pause_worker", "pause_poll", "worker_paused_poll", "worker_paused_and_resumed",
            "resume_worker", "resume_poll", "fork", "create_worker", "worker_stop_seen", "worker_exit", "destroy_empty",
            "destroy_leftover", "futex_wake_ENOSYS", "wfcq_busy_relax"]


def binname():
    """scenario binary for the tree under test: keyed by the tree (VERIF_REPO), so that a concurrent check of another tree
    does not overwrite the binary this one is running"""
    return "wq_%s" % hashlib.sha1(os.path.realpath(vlib.REPO).encode()).hexdigest()[:8]


def build():
    rt = os.path.join(vlib.HARN, "rt")
    srcs = [os.path.join(vlib.HARN, "scen", "wq.c"), os.path.join(rt, "vrt.c"), os.path.join(rt, "vrt_compat_futex.c")] + vlib.rsrc("compat_arch.c")
    tmp = "%s.tmp%d" % (binname(), os.getpid())
    ok, log = vlib.cc(tmp, srcs, ["-w"])
    if not ok:
        return False, log
    os.replace(os.path.join(vlib.BUILD, tmp), os.path.join(vlib.BUILD, binname()))
    return True, ""


def one(seed, extra=()):
    """returns dict(verdict=ok|diverge|oracle|crash, ...)"""
    args = [os.path.join(vlib.BUILD, binname()), "--seed", str(seed)] + [str(x) for x in extra]
    rc, out, err = vlib.sh2(args, timeout=120)
    res = {"cmd": args, "rc": rc}
    kinds = re.findall(r"ORACLE (\w+)", err)
    if rc not in (0, 3, 4, 5):
        res.update(verdict="crash", stderr=err[-600:], kinds=["crash"])
        return res
    drc, dout = vlib.sh([DRV], inp=out.encode(), timeout=300)
    res["driver"] = dout.strip().splitlines()[:2]
    res["events"] = len(out.splitlines())
    m = re.search(r"# SUMMARY works=(\d+) flushes=(\d+) pauses=(\d+) completions=(\d+) destroy_assert_failed=(\d+)", out)
    if m:
        res["summary"] = [int(x) for x in m.groups()]
    m = re.search(r"# OBS child_worker futex_before=(-?\d+) futex_after=(-?\d+) (\w+)", out)
    if m:
        res["obs"] = {"futex_before": int(m.group(1)), "futex_after": int(m.group(2)), "verdict": m.group(3)}
    if kinds:
        res.update(verdict="oracle", kinds=kinds, oracle=err.strip().splitlines()[:4])
    elif drc != 0 or not dout.startswith("OK"):
        res.update(verdict="diverge", kinds=[])
    else:
        res.update(verdict="ok")
        res["cov"] = dict((k, int(v)) for k, v in (x.split("=") for x in dout.split()[2:] if "=" in x))
    return res


def plan(rng, k):
    """scenario parameters for run k: 1-3 queuing threads, re-queueing works, pausers, RT / futex worker, child after fork
    (with and without works queued across the fork), destroy without flush, futex fault plans, scheduling strategy"""
    extra = ["--queuers", 1 + k % 3, "--ops", rng.choice([12, 20, 30]), "--requeue", rng.choice([0, 25, 50])]
    if k % 4 == 1:
        extra += ["--rt"]
    if k % 3 != 2:
        extra += ["--pausers", 1]
    if k % 5 == 3:
        extra += ["--child", 1 + (k // 5) % 2]
    if k % 7 == 4:
        extra += ["--noflush"]
    if k % 2 == 0 or k % 9 == 3:
        extra += ["--faults", "spur=%d,eintr=%d,enosys=%d" % (rng.choice([0, 100, 300]), rng.choice([0, 100, 300]), rng.choice([0, 0, 100, 1000]))]
    if k % 6 == 5:
        extra += ["--strategy", "pct", "--pctd", 1 + k % 4, "--pctlen", 600]
    else:
        extra += ["--pswitch", rng.choice([3, 8, 15, 30, 60])]
    return extra


def nontrivial(cov):
    return (cov.get("work_run", 0) > 0 and cov.get("wait_completion_returned", 0) > 0 and
            (cov.get("wake_sleeping_worker", 0) > 0 or cov.get("worker_poll_rt", 0) > 0 or cov.get("worker_rt_nonempty", 0) > 0) and
            (cov.get("queue_work_from_worker", 0) > 0 or cov.get("pause_worker", 0) > 0 or cov.get("fork", 0) > 0))


def suite(chk, w, nseeds, base=0):
    """random-walk / PCT schedules; returns failing results"""
    hist, fails, nontriv, events = {}, [], set(), 0
    tot = [0, 0, 0, 0, 0]
    obs = []
    for k in range(nseeds):
        sd = chk.seed * 1000 + base + k
        r = one(sd, plan(chk.rng, k))
        w["evaluations"] += 1
        if r["verdict"] == "ok":
            events += r["events"]
            for kk, vv in r["cov"].items():
                hist[kk] = hist.get(kk, 0) + vv
            for i, v in enumerate(r.get("summary", [0] * 5)):
                tot[i] += v
            if nontrivial(r["cov"]):
                nontriv.add(r["driver"][0])
            if "obs" in r:
                obs.append(dict(r["obs"], cmd=" ".join(r["cmd"][1:])))
            if k < 2:
                w["samples"].append({"cmd": " ".join(r["cmd"][1:]), "driver": r["driver"][0][:400]})
        else:
            fails.append(r)
            if len(fails) >= 4:
                break
    w["traces_validated_against_impl"] = w["evaluations"] - len(fails)
    w["events_compared"] = events
    w["distinct_nontrivial"] = len(nontriv)
    w["branch_histogram"] = hist
    w["totals"] = {"works": tot[0], "flushes": tot[1], "pauses": tot[2], "completions": tot[3], "destroy_assert_failed(noflush)": tot[4]}
    w["uncovered_branches"] = [b for b in REQUIRED if not hist.get(b)]
    w["observation_child_worker"] = obs[:6]
    return fails


# (oneshot mode, forced tid, lengths, range of preemption points, extra options)
SWEEPS = [(1, 2, (3, 8, 14, 22), None, ()), (2, 1, (3, 8, 14, 22), 60, ()), (3, 1, (3, 8, 14), 130, ()), (4, 2, (3, 14, 22), None, ()),
          (5, 1, (3, 9, 17), 110, ("--hold-at", 1000000, "--hold-tid", 63))]


def sweep(w, modes=SWEEPS, wide=False, first_only=True, count=True):
    """systematic one-preemption sweep of the oneshot scenarios (non-preemptive base schedule + ONE forced preemption of
    thread `tid` at global step N for M steps): modes 1/4 – N up to the worker's first FUTEX_WAIT (the parked queuer is
    resumed inside the worker's dec-futex / empty-check / FUTEX_WAIT window); mode 2 – N over the queuer's enqueue → qlen →
    flags → futex → wake window (the worker is run inside it); mode 3 – the same followed by flush: the worker is run inside
    the waiter's dec / count-test / FUTEX_WAIT window; mode 5 – the worker is run inside pause_worker / resume_worker.
    Returns failing results."""
    fails, runs = [], 0
    for mode, tid, lens, rng_, xo in modes:
        base = ["--oneshot", mode, "--strategy", "sweep"] + list(xo)
        r0 = one(1, base)
        runs += 1
        if r0["verdict"] != "ok":
            fails.append(r0)
            if first_only:
                break
            continue
        rc, out, err = vlib.sh2([os.path.join(vlib.BUILD, binname()), "--seed", "1"] + [str(x) for x in base], timeout=60)
        marks = sorted(set(int(x) for x in re.findall(r"^#@ (\d+)$", out, re.M)))
        early = [m for m in marks if m < 500000]
        if rng_ is None:
            pts = set(range(1, (early[0] if early else 30) + 6))
        else:
            pts = set(range(1, rng_))
        if wide:
            last = max(early) if early else 300
            pts.update(range(1, min(last + 10, 300)))
        stop = False
        for n in sorted(pts):
            for ln in tuple(lens) + ((40, 110) if wide else ()):
                r = one(1, base + ["--preempt-at", n, "--preempt-tid", tid, "--preempt-len", ln])
                runs += 1
                if r["verdict"] != "ok":
                    fails.append(r)
                    if r["verdict"] in ("oracle", "crash") or (first_only and len(fails) >= 3):
                        stop = True
                        break
            if stop:
                break
        if stop and first_only:
            break
    if count:
        w["sweep_runs"] = w.get("sweep_runs", 0) + runs
        w["evaluations"] += runs
    return fails


def directed(w, count=True):
    """directed configurations that must always be part of a run: both worker kinds, child with and without works queued
    across the fork (the second one inherits futex = -1: the observation), destroy without flush, futex unavailable"""
    fails, runs, obs = [], 0, []
    for extra in (["--queuers", 2, "--ops", 15, "--pausers", 1, "--pswitch", 15],
                  ["--queuers", 2, "--ops", 15, "--rt", "--pausers", 1, "--pswitch", 15],
                  ["--queuers", 1, "--ops", 8, "--child", 1, "--pswitch", 10],
                  ["--queuers", 1, "--ops", 8, "--child", 2, "--pswitch", 10],
                  ["--queuers", 2, "--ops", 10, "--child", 2, "--rt", "--pswitch", 30],
                  ["--queuers", 2, "--ops", 12, "--noflush", "--pswitch", 30],
                  ["--queuers", 2, "--ops", 12, "--faults", "spur=150,eintr=150,enosys=1000", "--pausers", 1],
                  ["--queuers", 3, "--ops", 15, "--faults", "spur=300,eintr=300,enosys=100", "--requeue", 60]):
        r = one(7, extra)
        runs += 1
        if r["verdict"] != "ok":
            fails.append(r)
        elif "obs" in r:
            obs.append(dict(r["obs"], cmd=" ".join(str(x) for x in extra)))
    if count:
        w["directed_runs"] = runs
        w["evaluations"] += runs
        w["observation_child_worker_directed"] = obs
    return fails


def search(chk, w, n):
    """failing-input search: wide one-preemption sweep, then many more random / PCT schedules, with the implementation oracles"""
    for r in sweep(w, wide=True, first_only=False, count=False):
        if r["verdict"] in ("oracle", "crash"):
            return r
    for k in range(n):
        r = one(chk.seed * 1000 + 500000 + k, plan(chk.rng, k))
        if r["verdict"] in ("oracle", "crash"):
            return r
    return None


def proofs(chk):
    """proof part of this component, merged into the theorem / axiom lists the calling check already has"""
    th, ax, un = list(chk.cov.get("theorems", [])), dict(chk.cov.get("axioms", {})), list(chk.cov.get("unproved_full_statements", []))
    cmd = chk.cov.get("checker_cmd", "")
    live = os.path.exists(os.path.join(vlib.LEAN, "UrcuVerif", "Props", "LiveWq.lean"))
    targets = [PROP_MODULE, "drv_wq"] + ([LIVE_MODULE, "UrcuVerif.Machine.Fair"] if live else [])
    mods = [PROP_MODULE] + ([LIVE_MODULE, "UrcuVerif.Machine.Fair"] if live else [])
    ok = chk.proof_part(targets, mods, THEOREMS + (LIVE_THEOREMS + FAIR if live else []),
                        [m for m in AUDIT_MODS if live or m != LIVE_MODULE], unproved=UNPROVED)
    chk.cov["theorems"] = th + [t for t in chk.cov.get("theorems", []) if t not in th]
    ax.update(chk.cov.get("axioms", {}))
    chk.cov["axioms"] = ax
    chk.cov["unproved_full_statements"] = un + [u for u in chk.cov.get("unproved_full_statements", []) if u not in un]
    if live:
        chk.cov["liveness_theorems"] = list(chk.cov.get("liveness_theorems", [])) + LIVE_THEOREMS
    if cmd:
        chk.cov["checker_cmd"] = cmd + " ; " + chk.cov.get("checker_cmd", "")
    return ok


RULE = ("schedules of harness/scen/wq.c (real src/workqueue.c + wfcqueue + compat_futex under the shim): 1-3 queuing threads doing "
        "urcu_workqueue_queue_work (0-50 % of the works re-queue works from the worker thread, depth ≤ 2), flush_queued_work, the split "
        "completion API with other calls in between, 0-1 pausing thread doing pause_worker / resume_worker cycles while the others "
        "keep queueing, futex and RT (polling) workers, the child after fork emulated in-process (paused worker frozen; create_worker; "
        "with and without works queued across the fork), destroy after flush and destroy without flush (works left in the queue), futex "
        "fault plans (spurious, EINTR, ENOSYS→compat, futex unavailable); random-walk (pswitch 3-60) and PCT strategies drawn from "
        "VERIF_SEED; plus the systematic one-preemption sweep around the worker's dec-futex → empty-check → FUTEX_WAIT window, the "
        "queuer's enqueue → wake window, the flush waiter's dec → count → FUTEX_WAIT window and the pause / resume handshakes; every "
        "event replayed on Driver/Wq.lean; non-trivial = a work run, a completion waited for, the worker woken from FUTEX_WAIT (or an RT "
        "worker polling) and a work re-queued from the worker / a pause / a fork; distinct = different driver coverage summary")


def part(chk, quick_runs=70, thorough_runs=700):
    """proofs + build + runs + driver + oracles of the work-queue component, recorded under chk.cov['workqueue'];
    violations are reported through chk.fail (scenario='wq', replayable with props.wq.replay).  Returns True when clean."""
    w = {"evaluations": 0, "samples": [], "trusted_base": TRUSTED, "rule": RULE}
    chk.cov["workqueue"] = w
    for a in TRUSTED:
        if a not in chk.assumptions:
            chk.assumptions.append(a)
    if not proofs(chk):
        return False
    ok, log = build()
    if not ok:
        chk.fail("build", {"theorem": "harness/scen/wq.c does not compile against /repo", "lean_error": log[-2000:]}, nofail=True)
        return False
    n = quick_runs if chk.tier == "quick" else thorough_runs
    fails = directed(w)
    fails += suite(chk, w, n)
    if not fails:
        fails += sweep(w, wide=(chk.tier == "thorough"))
    chk.cov["evaluations"] += w["evaluations"]
    h = w.get("branch_histogram", {})
    w["futex_paths"] = {k: v for k, v in h.items() if "futex" in k or "wake" in k}
    w["failing_runs"] = len(fails)
    if not fails:
        return True
    bad = [f for f in fails if f["verdict"] in ("oracle", "crash")]
    if bad:
        f = bad[0]
        what = ("implementation oracle: " + "; ".join(f.get("oracle", []))) if f["verdict"] == "oracle" else \
            "the real code crashed / aborted under this schedule: " + f.get("stderr", "")[-300:]
        chk.fail("schedule", dict(f, scenario="wq", what=what))
        return False
    found = search(chk, w, 300 if chk.tier == "quick" else 3000)
    if found:
        what = ("implementation oracle: " + "; ".join(found.get("oracle", []))) if found["verdict"] == "oracle" else \
            "the real code crashed / aborted: " + found.get("stderr", "")[-300:]
        chk.fail("schedule", dict(found, scenario="wq", what=what, first_divergence=fails[0].get("driver")))
        return False
    chk.fail("divergence", dict(fails[0], scenario="wq", correspondence="Driver/Wq.lean vs src/workqueue.c (+ wfcqueue)",
                                what="the implementation is no longer a run of the proven work-queue model"), nofail=True)
    return False


def run(chk):
    chk.assumptions = list(TRUSTED)
    chk.cov["trusted_base"] = TRUSTED
    part(chk)
    w = chk.cov.get("workqueue", {})
    for k in ("samples", "distinct_nontrivial", "branch_histogram", "rule", "uncovered_branches", "totals", "events_compared",
              "traces_validated_against_impl", "sweep_runs", "directed_runs", "futex_paths"):
        if k in w:
            chk.cov[k] = w[k]
    obs = (w.get("observation_child_worker_directed") or []) + (w.get("observation_child_worker") or [])
    if any(o.get("verdict") == "SPINS" for o in obs):
        chk.notes.append("OBSERVATION (performance only, not a violation): urcu_workqueue_create_worker does not reset workqueue->futex; "
                         "a child that inherits futex = -1 has a worker that never sleeps (busy loop): " +
                         "; ".join("%s futex %d→%d" % (o["cmd"], o["futex_before"], o["futex_after"]) for o in obs if o.get("verdict") == "SPINS")[:400] +
                         " — theorem child_worker_never_sleeps_if_futex_inherited_negative")


def replay(rp):
    ok, log = build()
    if not ok:
        print(log)
        return 2
    if "cmd" not in rp:
        import json
        print(json.dumps(rp, indent=1))
        return 1
    args = [os.path.join(vlib.BUILD, binname())] + [str(x) for x in rp["cmd"][1:]]
    rc, out, err = vlib.sh2(args, timeout=120)
    drc, dout = vlib.sh([DRV], inp=out.encode(), timeout=300)
    print(err.strip())
    print(dout.strip()[:600])
    return 1 if (rc != 0 or drc != 0 or not dout.startswith("OK")) else 0
