"""C08 — hash table: sequential behaviour equals a reference multimap (src/rculfhash.c). DESIGN.md §4 C08."""
import hashlib
import os
from concurrent.futures import ThreadPoolExecutor

import vlib

NS = "UrcuVerif.Lfht.Seq."
THEOREMS = [NS + "C08_full_holds", NS + "seq_refines_multimap", NS + "seq_refines_multimap_step", NS + "seq_no_stuck",
            NS + "traversal_exactly_once", NS + "count_nodes_exact", NS + "destroy_iff_empty",
            NS + "resize_preserves_contents", NS + "lookup_finds_iff_present", NS + "new_normalises",
            NS + "bitrev_split_order", NS + "step_refines", NS + "newNorm_isSome_iff", NS + "newNorm_some",
            NS + "createBuckets_spec", NS + "resize_spec", NS + "normTarget_spec", NS + "dupChain_unfold",
            NS + "travChain_unfold",
            "UrcuVerif.Lfht.bitrev_table_correct", "UrcuVerif.Lfht.bitReverse64_eq", "UrcuVerif.Lfht.bitrev64_involutive",
            "UrcuVerif.Lfht.bitrev64_injective", "UrcuVerif.Lfht.bitrev_bucket_le", "UrcuVerif.Lfht.bitrev_parent_lt",
            "UrcuVerif.Lfht.bitrev_no_between", "UrcuVerif.Lfht.count_order_spec", "UrcuVerif.Lfht.fls_spec",
            "UrcuVerif.Lfht.isPow2C_iff"]
AUDIT = ["UrcuVerif.Lfht.Bits", "UrcuVerif.Lfht.Seq", "UrcuVerif.Props.C08"]
TRUSTED = [
    "Lean 4.33 kernel; axioms ⊆ {propext, Classical.choice, Quot.sound}",
    "model = Lfht/Seq/{Model,Ops}.lean: one thread, every cmpxchg succeeds, 'unlink and retry from the bucket' = 'unlink and continue'; "
    "split counters / check_resize / lazy resize decide only WHEN a resize happens (results are proved independent of the bucket count)",
    "resize modelled run-to-completion at the normalised target (loop/termination, allocator index arithmetic: C09); "
    "bsr-based fls modelled as Nat.log2+1 (differentially tested); 64-bit unsigned long; getpagesize()/sizeof(node) a power of two",
    "memory allocation succeeds; match callback = key equality; node re-use only after removal (harness drops iterators then)",
    "tie: harness/scen/lfht_seq.c (real rculfhash.c + mm-*.c + workqueue.c + urcu.c memb) and Driver/Lfht.lean replay the same "
    "operation lines; agreement is shown on the sequences run (numbers below), not beyond",
    "AUTO_RESIZE tables: a worker thread resizes concurrently; results must (and do) stay deterministic; the bucket count is "
    "compared only after explicit cds_lfht_resize on non-AUTO_RESIZE tables; AUTO_RESIZE configs use max_nr_buckets <= 4096 "
    "(colliding hashes make the chain-length heuristic grow the table up to max_nr_buckets)",
]
DRV = os.path.join(vlib.LEAN, ".lake", "build", "bin", "drv_lfht")


def srcs():
    return [os.path.join(vlib.HARN, "scen", "lfht_seq.c")] + vlib.LFHT_SRCS + \
        vlib.rsrc("urcu.c", "urcu-pointer.c", "wfcqueue.c", "wfstack.c")


def build(asan=False):
    flags = ["-DRCU_MEMBARRIER", "-w"]
    name = "lfht_seq"
    if asan:
        # alignment check off: src/workqueue.c mallocs a struct with a cache-line aligned member (not a C08 anchor; see report)
        flags += ["-fsanitize=address,undefined", "-fno-sanitize=alignment", "-fno-sanitize-recover=all",
                  "-fno-omit-frame-pointer"]
        name = "lfht_seq_asan"
    ok, log = vlib.cc(name, srcs(), flags)
    return ok, log, os.path.join(vlib.BUILD, name)


def run_one(exe, args, use_driver=True, timeout=300):
    """returns (verdict, detail, harness_out, driver_out); verdict in ok|diverge|oracle|crash"""
    cmd = [exe] + [str(a) for a in args]
    env = {"ASAN_OPTIONS": "detect_leaks=1:abort_on_error=0:exitcode=99", "UBSAN_OPTIONS": "print_stacktrace=1"}
    rc, out, err = vlib.sh2(cmd, timeout=timeout, env=env)
    if rc == 3:
        return "oracle", {"cmd": cmd, "oracle": err.strip().splitlines()[:5]}, out, ""
    if rc != 0:
        what = "hang (timeout)" if rc == 124 else "exit code %d" % rc
        last = [l for l in out.splitlines() if not l.startswith(("rev ", "fls ", "cou ", "co32 "))][-6:]
        return "crash", {"cmd": cmd, "rc": rc, "what": what, "stderr": err[-1500:], "last_ops": last}, out, ""
    if not use_driver:
        return "ok", {"cmd": cmd, "lines": len(out.splitlines())}, out, ""
    drc, dout = vlib.sh([DRV], inp=out.encode(), timeout=timeout)
    if drc != 0:
        return "diverge", {"cmd": cmd, "driver": dout.strip().splitlines()[:2]}, out, dout
    return "ok", {"cmd": cmd, "lines": len(out.splitlines())}, out, dout


def seq_stats(out, seen):
    """per-sequence statistics of a harness trace: (sequences, nontrivial new-to-`seen`)"""
    nseq = 0
    nontriv = 0
    cur = []

    def flush():
        nonlocal nseq, nontriv
        if not cur:
            return
        nseq += 1
        txt = "\n".join(cur)
        dups = any(l.startswith("look ") and int(l.split()[3]) >= 2 for l in cur) or \
            any(l.startswith("addu ") and l.split()[1] != l.split()[4] for l in cur)
        dels = any(l.startswith("del ") and l.endswith(" 0") for l in cur)
        trav = any(l.startswith("trav ") and int(l.split()[1]) >= 2 for l in cur)
        if dups and dels and trav:
            h = hashlib.sha1(txt.encode()).hexdigest()
            if h not in seen:
                seen.add(h)
                nontriv += 1

    for l in out.splitlines():
        if l.startswith("new "):
            flush()
            cur = [l]
        elif cur:
            cur.append(l)
    flush()
    return nseq, nontriv


def merge_hist(hist, dout):
    for x in dout.split()[2:]:
        if "=" in x:
            k, v = x.split("=", 1)
            try:
                hist[k] = hist.get(k, 0) + int(v)
            except ValueError:
                pass


def run(chk):
    chk.assumptions = TRUSTED
    chk.cov["trusted_base"] = TRUSTED
    proved = chk.proof_part(["UrcuVerif.Props.C08", "drv_lfht"], "UrcuVerif.Props.C08", THEOREMS, AUDIT)
    ok, log, exe = build()
    if not ok:
        chk.fail("build", {"theorem": "harness/scen/lfht_seq.c does not compile against /repo", "lean_error": log[-2000:]},
                 nofail=True)
        return
    use_driver = proved and os.path.exists(DRV)
    quick = chk.tier == "quick"
    # quick: 16 jobs x 8 configs x 30 sequences (= 128 configs x 30); thorough: 64 jobs x 20 configs x 30 + 16 big-table jobs + 24 ASan/UBSan jobs
    jobs = []
    base = chk.seed * 1000
    if quick:
        for j in range(16):
            jobs.append((exe, [base + j, 8, 30, 400]))
        jobs.append((exe, [base + 500, 0, 0, 0]))                      # helper functions only, 5000 inputs
    else:
        for j in range(64):
            jobs.append((exe, [base + j, 20, 30, 400]))
        for j in range(16):
            jobs.append((exe, [base + 100 + j, 12, 6, 300, "big"]))
        jobs.append((exe, [base + 500, 0, 0, 0]))
        okA, logA, exeA = build(asan=True)
        if not okA:
            chk.fail("build", {"theorem": "ASan/UBSan build of harness/scen/lfht_seq.c failed", "lean_error": logA[-2000:]},
                     nofail=True)
            return
        for j in range(24):
            jobs.append((exeA, [base + 200 + j, 10, 20, 300]))
        chk.notes.append("thorough: 24 of the jobs run under -fsanitize=address,undefined -fno-sanitize-recover=all (leak check on)")
    hist = {}
    seen = set()
    nseq = nontriv = lines = 0
    bad = []
    with ThreadPoolExecutor(max_workers=max(2, min(vlib.NCPU, 16))) as ex:
        results = list(ex.map(lambda j: run_one(j[0], j[1], use_driver), jobs))
    for (exe_j, args), (v, d, out, dout) in zip(jobs, results):
        chk.cov["evaluations"] += 1
        lines += len(out.splitlines())
        a, b = seq_stats(out, seen)
        nseq += a
        nontriv += b
        if v == "ok":
            if dout:
                merge_hist(hist, dout)
                chk.sample({"cmd": d["cmd"][1:], "driver": dout.strip()[:400]})
        else:
            bad.append((v, d))
    chk.cov["traces_validated_against_impl"] = nseq
    chk.cov["trace_lines_compared"] = lines
    chk.cov["distinct_nontrivial"] = nontriv
    chk.cov["rule"] = ("each job: lfht_seq <seed> <nconfigs> <nseq> <maxops>; (init,min,max,flags,mm,alloc) tuples from grids incl. "
                       "rejected ones, mm in {order,chunk,mmap,default}, default/recording allocator, flags 0-3; op sequences "
                       "(add/add_unique/add_replace/replace/del/lookup+next_duplicate chain/first-next traversal/count/is_deleted/"
                       "resize/destroy) over <=5 keys and adversarial hash sets (all equal, high-bit-only differences, 0, ~0, 2^k-1, "
                       "2^k, small ints = bucket indexes, random), 3/4 of the sequences with hash a function of the key, 1/4 independent; "
                       "non-trivial sequence = contains a duplicate chain (lookup with >=2 nodes or add_unique finding a duplicate), "
                       "a successful del and a traversal of >=2 nodes; distinct = different trace text")
    chk.cov["branch_histogram"] = hist
    if not bad:
        return
    # a failure: prefer a concrete failing input
    oracle = [d for v, d in bad if v == "oracle"]
    crash = [d for v, d in bad if v == "crash"]
    diverge = [d for v, d in bad if v == "diverge"]
    if oracle:
        d = oracle[0]
        extra = {}
        if "bit_reverse" in " ".join(d["oracle"]) or "fls" in " ".join(d["oracle"]) or "count_order" in " ".join(d["oracle"]):
            # also look for an operation-level consequence (e.g. a lookup that misses a stored node)
            for k in range(40):
                v2, d2, _, _ = run_one(exe, [base + 700 + k, 8, 20, 300, "nohelper"], use_driver=False)
                if v2 in ("oracle", "crash"):
                    extra = {"operation_level_failure": d2}
                    break
        chk.fail("input", dict(d, scenario="lfht_seq", what="implementation oracle: " + "; ".join(d["oracle"]), **extra))
    elif crash:
        d = crash[0]
        chk.fail("input", dict(d, scenario="lfht_seq", what="harness " + d["what"] + " (assertion / sanitizer / signal in the real code)"))
    else:
        found = None
        for k in range(60):
            v2, d2, _, _ = run_one(exe, [base + 800 + k, 20, 30, 400], use_driver=False)
            if v2 in ("oracle", "crash"):
                found = d2
                break
        if found:
            chk.fail("input", dict(found, scenario="lfht_seq", what="implementation oracle/crash after a divergence",
                                   first_divergence=diverge[0]))
        else:
            chk.fail("divergence", dict(diverge[0], scenario="lfht_seq",
                                        correspondence="Driver/Lfht.lean (Lfht/Seq model) vs src/rculfhash.c",
                                        what="implementation no longer behaves as a run of the proven model"), nofail=True)


def replay(rp):
    asan = any("asan" in str(x) for x in rp.get("cmd", [])[:1])
    ok, log, exe = build(asan=asan)
    if not ok:
        print(log)
        return 2
    if "cmd" in rp:
        v, d, out, dout = run_one(exe, rp["cmd"][1:], use_driver=os.path.exists(DRV))
        print(v)
        for k in ("oracle", "what", "stderr", "last_ops", "driver"):
            if k in d:
                print(k, ":", d[k])
        return 0 if v == "ok" else 1
    import json
    print(json.dumps(rp, indent=1))
    return 1
