"""C04 — rcu_barrier() returns only after all previously queued callbacks have run.  DESIGN.md §4 C04.
Shares the scenario, the driver and the runner functions of C03 (props/c03.py)."""
import vlib
from props import c03

THEOREMS = ["UrcuVerif.CallRcu.base_reach", "UrcuVerif.CallRcu.barrier_in_cs_refused", "UrcuVerif.CallRcu.cov_at_call",
            "UrcuVerif.CallRcu.barrier_complete", "UrcuVerif.CallRcu.marker_fifo", "UrcuVerif.CallRcu.barrier_count_exact",
            "UrcuVerif.CallRcu.barrier_futex_range", "UrcuVerif.CallRcu.barrier_no_lost_wakeup",
            "UrcuVerif.CallRcu.outstanding_marker", "UrcuVerif.CallRcu.marker_not_stuck", "UrcuVerif.CallRcu.marker_measure",
            "UrcuVerif.CallRcu.binvh_step", "UrcuVerif.CallRcu.binvp_step", "UrcuVerif.CallRcu.binvk_step",
            "UrcuVerif.CallRcu.j2_reach", "UrcuVerif.CallRcu.bdone_reach", "UrcuVerif.CallRcu.pend_shape",
            "UrcuVerif.CallRcu.completion_lifetime", "UrcuVerif.CallRcu.binvr_step", "UrcuVerif.CallRcu.mrun_is_curMark"]
UNPROVED = ["(none) 'rcu_barrier() always returns' is proved end to end under CallRcu.BFairEnv (strong fairness of the threads incl. lock "
            "acquisition, weak fairness of the helpers, sections end, user callbacks terminate, no pause / exit): "
            "barrier_eventually_returns_from_call; every hypothesis of the earlier barrier_eventually_returns is discharged "
            "(marker_eventually_done applies C03's end-to-end theorem to the projected run). C04_full as FIRST written (weak fairness "
            "only) does not hold for the same reason as C03_full"]
TRUSTED = ["Lean 4.33 kernel; axioms ⊆ {propext, Classical.choice, Quot.sound}",
           "the barrier layer (CallRcu/Barrier.lean) performs C03 steps only through the hooks extBegin/extLock/extCall/extUnlock/extEnd; every C03 theorem holds underneath (base_reach)",
           "per-helper FIFO order of the wfcqueue (C10) and of the helper's invocation loop (cb_fifo_per_helper, C03)",
           "x86-TSO: barrier_count is updated by a locked sub_return, the completion futex by a locked dec; the marker's plain futex:=0 store is delayed up to its FUTEX_WAKE (same argument as C03); futex contract as in C02/C03",
           "caller obligations: rcu_barrier() is not called from a read-side section (refused) nor from a call_rcu helper thread (model: user threads only); callbacks terminate",
           "'rcu_barrier() always returns' is proved as no-lost-wake-up + non-stuck wakers; 'eventually' needs a fair scheduler, terminating callbacks and C03's liveness; checked on the implementation by the runtime's deadlock / step-budget detectors",
           "tie: Driver/CallRcu.lean event-level replay of rcu_barrier / _rcu_barrier_complete / call_rcu_completion_wait / _wake_up under the shim on the explored schedules only (L1 ⊑ L2 not a theorem); all flavors run (memb ±membarrier, mb, qsbr with online and offline rcu_barrier callers, bp ±membarrier)"]
OWN = {"barrier", "uaf", "DEADLOCK", "BUDGET", "SELFLOCK", "BADUNLOCK"}
SWEEPS = [(3, 2, (5, 14, 30, 60, 110))]


def not_barrier(r):
    return not c03.is_barrier_divergence(r)


def run(chk):
    chk.assumptions = TRUSTED
    chk.cov["trusted_base"] = TRUSTED
    chk.proof_part(["UrcuVerif.Props.C04", "drv_callrcu"], "UrcuVerif.Props.C04", THEOREMS,
                   ["UrcuVerif.CallRcu", "UrcuVerif.Props.C04", "UrcuVerif.Machine"], unproved=UNPROVED)
    chk.live_part()
    ok, log = c03.build()
    if not ok:
        chk.fail("build", {"theorem": "harness/scen/callrcu.c does not compile against /repo", "lean_error": log[-2000:]}, nofail=True)
        return
    n = 40 if chk.tier == "quick" else 400
    # other seeds than C03's runs: base offset 300000
    fails = c03.suite(chk, n, base=300000, is_own=lambda f: c03.mine(f, OWN, not_barrier))
    if not [f for f in fails if c03.mine(f, OWN, not_barrier)]:
        fails += c03.sweep(chk, SWEEPS, OWN, wide=(chk.tier == "thorough"), fdiv=not_barrier)
    h = chk.cov.get("branch_histogram", {})
    chk.cov["barrier_paths"] = {k: v for k, v in h.items() if "barrier" in k or "completion" in k}
    chk.cov["rule"] += ("; C04: rcu_barrier() callers are part of every scenario (concurrently with enqueuers, helper creation/destruction and other "
                        "barriers; also inside a read-side section = refused; also with no helper at all), oracle 'barrier' = every callback whose "
                        "call_rcu() had returned before the rcu_barrier() call has finished when it returns; plus the one-preemption sweep of the "
                        "helper inside the caller's dec / count-test / FUTEX_WAIT window")
    c03.report(chk, fails, OWN, not_barrier, c03.search_own(chk, OWN, SWEEPS, 300 if chk.tier == "quick" else 3000, not_barrier))


def replay(rp):
    return c03.replay(rp)
