"""C03 — call_rcu(): every callback runs exactly once, only after a full grace period.  DESIGN.md §4 C03.

Shared with C04 (props/c04.py imports this module): build and run harness/scen/callrcu.c (the real src/urcu.c +
src/urcu-call-rcu-impl.h + wfcqueue under the shim, memb and mb flavors) and replay every trace on
Driver/CallRcu.lean, which maps it to labels of the proven models CallRcu/Model.lean (C03) and CallRcu/Barrier.lean
(C04)."""
import os
import re
import vlib

THEOREMS = ["UrcuVerif.CallRcu.cb_at_most_once", "UrcuVerif.CallRcu.cb_conserved", "UrcuVerif.CallRcu.cb_unregistered_nowhere",
            "UrcuVerif.CallRcu.cb_after_gp", "UrcuVerif.CallRcu.batch_after_enqueue", "UrcuVerif.CallRcu.cb_same_head",
            "UrcuVerif.CallRcu.cb_fifo_per_helper", "UrcuVerif.CallRcu.no_enqueue_to_freed_helper",
            "UrcuVerif.CallRcu.leftovers_handed_over", "UrcuVerif.CallRcu.free_protocol",
            "UrcuVerif.CallRcu.helper_futex_range", "UrcuVerif.CallRcu.helper_no_lost_wakeup",
            "UrcuVerif.CallRcu.waker_not_stuck", "UrcuVerif.CallRcu.waker_measure", "UrcuVerif.CallRcu.wake_wakes",
            "UrcuVerif.CallRcu.helper_no_stuck", "UrcuVerif.CallRcu.helper_measure", "UrcuVerif.CallRcu.C03_partial",
            "UrcuVerif.CallRcu.tso_no_lost_wakeup", "UrcuVerif.CallRcu.lost_wakeup_if_dec_after_check",
            "UrcuVerif.CallRcu.inva_step", "UrcuVerif.CallRcu.invb_step", "UrcuVerif.CallRcu.invf_step",
            "UrcuVerif.CallRcu.invd_step", "UrcuVerif.CallRcu.inve_step", "UrcuVerif.CallRcu.invl_step",
            "UrcuVerif.CallRcu.invw_step", "UrcuVerif.CallRcuWake.inv_step"]
UNPROVED = ["(none) 'eventually invoked exactly once' is proved end to end with the property's provisos as explicit hypotheses on the run "
            "(CallRcu.FairEnv: strong fairness of each thread's library steps incl. lock acquisition, weak fairness of the helpers, "
            "sections end, callbacks terminate, no pause / no concurrent urcu_call_rcu_exit): callback_eventually_invoked_from_call "
            "(from the call_rcu() entry, through default / per-thread / per-CPU selection and lazy creation of the default helper) and "
            "queued_callback_eventually_invoked_any (incl. the hand-over when the helper is destroyed meanwhile). C03_full as FIRST "
            "written (weak per-thread fairness only) is false - machine-checked C03_full_false (starvation at call_rcu_mutex): a "
            "statement artefact, kept as a record"]
TRUSTED = ["Lean 4.33 kernel; axioms ⊆ {propext, Classical.choice, Quot.sound}",
           "grace period = GpSpec (C01): the helper's synchronize_rcu() returns only when every read-side section that began before its call has ended",
           "wfcqueue enqueue is atomic at the xchg of the tail and splice/iteration return the nodes in enqueue order (C10); the delayed old_tail->next store and the dequeuer's busy-wait are checked at event level only",
           "x86-TSO: every store the safety theorems depend on is a locked instruction or made under call_rcu_mutex; the waker's plain futex:=0 store is delayed up to FUTEX_WAKE (Model) / sits in an explicit store buffer (Wake.lean); futex contract (FUTEX_WAIT checks the value and sleeps atomically; spurious/EINTR returns unconstrained; system calls drain the store buffer)",
           "caller obligations of the API documentation are guards of the model (FreeObl/SetObl: helper removed from per-thread use, removed from the per-CPU array and a grace period since, not freed twice, not being re-published concurrently; urcu_call_rcu_exit runs as a library destructor)",
           "liveness is proved as 'a sleeping helper with work always has a non-stuck waker with a strictly decreasing own-step measure; a helper is never stuck outside gp/run/paused/asleep'; 'eventually' additionally needs a fair scheduler, terminating callbacks, ending read-side sections (C03_full unproved)",
           "tie: Driver/CallRcu.lean event-level transliteration of urcu-call-rcu-impl.h (L1) replaying labels of Model.lean/Barrier.lean (L2) on the explored schedules only; L1 ⊑ L2 is not a theorem; synchronize_rcu internals are skipped (C01/C02) and replayed as GpSpec steps whose guard is checked against the sections in the trace",
           "flavors run: memb (with and without sys_membarrier), mb, qsbr (src/urcu-qsbr.c: workers registered and online, quiescent states between operations, offline around blocking teardown calls; the helper's register / thread_offline / thread_online / unregister and rcu_barrier's was_online idiom are matched event by event and mapped to the model's section steps: an online thread = an open section since its last quiescent state, Cfg.qsbr), bp (src/urcu-bp.c: lazy registration with signals blocked, key-destructor unregistration; with and without sys_membarrier); fork handlers (PAUSE) belong to C16",
           "qsbr caller obligations (documented for the flavor, guards of the model through nest = 0): a thread is offline while it blocks in call_rcu_data_free / free_all_cpu_call_rcu_data / create_all_cpu_call_rcu_data; rcu_barrier() inside a read-side section cannot be detected in qsbr (rcu_read_lock is a no-op) and is not exercised there"]
CONFIGS = [("memb", 1, "memb+sys_membarrier"), ("memb", 0, "memb fallback (mb)"), ("mb", 0, "mb flavor"),
           ("qsbr", 0, "qsbr flavor"), ("bp", 1, "bp+sys_membarrier"), ("bp", 0, "bp fallback (mb)")]
DRV = os.path.join(vlib.LEAN, ".lake", "build", "bin", "drv_callrcu")
OWN = {"once", "head", "gp", "uaf", "DEADLOCK", "BUDGET", "SELFLOCK", "BADUNLOCK"}
FOREIGN = {"barrier"}          # oracle kinds owned by C04 only
# branches of the L1/L2 correspondence the quick tier must have exercised (generator property, not an alarm)
REQUIRED = ["call_rcu", "callback_invoked", "select_default", "select_per_thread", "select_per_cpu", "default_created_lazily",
            "helper_created", "helper_created_rt", "helper_grace_period", "splice_batch", "splice_empty", "helper_wait_path",
            "helper_futex_SLEEP", "helper_futex_EAGAIN", "helper_futex_SPURIOUS", "helper_futex_EINTR", "helper_futex_ENOSYS",
            "helper_poll_nonempty", "helper_poll_rt", "wake_sleeping_helper", "wake_nobody", "wake_futex_not_-1", "wake_rt_helper",
            "free_splice_leftovers", "free_queue_empty", "free_default_refused", "free_poll_stopped", "helper_stop_seen",
            "helper_exit", "helper_freed", "set_cpu_publish", "set_cpu_unpublish", "set_cpu_EEXIST", "set_cpu_EINVAL",
            "create_all_slot_occupied", "free_all_helpers", "exit_default_torn_down", "percpu_array_allocated", "wfcq_busy_relax",
            "barrier_complete", "barrier_marker_enqueued", "barrier_futex_SLEEP", "barrier_wake_sleeper", "barrier_refused_in_cs",
            "barrier_no_helper", "barrier_marker_not_last", "completion_freed_by_caller", "completion_freed_by_marker",
            # flavor-specific lines of urcu-call-rcu-impl.h (qsbr: offline/online of helpers and barrier callers; bp: lazy registration)
            "helper_sleeps_offline", "barrier_caller_was_online", "barrier_caller_was_offline", "sync_caller_was_online",
            "qs_announced", "qs_already_current", "qsbr_wake_up_gp", "user_offline", "bp_registered", "bp_unregistered_at_exit"]


def binname(flavor):
    """scenario binary of this flavor for the tree under test: keyed by the tree (VERIF_REPO), so that a concurrent check
    of another tree (seeded-change validation) does not overwrite the binaries this one is running"""
    import hashlib
    return "callrcu_%s_%s" % (flavor, hashlib.sha1(os.path.realpath(vlib.REPO).encode()).hexdigest()[:8])


def build():
    rt = os.path.join(vlib.HARN, "rt")
    srcs = [os.path.join(vlib.HARN, "scen", "callrcu.c"), os.path.join(rt, "vrt.c"), os.path.join(rt, "vrt_compat_futex.c")] + vlib.rsrc("compat_arch.c")
    for fl, flavor in (("RCU_MEMBARRIER", "memb"), ("RCU_MB", "mb"), ("CALLRCU_QSBR", "qsbr"), ("CALLRCU_BP", "bp")):
        tmp = "%s.tmp%d" % (binname(flavor), os.getpid())
        ok, log = vlib.cc(tmp, srcs, ["-w", "-D" + fl])
        if not ok:
            return False, log
        os.replace(os.path.join(vlib.BUILD, tmp), os.path.join(vlib.BUILD, binname(flavor)))    # atomic: running copies keep theirs
    return True, ""


def is_barrier_divergence(r):
    """a divergence located in rcu_barrier()/_rcu_barrier_complete (completion object, work item, barrier labels)"""
    d = " ".join(r.get("driver") or [])
    return bool(re.search(r"compl\d|work[\dJ]|complK|CALL barrier|RET barrier|BLabel\.[bm][A-Z]", d.split("PARTIAL")[0]))


def one(flavor, memb, seed, extra=()):
    """returns dict(verdict=ok|diverge|oracle|crash, ...)"""
    args = [os.path.join(vlib.BUILD, binname(flavor)), "--seed", str(seed)] + [str(x) for x in extra]
    env = {"VRT_MEMBARRIER": str(memb)}
    rc, out, err = vlib.sh2(args, timeout=120, env=env)
    res = {"cmd": args, "env": env, "rc": rc}
    kinds = re.findall(r"ORACLE (\w+)", err)
    if rc not in (0, 3, 4, 5):
        res.update(verdict="crash", stderr=err[-600:], kinds=["crash"])
        return res
    drc, dout = vlib.sh([DRV], inp=out.encode(), timeout=300)
    res["driver"] = dout.strip().splitlines()[:2]
    res["events"] = len(out.splitlines())
    m = re.search(r"# SUMMARY callbacks=(\d+) helpers=(\d+) barriers=(\d+)", out)
    if m:
        res["summary"] = [int(x) for x in m.groups()]
    if kinds:
        res.update(verdict="oracle", kinds=kinds, oracle=err.strip().splitlines()[:4])
    elif drc != 0 or not dout.startswith("OK"):
        res.update(verdict="diverge", kinds=[])
    else:
        res.update(verdict="ok")
        res["cov"] = dict((k, int(v)) for k, v in (x.split("=") for x in dout.split()[2:] if "=" in x))
    return res


def plan(rng, k):
    """scenario parameters for run k: helper assignment mix, re-enqueueing callbacks, destruction with pending
    callbacks, per-CPU administration, parked sections, futex fault plans, scheduling strategy"""
    extra = ["--workers", 1 + k % 3, "--ops", rng.choice([25, 40, 60]), "--ncpus", 1 + (k // 3) % 4,
             "--rt", rng.choice([0, 30, 60]), "--chain", rng.choice([0, 25, 60])]
    if k % 2 == 1:
        extra += ["--admin", 1 + (k // 2) % 2]
    if k % 3 != 1:
        extra += ["--park"]
    if k % 5 == 2:
        extra += ["--predefault"]
    if k % 2 == 0 or k % 7 == 3:
        extra += ["--faults", "spur=%d,eintr=%d,enosys=%d" % (rng.choice([0, 100, 300]), rng.choice([0, 100, 300]), rng.choice([0, 0, 100, 1000]))]
    if k % 7 == 5:
        extra += ["--strategy", "pct", "--pctd", 1 + k % 4, "--pctlen", 800]
    else:
        extra += ["--pswitch", rng.choice([3, 8, 15, 30, 60])]
    return extra


def nontrivial(cov):
    return (cov.get("callback_invoked", 0) > 0 and cov.get("helper_grace_period", 0) > 0 and
            (cov.get("wake_sleeping_helper", 0) > 0 or cov.get("helper_poll_rt", 0) > 0) and
            (cov.get("free_splice_leftovers", 0) > 0 or cov.get("select_per_cpu", 0) > 0 or cov.get("barrier_wake_sleeper", 0) > 0))


def suite(chk, nseeds, base=0, nobarrier_every=0, is_own=None):
    """random-walk / PCT schedules over the three configurations; returns failing results"""
    hist, fails, nontriv, events, per_cfg = {}, [], set(), 0, {}
    tot = [0, 0, 0]

    def stop(fs):
        # failures that belong to this property end the suite early; failures located in the other property's code do not
        return len([f for f in fs if is_own is None or is_own(f)]) >= 4 or len(fs) >= 3 * nseeds
    for ci, (flavor, memb, cname) in enumerate(CONFIGS):
        for k in range(nseeds):
            sd = chk.seed * 1000 + base + k
            extra = plan(chk.rng, k)
            if nobarrier_every and k % nobarrier_every == 1:
                extra = [x for x in extra if x != "--predefault"] + ["--nobarrier"]
            r = one(flavor, memb, sd, extra)
            chk.cov["evaluations"] += 1
            per_cfg[cname] = per_cfg.get(cname, 0) + 1
            if r["verdict"] == "ok":
                events += r["events"]
                for kk, vv in r["cov"].items():
                    hist[kk] = hist.get(kk, 0) + vv
                for i, v in enumerate(r.get("summary", [0, 0, 0])):
                    tot[i] += v
                if nontrivial(r["cov"]):
                    nontriv.add((cname, r["driver"][0]))
                if k < 1:
                    chk.sample({"config": cname, "cmd": " ".join(r["cmd"][1:]), "driver": r["driver"][0][:400]})
            else:
                r["config"] = cname
                fails.append(r)
                if stop(fails):
                    break
        if stop(fails):
            break
    chk.cov["traces_validated_against_impl"] = chk.cov["evaluations"] - len(fails)
    chk.cov["suite_failing_runs"] = len(fails)
    chk.cov["events_compared"] = events
    chk.cov["distinct_nontrivial"] = len(nontriv)
    chk.cov["runs_per_config"] = per_cfg
    chk.cov["branch_histogram"] = hist
    chk.cov["totals"] = {"callbacks": tot[0], "helpers": tot[1], "barriers": tot[2]}
    chk.cov["uncovered_branches"] = [b for b in REQUIRED if not hist.get(b)]
    chk.cov["rule"] = ("schedules of harness/scen/callrcu.c (real src/urcu.c + urcu-call-rcu-impl.h + wfcqueue under the shim): 1-3 workers "
                       "doing call_rcu (25-60 % re-enqueueing callbacks, chains of depth ≤ 2), nested read-side sections (parked across grace periods), "
                       "rcu_barrier (also inside a section), create_call_rcu_data (RT and futex helpers) + set_thread_call_rcu_data, "
                       "call_rcu_data_free with callbacks pending, synchronize_rcu; 0-2 admin threads doing create_all_cpu/free_all_cpu/"
                       "set_cpu_call_rcu_data (1-4 CPUs, out-of-range and occupied slots) with the documented unpublish-sync-free protocol; "
                       "futex fault plans (spurious, EINTR, ENOSYS→compat); teardown through free_all_cpu, rcu_barrier and urcu_call_rcu_exit; "
                       "plus directed sweeps (one forced preemption / one held thread at every event of the window): helper dec/empty-check/sleep vs enqueue, enqueue/wake vs helper start, and the documented per-CPU teardown (set_cpu NULL; synchronize_rcu; call_rcu_data_free / free_all_cpu) vs a call_rcu() held between its per-CPU lookup and its enqueue; "
                       "random-walk (pswitch 3-60) and PCT strategies drawn from VERIF_SEED, for memb+membarrier, memb fallback, mb, qsbr, bp+membarrier and bp fallback; every event "
                       "replayed on Driver/CallRcu.lean; non-trivial = a callback invoked after a helper grace period, a helper woken from FUTEX_WAIT "
                       "(or an RT helper polling), and a hand-over on destroy / a per-CPU selection / a barrier wake-up; distinct = different (config, driver coverage summary)")
    return fails


SWEEPS = [(1, 1, (3, 8, 14, 22)), (2, 2, (3, 8, 14, 22)), (4, 1, (3, 14, 22))]     # (oneshot mode, forced tid, lengths)


def sweep(chk, modes, own, record=True, wide=False, first_only=True, fdiv=None):
    """systematic one-preemption sweep of the oneshot scenarios (non-preemptive base schedule + ONE forced
    preemption of thread `tid` at global step N for M steps): modes 1/4 – N up to the helper's first FUTEX_WAIT
    (the parked enqueuer is resumed inside the helper's dec / empty-check / sleep window); modes 2/3 – N over the
    enqueuer's call_rcu() / rcu_barrier() (the helper is run inside the enqueue / wake / count-test windows);
    wide: every step of the base run and longer preemptions.  Returns failing results."""
    fails, runs = [], 0
    for flavor, memb, cname in CONFIGS:
        for mode, tid, lens in modes:
            base = ["--oneshot", mode, "--strategy", "sweep"]
            r0 = one(flavor, memb, 1, base)
            runs += 1
            if r0["verdict"] != "ok":
                r0["config"] = cname
                fails.append(r0)
                if first_only:
                    return done_sweep(chk, runs, fails, record)
                continue
            rc, out, err = vlib.sh2([os.path.join(vlib.BUILD, binname(flavor)), "--seed", "1"] + [str(x) for x in base],
                                    timeout=60, env={"VRT_MEMBARRIER": str(memb)})
            marks = sorted(set(int(x) for x in re.findall(r"^#@ (\d+)$", out, re.M)))
            early = [m for m in marks if m < 500000]
            if mode in (1, 4):
                pts = set(range(1, (early[0] if early else 30) + 5))
            else:
                pts = set(range(1, 60 if mode == 2 else 130))
            if wide:
                last = max(early) if early else 300
                pts.update(range(1, min(last + 10, 260)))
            for n in sorted(pts):
                for ln in tuple(lens) + ((40, 110) if wide else ()):
                    r = one(flavor, memb, 1, base + ["--preempt-at", n, "--preempt-tid", tid, "--preempt-len", ln])
                    runs += 1
                    if r["verdict"] != "ok":
                        r["config"] = cname
                        fails.append(r)
                        if r["verdict"] in ("oracle", "crash") and (r["verdict"] == "crash" or (fdiv is None and any(k in own for k in r["kinds"])) or (fdiv is not None and mine(r, own, fdiv))):
                            return done_sweep(chk, runs, fails, record)
                        if first_only and len(fails) >= 3:
                            return done_sweep(chk, runs, fails, record)
    return done_sweep(chk, runs, fails, record)


def directed(chk, own, fdiv, record=True, wide=False):
    """directed teardown scenarios (oneshot 5: set_cpu_call_rcu_data(cpu, NULL); synchronize_rcu(); call_rcu_data_free(H);
    oneshot 6: free_all_cpu_call_rcu_data()) against a call_rcu() through the per-CPU helper H: the enqueuer T1 is
    descheduled (--hold-at N: it runs only when nothing else can) at every event N of its call_rcu(), long enough for
    the whole teardown.  Unchanged code: the grace period waits for T1's read-side section, T1 enqueues first, the
    leftover is handed over.  Returns failing results."""
    fails, runs = [], 0
    for flavor, memb, cname in CONFIGS:
        # oneshot 7: synchronize_rcu() of another thread while the helper sleeps (qsbr: it must sleep offline)
        r = one(flavor, memb, 1, ["--oneshot", 7, "--strategy", "sweep"])
        runs += 1
        if r["verdict"] != "ok":
            r["config"] = cname
            fails.append(r)
            if r["verdict"] in ("oracle", "crash") and mine(r, own, fdiv):
                return done_sweep(chk, runs, fails, record, "directed_runs")
        for mode in (5, 6):
            for n in (range(1, 90) if wide else range(4, 46)):
                for ln in ((600, 2000) if wide else (600,)):
                    r = one(flavor, memb, 1, ["--oneshot", mode, "--strategy", "sweep", "--ncpus", 1, "--hold-at", n,
                                              "--hold-tid", 1, "--hold-len", ln])
                    runs += 1
                    if r["verdict"] != "ok":
                        r["config"] = cname
                        fails.append(r)
                        if r["verdict"] in ("oracle", "crash") and mine(r, own, fdiv):
                            return done_sweep(chk, runs, fails, record, "directed_runs")
                        if len(fails) >= 3 and not wide:
                            return done_sweep(chk, runs, fails, record, "directed_runs")
    return done_sweep(chk, runs, fails, record, "directed_runs")


def done_sweep(chk, runs, fails, record, key="sweep_runs"):
    if record:
        chk.cov[key] = chk.cov.get(key, 0) + runs
        chk.cov["evaluations"] += runs
    return fails


SHARED = {"DEADLOCK", "BUDGET", "SELFLOCK", "BADUNLOCK", "uaf"}   # oracle kinds both properties can cause


def mine(r, own, foreign_div):
    """does the failing run r belong to the property with oracle kinds `own`?  foreign_div(r) says whether a
    divergence is located in the other property's code.  A deadlock / livelock / use-after-free is attributed by the
    place where the same run first leaves the proven model (if it does)."""
    if r["verdict"] == "crash":
        return True
    if r["verdict"] == "oracle":
        specific = [k for k in r["kinds"] if k not in SHARED]
        if any(k in own for k in specific):
            return True
        if specific:
            return False
        if not any(k in own for k in r["kinds"]):
            return False
        d = " ".join(r.get("driver") or [])
        return not (d.startswith("DIVERGE") and foreign_div(r))
    return not foreign_div(r)


def report(chk, fails, own, foreign_div, search):
    """turn failing runs into violations of chk.pid"""
    if not fails:
        return
    own_or = [f for f in fails if f["verdict"] == "oracle" and mine(f, own, foreign_div)]
    crash = [f for f in fails if f["verdict"] == "crash"]
    if own_or or crash:
        f = (own_or or crash)[0]
        what = "implementation oracle: " + "; ".join(f.get("oracle", [])) if own_or else "the real code crashed / aborted under this schedule: " + f.get("stderr", "")[-300:]
        chk.fail("schedule", dict(f, scenario="callrcu", what=what))
        return
    own_div = [f for f in fails if mine(f, own, foreign_div)]
    if not own_div:
        chk.cov["foreign_failures"] = [{"config": f.get("config"), "kinds": f.get("kinds"), "driver": f.get("driver")} for f in fails[:3]]
        ok_runs = chk.cov.get("traces_validated_against_impl", 0)
        if ok_runs >= max(1, chk.cov.get("suite_failing_runs", len(fails))):
            chk.notes.append("failures located in the other call_rcu property's code were observed (see foreign_failures); none concerns %s; "
                             "%d traces of this property's runs were validated" % (chk.pid, ok_runs))
            return
        f = fails[0]
        chk.fail("divergence", dict(f, scenario="callrcu", correspondence="Driver/CallRcu.lean vs src/urcu-call-rcu-impl.h (+ wfcqueue)",
                                    what="the implementation diverges from the proven model in the code of the other call_rcu property (%s); this "
                                         "property's traces could not be validated (%d ok vs %d failing runs), so its theorems are not tied to the "
                                         "code any more" % ("C04" if chk.pid == "C03" else "C03", ok_runs, len(fails))), nofail=True)
        return
    found = search() if search else None
    if found:
        what = ("implementation oracle: " + "; ".join(found.get("oracle", []))) if found["verdict"] == "oracle" else "the real code crashed / aborted: " + found.get("stderr", "")[-300:]
        chk.fail("schedule", dict(found, scenario="callrcu", what=what, first_divergence=own_div[0].get("driver")))
        return
    f = own_div[0]
    chk.fail("divergence", dict(f, scenario="callrcu", correspondence="Driver/CallRcu.lean vs src/urcu-call-rcu-impl.h (+ wfcqueue)",
                                what="the implementation is no longer a run of the proven model"), nofail=True)


def search_own(chk, own, modes, n, fdiv):
    """failing-input search: wide one-preemption sweep, then many more random/PCT schedules, with the implementation oracles"""
    def go():
        for r in directed(chk, own, fdiv, record=False, wide=True):
            if r["verdict"] in ("oracle", "crash") and mine(r, own, fdiv):
                return r
        for r in sweep(chk, modes, own, record=False, wide=True, first_only=False, fdiv=fdiv):
            if r["verdict"] in ("oracle", "crash") and mine(r, own, fdiv):
                return r
        for ci, (flavor, memb, cname) in enumerate(CONFIGS):
            for k in range(n):
                r = one(flavor, memb, chk.seed * 1000 + 500000 + k, plan(chk.rng, k))
                if r["verdict"] in ("oracle", "crash") and mine(r, own, fdiv):
                    r["config"] = cname
                    return r
        return None
    return go


def run(chk):
    chk.assumptions = TRUSTED
    chk.cov["trusted_base"] = TRUSTED
    chk.proof_part(["UrcuVerif.Props.C03", "drv_callrcu"], "UrcuVerif.Props.C03", THEOREMS,
                   ["UrcuVerif.CallRcu", "UrcuVerif.Props.C03", "UrcuVerif.Machine"], unproved=UNPROVED)
    chk.live_part()
    ok, log = build()
    if not ok:
        chk.fail("build", {"theorem": "harness/scen/callrcu.c does not compile against /repo", "lean_error": log[-2000:]}, nofail=True)
        return
    n = 40 if chk.tier == "quick" else 400
    # every second run does not execute rcu_barrier() at all (C04's code): C03's tie does not depend on it
    fails = suite(chk, n, nobarrier_every=2, is_own=lambda f: mine(f, OWN, is_barrier_divergence))
    if not [f for f in fails if mine(f, OWN, is_barrier_divergence)]:
        fails += sweep(chk, SWEEPS, OWN, wide=(chk.tier == "thorough"), fdiv=is_barrier_divergence)
    if not [f for f in fails if mine(f, OWN, is_barrier_divergence)]:
        fails += directed(chk, OWN, is_barrier_divergence, wide=(chk.tier == "thorough"))
    h = chk.cov.get("branch_histogram", {})
    chk.cov["futex_paths"] = {k: v for k, v in h.items() if "futex" in k or "wake" in k}
    report(chk, fails, OWN, is_barrier_divergence, search_own(chk, OWN, SWEEPS, 300 if chk.tier == "quick" else 3000, is_barrier_divergence))


def replay(rp):
    ok, log = build()
    if not ok:
        print(log)
        return 2
    if "cmd" not in rp:
        import json
        print(json.dumps(rp, indent=1))
        return 1
    m = re.match(r"callrcu_([a-z]+)", os.path.basename(rp["cmd"][0]))
    args = [os.path.join(vlib.BUILD, binname(m.group(1) if m else "memb"))] + [str(x) for x in rp["cmd"][1:]]
    rc, out, err = vlib.sh2(args, timeout=120, env=rp.get("env"))
    drc, dout = vlib.sh([DRV], inp=out.encode(), timeout=300)
    print(err.strip())
    print(dout.strip()[:600])
    return 1 if (rc != 0 or drc != 0 or not dout.startswith("OK")) else 0
