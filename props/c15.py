"""C15 — dynamic reader registration: memb / mb / qsbr registry (the C01 grace-period model with registration churn) and the
bp flavor's automatic registration + registry arena + signals (props/c15bp.py).  DESIGN.md §4 C15."""
import vlib
from props import gp_common
from props import c15bp

THEOREMS = ["UrcuVerif.Gp.unregistered_never_scanned", "UrcuVerif.Gp.scan_targets_registered",
            "UrcuVerif.Gp.lists_partition", "UrcuVerif.Gp.registered_late_not_waited",
            "UrcuVerif.Gp.unregister_leaves_clean", "UrcuVerif.Gp.gp_guarantee", "UrcuVerif.Gp.inv_step",
            "UrcuVerif.Qsbr.scan_targets_registered_qsbr", "UrcuVerif.Qsbr.gp_guarantee_qsbr"]
TRUSTED = ["Lean 4.33 kernel; axioms ⊆ {propext, Classical.choice, Quot.sound}",
           "same model and tie as C01 (Gp/Flip.lean; Driver/Gp.lean tracks registry / cur_snap / qs as ordered lists exactly as cds_list_add/move/del/splice order them, so each scan load must hit the reader the C list order dictates)",
           "registration of a thread that is inside a read-side section is excluded by the API contract (model guard)",
           "bp: automatic registration / exit destructor / slot reuse are exercised by the trace tie (gp_bp.c, up to 17 readers); the registry arena theorems are in Props/C15Bp when present"]
OWN = {"gp", "litmus"}


def run(chk):
    chk.assumptions = TRUSTED
    chk.cov["trusted_base"] = TRUSTED
    bp = c15bp.proof_targets()
    chk.proof_part(["UrcuVerif.Props.C15", "UrcuVerif.Props.C01", "UrcuVerif.Props.C01Qsbr", "drv_gp"] + bp["targets"],
                          ["UrcuVerif.Props.C15", "UrcuVerif.Props.C01", "UrcuVerif.Props.C01Qsbr", bp["prop_module"]],
                          THEOREMS + bp["theorems"],
                          ["UrcuVerif.Gp", "UrcuVerif.Props.C15", "UrcuVerif.Machine"] + bp["audit_mods"], unproved=bp["unproved"])
    ok, log = gp_common.build()
    if not ok:
        chk.fail("build", {"theorem": "harness/scen/gp.c does not compile against /repo", "lean_error": log[-2000:]}, nofail=True)
        return
    n = 24 if chk.tier == "quick" else 500
    fails = gp_common.suite(chk, n, "churn", OWN, rops=45, uops=3)
    h = chk.cov.get("branch_histogram", {})
    chk.cov["registration_events"] = {k: h.get(k, 0) for k in ("register", "unregister", "sync_empty_registry", "sync_full_gp")}
    gp_common.report(chk, fails, OWN, gp_common.search_own(chk, OWN, "churn", 300 if chk.tier == "quick" else 3000))
    # bp: automatic registration, registry arena (growth, slot reuse), exit destructor, fork prune, registration vs signals
    c15bp.run_part(chk)


def replay(rp):
    if str(rp.get("scenario", "")).startswith("bp_arena"):
        return c15bp.replay(rp)
    return gp_common.replay(rp)
