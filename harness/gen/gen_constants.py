#!/usr/bin/env python3
"""Translator: regenerates lean/UrcuVerif/Gen/Constants.lean from /repo's current sources.

Header-visible constants are taken by #including the real headers; constants that are local to a
.c file are taken by copying the text of their #define into a scratch C file, so that the C
compiler (not a regex) evaluates them.  Output: Lean `def`s on Nat."""
import os, re, subprocess, sys

REPO = os.environ.get("VERIF_REPO", "/repo")

# (file, [macro names]) : #define lines copied textually
LOCAL = [
    ("src/urcu-defer-impl.h", ["DEFER_QUEUE_SIZE", "DEFER_QUEUE_MASK", "DQ_FCT_BIT"]),
    ("src/rculfhash.c", ["COUNT_COMMIT_ORDER", "CHAIN_LEN_TARGET", "CHAIN_LEN_RESIZE_THRESHOLD",
                         "MIN_TABLE_ORDER", "MIN_TABLE_SIZE", "MIN_PARTITION_PER_THREAD_ORDER",
                         "MIN_PARTITION_PER_THREAD", "REMOVED_FLAG", "BUCKET_FLAG",
                         "REMOVAL_OWNER_FLAG", "FLAGS_MASK"]),
    ("src/urcu-wait.h", ["URCU_WAIT_ATTEMPTS"]),
    ("src/urcu.c", ["KICK_READER_LOOPS", "RCU_QS_ACTIVE_ATTEMPTS"]),
    ("src/urcu-bp.c", ["INIT_READER_COUNT"]),
    ("include/urcu/static/urcu-bp.h", ["URCU_BP_GP_COUNT", "URCU_BP_GP_CTR_PHASE", "URCU_BP_GP_CTR_NEST_MASK"]),
    ("include/urcu/static/urcu-qsbr.h", ["URCU_QSBR_GP_ONLINE", "URCU_QSBR_GP_CTR"]),
    ("include/urcu/static/urcu-common.h", ["URCU_GP_COUNT", "URCU_GP_CTR_PHASE", "URCU_GP_CTR_NEST_MASK"]),
    ("include/urcu/static/wfcqueue.h", ["WFCQ_ADAPT_ATTEMPTS"]),
    ("include/urcu/static/wfstack.h", ["CDS_WFS_ADAPT_ATTEMPTS"]),
    ("include/urcu/call-rcu.h", ["URCU_CALL_RCU_RT", "URCU_CALL_RCU_RUNNING", "URCU_CALL_RCU_STOP",
                                 "URCU_CALL_RCU_STOPPED", "URCU_CALL_RCU_PAUSE", "URCU_CALL_RCU_PAUSED"]),
]
# renamed copies when the same macro name exists in several files
ALIASES = [("src/urcu-qsbr.c", "RCU_QS_ACTIVE_ATTEMPTS", "QSBR_RCU_QS_ACTIVE_ATTEMPTS"),
           ("src/urcu-bp.c", "RCU_QS_ACTIVE_ATTEMPTS", "BP_RCU_QS_ACTIVE_ATTEMPTS")]


def grab(path, name):
    src = open(os.path.join(REPO, path)).read()
    src = src.replace("\\\n", " ")
    m = re.search(r"^[ \t]*#[ \t]*define[ \t]+%s[ \t]+(.*)$" % re.escape(name), src, re.M)
    if not m:
        return None
    body = re.sub(r"/\*.*?\*/", " ", m.group(1)).strip()
    return body


def main(out_c):
    lines = ["#include <stdio.h>", "#include <stddef.h>", "#include <limits.h>",
             '#include "rculfhash-internal.h"',
             "#define P(n, v) printf(\"def %s : Nat := %lu\\n\", n, (unsigned long)(v))",
             "int main(void) {",
             'printf("/- GENERATED from /repo by harness/gen/gen_constants.py on every check run; do not edit. -/\\n");',
             'printf("namespace UrcuVerif.Gen\\n");']
    missing = []
    seen = set()
    for path, names in LOCAL:
        for n in names:
            b = grab(path, n)
            if b is None:
                missing.append("%s:%s" % (path, n))
                continue
            lines.insert(4, "#define G_%s (%s)" % (n, re.sub(r"\b([A-Z][A-Z0-9_]+)\b", lambda m: ("G_" + m.group(1)) if any(m.group(1) in ns for _, ns in LOCAL) else m.group(1), b)))
            lines.append('P("%s", G_%s);' % (n, n))
            seen.add(n)
    for path, n, alias in ALIASES:
        b = grab(path, n)
        if b is None:
            missing.append("%s:%s" % (path, n))
            continue
        lines.insert(4, "#define G_%s (%s)" % (alias, b))
        lines.append('P("%s", G_%s);' % (alias, alias))
    lines += ['P("MAX_TABLE_ORDER", MAX_TABLE_ORDER);', 'P("MAX_CHUNK_TABLE", MAX_CHUNK_TABLE);',
              'P("SIZEOF_LONG", sizeof(long));', 'P("SIZEOF_PTR", sizeof(void *));',
              'P("CDS_WFS_END", 0x1UL);' if grab("include/urcu/static/wfstack.h", "CDS_WFS_END") is None else 'P("CDS_WFS_END", %s);' % re.sub(r"\(\s*struct\s+\w+\s*\*\s*\)", "(unsigned long)", grab("include/urcu/static/wfstack.h", "CDS_WFS_END")),
              'P("DQ_FCT_MARK", (unsigned long)(~G_DQ_FCT_BIT));',
              'P("SIZEOF_LFHT_NODE", sizeof(struct cds_lfht_node));',
              'printf("end UrcuVerif.Gen\\n");', "return 0; }"]
    if missing:
        sys.stderr.write("gen_constants: macros not found: %s\n" % ", ".join(missing))
        return 2
    open(out_c, "w").write("\n".join(lines) + "\n")
    return 0


if __name__ == "__main__":
    sys.exit(main(sys.argv[1]))
