/* Translator: prints BitReverseTable256 of the *current* src/rculfhash.c as a Lean list. */
#include "rculfhash.c"
int main(void)
{
	int i;
	printf("/- GENERATED from /repo/src/rculfhash.c by harness/gen/gen_bitrev.c on every check run; do not edit. -/\n");
	printf("namespace UrcuVerif.Gen\n");
	printf("def BitReverseTable256 : List Nat := [");
	for (i = 0; i < 256; i++)
		printf("%s%u", i ? ", " : "", (unsigned)BitReverseTable256[i]);
	printf("]\nend UrcuVerif.Gen\n");
	return 0;
}
