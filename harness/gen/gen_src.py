#!/usr/bin/env python3
"""Translator: C text of /repo's small static-inline primitives  ->  lean/UrcuVerif/Gen/Src.lean (IR of Src/IR.lean).

Run on every check (vlib.gen_src()).  It reads the *current* text of the listed functions from $VERIF_REPO (default
/repo), parses the C subset they are written in and emits one `def <name> : Stmt` per function, callees that are
themselves static functions of /repo being translated too and referenced through `Stmt.call`.  The concurrency
macros stay opaque primitives (PRIMS).  Anything outside the subset is an ERROR (exit 2), never a default: a source
change that leaves the subset breaks the tie loudly.  Named constants are evaluated by the C compiler against the
real headers (second output: a C file that prints them and static-asserts the zero offsets assumed for
caa_container_of), never by this script.

usage: gen_src.py <out.lean> <out_consts.c> [<consts.txt>]
  pass 1 (no consts.txt): writes out_consts.c (to be compiled and run by the caller; prints `NAME value` lines)
  pass 2 (with consts.txt): writes out.lean
"""
import os, re, sys

REPO = os.environ.get("VERIF_REPO", "/repo")

# functions to translate: name -> header (callees are found in SEARCH)
ROOTS = [
    ("_urcu_memb_read_lock", "include/urcu/static/urcu-memb.h"),
    ("_urcu_memb_read_unlock", "include/urcu/static/urcu-memb.h"),
    ("_urcu_memb_read_ongoing", "include/urcu/static/urcu-memb.h"),
    ("_urcu_mb_read_lock", "include/urcu/static/urcu-mb.h"),
    ("_urcu_mb_read_unlock", "include/urcu/static/urcu-mb.h"),
    ("_urcu_mb_read_ongoing", "include/urcu/static/urcu-mb.h"),
    ("_urcu_bp_read_lock", "include/urcu/static/urcu-bp.h"),
    ("_urcu_bp_read_unlock", "include/urcu/static/urcu-bp.h"),
    ("_urcu_bp_read_ongoing", "include/urcu/static/urcu-bp.h"),
    ("_urcu_qsbr_read_lock", "include/urcu/static/urcu-qsbr.h"),
    ("_urcu_qsbr_read_unlock", "include/urcu/static/urcu-qsbr.h"),
    ("_urcu_qsbr_read_ongoing", "include/urcu/static/urcu-qsbr.h"),
    ("_urcu_qsbr_quiescent_state", "include/urcu/static/urcu-qsbr.h"),
    ("_urcu_qsbr_thread_offline", "include/urcu/static/urcu-qsbr.h"),
    ("_urcu_qsbr_thread_online", "include/urcu/static/urcu-qsbr.h"),
    ("_cds_wfs_push", "include/urcu/static/wfstack.h"),
    ("___cds_wfs_pop", "include/urcu/static/wfstack.h"),
    ("___cds_wfs_pop_all", "include/urcu/static/wfstack.h"),
    ("_cds_wfs_empty", "include/urcu/static/wfstack.h"),
    ("_cds_lfs_push", "include/urcu/static/lfstack.h"),
    ("___cds_lfs_pop", "include/urcu/static/lfstack.h"),
    ("___cds_lfs_pop_all", "include/urcu/static/lfstack.h"),
    ("_cds_lfs_empty", "include/urcu/static/lfstack.h"),
    ("___cds_wfcq_append", "include/urcu/static/wfcqueue.h"),
    ("_cds_wfcq_enqueue", "include/urcu/static/wfcqueue.h"),
    ("_cds_wfcq_empty", "include/urcu/static/wfcqueue.h"),
    ("___cds_wfcq_node_sync_next", "include/urcu/static/wfcqueue.h"),
    ("___cds_wfcq_dequeue_with_state", "include/urcu/static/wfcqueue.h"),
    ("___cds_wfcq_splice", "include/urcu/static/wfcqueue.h"),
    ("_cds_lfq_enqueue_rcu", "include/urcu/static/rculfqueue.h"),
    ("_cds_lfq_dequeue_rcu", "include/urcu/static/rculfqueue.h"),
    ("_cds_lfs_push_rcu", "include/urcu/static/rculfstack.h"),
    ("_cds_lfs_pop_rcu", "include/urcu/static/rculfstack.h"),
    ("_cds_wfq_enqueue", "include/urcu/static/wfqueue.h"),
    ("urcu_ref_get_safe", "include/urcu/ref.h"),
    ("urcu_ref_put", "include/urcu/ref.h"),
    ("urcu_ref_get_unless_zero", "include/urcu/ref.h"),
]
SEARCH = ["include/urcu/static/urcu-common.h", "include/urcu/static/urcu-memb.h", "include/urcu/static/urcu-mb.h",
          "include/urcu/static/urcu-bp.h", "include/urcu/static/urcu-qsbr.h", "include/urcu/static/wfstack.h",
          "include/urcu/static/lfstack.h", "include/urcu/static/wfcqueue.h", "include/urcu/static/rculfqueue.h",
          "include/urcu/static/rculfstack.h", "include/urcu/static/wfqueue.h",
          "include/urcu/ref.h"]

# opaque primitives: C name -> (Prim constructor, number of value arguments kept, returns a value, number of memory orders)
# the memory order(s): explicit trailing argument(s) of the call, else the default that include/urcu/uatomic/api.h gives
# (read from that file's text by api_defaults()); "7" = volatile access (CMM_LOAD_SHARED / CMM_STORE_SHARED)
PRIMS = {
    "uatomic_load": ("uload", 1, True, 1), "uatomic_read": ("uload", 1, True, 1),
    "uatomic_load_mo": ("uload", 1, True, 1), "uatomic_store_mo": ("ustore", 2, False, 1),
    "CMM_LOAD_SHARED": ("uload*", 1, True, "7"), "_CMM_LOAD_SHARED": ("uload*", 1, True, "7"),
    "rcu_dereference": ("uload*", 1, True, "CMM_CONSUME"),
    "uatomic_store": ("ustore", 2, False, 1), "uatomic_set": ("ustore", 2, False, 1),
    # urcu/static/pointer.h: uatomic_store with RELEASE (RELAXED when the value is the constant NULL – handled in call())
    "rcu_set_pointer": ("ustore", 2, False, "CMM_RELEASE"), "rcu_assign_pointer": ("ustore*", 2, False, "CMM_RELEASE"),
    "CMM_STORE_SHARED": ("ustore*", 2, False, "7"), "_CMM_STORE_SHARED": ("ustore*", 2, False, "7"),
    "uatomic_xchg": ("uxchg", 2, True, 1), "uatomic_xchg_mo": ("uxchg", 2, True, 1),
    "uatomic_cmpxchg": ("ucmpxchg", 3, True, 2), "uatomic_cmpxchg_mo": ("ucmpxchg", 3, True, 2),
    "uatomic_add": ("uadd", 2, False, 1), "uatomic_sub": ("usub", 2, False, 1),
    "uatomic_or": ("uor", 2, False, 1), "uatomic_and": ("uand", 2, False, 1),
    "uatomic_inc": ("uinc", 1, False, 1), "uatomic_dec": ("udec", 1, False, 1),
    "uatomic_add_return": ("uaddret", 2, True, 1), "uatomic_sub_return": ("usubret", 2, True, 1),
    "uatomic_add_mo": ("uadd", 2, False, 1), "uatomic_sub_mo": ("usub", 2, False, 1),
    "uatomic_or_mo": ("uor", 2, False, 1), "uatomic_and_mo": ("uand", 2, False, 1),
    "uatomic_inc_mo": ("uinc", 1, False, 1), "uatomic_dec_mo": ("udec", 1, False, 1),
    "uatomic_add_return_mo": ("uaddret", 2, True, 1), "uatomic_sub_return_mo": ("usubret", 2, True, 1),
    "cmm_smp_mb": ("mb", 0, False, 0), "cmm_smp_rmb": ("rmb", 0, False, 0), "cmm_smp_wmb": ("wmb", 0, False, 0),
    "cmm_barrier": ("barrier", 0, False, 0), "caa_cpu_relax": ("relax", 0, False, 0),
}


def api_defaults():
    """default memory orders of the uatomic API, from the text of include/urcu/uatomic/api.h"""
    txt = strip_comments(open(os.path.join(REPO, "include/urcu/uatomic/api.h")).read())
    out = {}
    for m in re.finditer(r"#define\s+(uatomic_\w+)\(([^)]*)\)\s+(.*)", txt):
        d1 = re.search(r"_uatomic_default_mo\((CMM_\w+)", m.group(3))
        d2 = re.search(r"_uatomic_default_mo2\((CMM_\w+)", m.group(3))
        if d1:
            out[m.group(1)] = [d1.group(1)] + ([d2.group(1)] if d2 else [])
    return out


# "*" variants take an lvalue, not an address
IGNORED_CALLS = {"cmm_annotate_mem_acquire", "cmm_annotate_mem_release", "cmm_annotate_group_mem_acquire",
                 "cmm_annotate_group_mem_release", "cmm_annotate_group_mb_acquire", "cmm_annotate_group_mb_release",
                 "cmm_smp_read_barrier_depends",
                 "cmm_annotate_define", "dbg_printf"}
# value-preserving wrappers: branch hints, and the by-value transparent-union casts of wfcqueue.h (`{ ._h = head }`)
# debug hooks that urcu/config.h compiles out (checked against the config header's text at import time)
try:
    _cfg = open(os.path.join(REPO, "include", "urcu", "config.h")).read()
except OSError:
    _cfg = ""
if not re.search(r"^\s*#\s*define\s+CONFIG_CDS_LFHT_ITER_DEBUG\b", _cfg, re.M):
    IGNORED_CALLS |= {"cds_lfht_iter_debug_assert", "cds_lfht_iter_debug_set_ht"}
IDENTITY_CALLS = {"caa_likely", "caa_unlikely", "__cds_wfcq_head_cast", "cds_wfcq_head_cast",
                  "__cds_wfcq_head_const_cast", "cds_wfcq_head_const_cast"}
ASSERT_CALLS = {"urcu_assert_debug"}
MO_NAMES = {"CMM_RELAXED", "CMM_CONSUME", "CMM_ACQUIRE", "CMM_RELEASE", "CMM_ACQ_REL", "CMM_SEQ_CST", "CMM_SEQ_CST_FENCE"}
TYPE_KW = {"unsigned", "signed", "long", "int", "char", "short", "void", "struct", "union", "enum", "const",
           "volatile", "bool", "size_t", "ssize_t", "static", "register", "cmm_annotate_t"}


# first members whose address is the address of the enclosing object (static-asserted by the generated C file)
ZERO_FIELDS = {("struct cds_wfs_head", "node"), ("struct cds_lfs_head", "node"),
               ("struct __cds_wfcq_head", "node"), ("struct cds_wfcq_head", "node")}


# statement-level declaration macros: the declared object is a local that lives in (private) memory
DECL_MACROS = {"CDS_LIST_HEAD": "struct cds_list_head", "DEFINE_URCU_WAIT_NODE": "struct urcu_wait_node",
               "cmm_annotate_define": "cmm_annotate_t"}
# iteration macros over sequential containers: name -> (index of the cursor argument, index of the `safe` temporary or None,
# index of the first container argument).  The container itself is not modelled: the cursor values come from the oracle
# (events `ext "<macro>.first"` / `ext "<macro>.next"`), the loop structure and the body are translated.
LIST_LOOPS = {"cds_list_for_each_entry_safe": (0, 1, 2), "cds_list_for_each_entry": (0, None, 1),
              "cds_list_for_each_entry_reverse": (0, None, 1),
              "cds_wfs_for_each_blocking_safe": (1, 2, 0), "__cds_wfcq_for_each_blocking_safe": (2, 3, 0)}
# iteration macros whose `first` / `next` are lock-free accesses of the library itself: expanded as their definition in
# urcu/wfstack.h / urcu/wfcqueue.h says (first(container…), next(container…, cursor)), calling the static implementations
LOOP_FUNCS = {"cds_wfs_for_each_blocking_safe": ("_cds_wfs_first", "_cds_wfs_next_blocking", False),
              "__cds_wfcq_for_each_blocking_safe": ("___cds_wfcq_first_blocking", "___cds_wfcq_next_blocking", True)}


# caa_container_of(p, T, m) rendered as the identity (m is the first member; static-asserted); any other pair is `Expr.parent`
ZERO_CONTAINERS = {("struct cds_lfq_node_rcu_dummy", "parent"), ("struct urcu_wait_node", "node"), ("struct cds_wfs_head", "node"),
                   ("struct cds_lfs_head", "node")}


class Unsupported(Exception):
    pass


def strip_comments(s):
    s = re.sub(r"/\*.*?\*/", lambda m: " " * 0 + "\n" * m.group(0).count("\n"), s, flags=re.S)
    s = re.sub(r"//[^\n]*", "", s)
    return s.replace("\\\n", " ")


def find_function(text, name):
    """(return-type+params text, body text) of `static inline … name(…) {…}`"""
    for m in re.finditer(r"\b%s\s*\(" % re.escape(name), text):
        # must be a definition: walk back to a line start containing 'static' and forward to '{' after ')'
        i = m.end()
        depth = 1
        while depth and i < len(text):
            depth += {"(": 1, ")": -1}.get(text[i], 0)
            i += 1
        j = i
        while j < len(text) and text[j] in " \t\n":
            j += 1
        if j >= len(text) or text[j] != "{":
            continue
        back = text.rfind("static", 0, m.start())
        if back < 0 or ";" in text[back:m.start()] or "}" in text[back:m.start()]:
            # a non-static definition: `type name(` at the start of a line, nothing but the return type before it
            ls = text.rfind("\n", 0, m.start()) + 1
            before = text[ls:m.start()]
            if not re.match(r"^[A-Za-z_][\w\s\*]*$", before) and before.strip() != "":
                continue
            if before.strip() == "":
                pl = text.rfind("\n", 0, ls - 1) + 1
                if not re.match(r"^[A-Za-z_][\w\s\*]*$", text[pl:ls].strip() or "x"):
                    continue
        k = j + 1
        depth = 1
        while depth:
            depth += {"{": 1, "}": -1}.get(text[k], 0)
            k += 1
        return text[m.end():i - 1], text[j:k]
    return None


TOK = re.compile(r"\s*(\"(?:[^\"\\]|\\.)*\"|'(?:[^'\\]|\\.)'|0[xX][0-9a-fA-F]+[uUlL]*|\d+[uUlL]*|[A-Za-z_]\w*|->|\+\+|--|<<=|>>=|<<|>>|<=|>=|==|!=|&&|\|\||[-+*/%&|^]=|[-+*/%&|^~!<>=?:;,.(){}\[\]#])")


def tokenize(s):
    out, i = [], 0
    s = s.rstrip()
    while i < len(s):
        m = TOK.match(s, i)
        if not m:
            if s[i:].strip() == "":
                break
            raise Unsupported("cannot tokenize at: %r" % s[i:i + 30])
        out.append(m.group(1))
        i = m.end()
    return out


def expand_macros(toks, macros):
    """token-level expansion of the function-like macros in `macros` (name -> (params, body tokens))"""
    out, i, n = [], 0, 0
    while i < len(toks):
        t = toks[i]
        if t in macros and i + 1 < len(toks) and toks[i + 1] == "(":
            params, body = macros[t]
            j, depth, args, cur = i + 2, 1, [], []
            while depth:
                x = toks[j]
                if x == "(":
                    depth += 1
                elif x == ")":
                    depth -= 1
                    if depth == 0:
                        break
                if x == "," and depth == 1:
                    args.append(cur)
                    cur = []
                else:
                    cur.append(x)
                j += 1
            args.append(cur)
            if len(args) != len(params):
                raise Unsupported("macro %s arity" % t)
            sub = []
            for b in body:
                if b in params:
                    sub += ["("] + args[params.index(b)] + [")"]
                else:
                    sub.append(b)
            out += ["("] + expand_macros(sub, macros) + [")"]
            i = j + 1
            n += 1
        else:
            out.append(t)
            i += 1
    return out


def file_macros(text, names):
    out = {}
    for n in names:
        m = re.search(r"^[ \t]*#[ \t]*define[ \t]+%s\(([^)]*)\)[ \t]*(.*)$" % re.escape(n), text, re.M)
        if m:
            out[n] = ([x.strip() for x in m.group(1).split(",")], tokenize(m.group(2)))
    return out


# function-like macros expanded from their definition in the file of the function being translated
EXPAND = ["DQ_IS_FCT_BIT", "DQ_SET_FCT_BIT", "DQ_CLEAR_FCT_BIT"]


class Parser:
    def __init__(self, toks, tr):
        self.t, self.i, self.tr = toks, 0, tr

    def peek(self, k=0):
        return self.t[self.i + k] if self.i + k < len(self.t) else None

    def eat(self, x=None):
        tok = self.peek()
        if x is not None and tok != x:
            raise Unsupported("expected %r, got %r (…%s…)" % (x, tok, " ".join(self.t[max(0, self.i - 6):self.i + 4])))
        self.i += 1
        return tok

    def is_type_start(self, k=0):
        tok = self.peek(k)
        return tok is not None and (tok in TYPE_KW or (re.match(r"^[a-z_]\w*_t$", tok) is not None))

    # ---- expressions (Pratt) ----
    BIN = [("||", 1), ("&&", 2), ("|", 3), ("^", 4), ("&", 5), ("==", 6), ("!=", 6), ("<", 7), ("<=", 7), (">", 7),
           (">=", 7), ("<<", 8), (">>", 8), ("+", 9), ("-", 9), ("*", 10), ("/", 10), ("%", 10)]
    PREC = dict(BIN)

    def expr(self):
        return self.assign()

    def assign(self):
        lhs = self.cond()
        tok = self.peek()
        if tok == "=":
            self.eat()
            return ("assign", lhs, self.assign())
        if tok in ("+=", "-=", "|=", "&=", "^=", "*=", "/=", "%=", "<<=", ">>="):
            self.eat()
            return ("assign", lhs, ("bin", tok[:-1], lhs, self.assign()))
        return lhs

    def cond(self):
        c = self.binary(1)
        if self.peek() == "?":
            self.eat()
            a = self.expr()
            self.eat(":")
            b = self.cond()
            return ("ternary", c, a, b)
        return c

    def binary(self, minp):
        lhs = self.unary()
        while True:
            tok = self.peek()
            p = self.PREC.get(tok)
            if p is None or p < minp:
                return lhs
            self.eat()
            rhs = self.binary(p + 1)
            lhs = ("bin", tok, lhs, rhs)

    def skip_type_in_parens(self):
        depth = 1
        while depth:
            tok = self.eat()
            depth += {"(": 1, ")": -1}.get(tok, 0)

    def unary(self):
        tok = self.peek()
        if tok == "(" and self.is_type_start(1):
            self.eat("(")
            start = self.i
            self.skip_type_in_parens()
            ty = self.t[start:self.i - 1]
            e = self.unary()          # a cast: value unchanged in the IR
            if ty == ["unsigned", "long"] and e[0] == "id" and self.tr.lptr.get(e[1], 0) > 0 and e[1] in self.tr.locals:
                return ("ulcast", e)  # integer view of a pointer: `&` / `|` on it act on the pointer's tag bits
            return e
        if tok in ("!", "~", "-", "&", "*"):
            self.eat()
            return ("un", tok, self.unary())
        if tok == "++" or tok == "--":
            self.eat()
            e = self.unary()
            return ("assign", e, ("bin", tok[0], e, ("num", 1)))
        return self.postfix()

    def postfix(self):
        tok = self.eat()
        if tok == "sizeof":
            self.eat("(")
            start = self.i
            self.skip_type_in_parens()
            txt = " ".join(self.t[start:self.i - 1])
            m = re.match(r"^(\*\s*)?([A-Za-z_]\w*)$", txt)
            if m and m.group(2) in self.tr.ltypes and m.group(2) in self.tr.locals:
                # sizeof of a local / of what a local points to: the declared type, with its pointer depth
                depth = self.tr.lptr.get(m.group(2), 0) - (1 if m.group(1) else 0)
                if depth < 0:
                    raise Unsupported("sizeof(*x) of a non-pointer")
                txt = self.tr.ltypes[m.group(2)] + " " + "*" * depth
            e = ("cexpr", "sizeof(%s)" % txt, "SIZEOF_" + re.sub(r"\W+", "_", txt.replace("*", "P")).strip("_"))
        elif tok == "(":
            e = self.expr()
            self.eat(")")
        elif tok.startswith('"'):
            while (self.peek() or "").startswith('"'):
                self.eat()
            e = ("str",)
        elif tok.startswith("'"):
            e = ("num", ord(tok[1]) if len(tok) == 3 else 0)
        elif re.match(r"^(0[xX][0-9a-fA-F]+|\d+)[uUlL]*$", tok):
            e = ("num", int(re.sub(r"[uUlL]+$", "", tok), 0))
        elif re.match(r"^[A-Za-z_]\w*$", tok):
            e = ("id", tok)
        else:
            raise Unsupported("unexpected token %r" % tok)
        while True:
            tok = self.peek()
            if tok == "(":
                if e[0] == "member":
                    self.eat()
                    args = [e[1]] if False else []
                    if self.peek() != ")":
                        args.append(self.assign())
                        while self.peek() == ",":
                            self.eat()
                            args.append(self.assign())
                    self.eat(")")
                    e = ("call", "(*%s)" % e[2], [e] + args)      # indirect call through a function-pointer member
                    continue
                if e[0] != "id":
                    raise Unsupported("call through an expression")
                self.eat()
                name = e[1]
                if name in ("min_t", "max_t"):
                    while self.peek() != ",":
                        self.eat()
                    self.eat(",")
                    a = self.assign()
                    self.eat(",")
                    b = self.assign()
                    self.eat(")")
                    e = ("ternary", ("bin", "<" if name == "min_t" else ">", a, b), a, b)
                    continue
                if name in ("caa_container_of", "cds_list_entry", "cds_list_first_entry"):
                    a = self.assign()
                    self.eat(",")
                    ty = []
                    while self.peek() != ",":
                        ty.append(self.eat())
                    self.eat(",")
                    mem = self.eat()
                    self.eat(")")
                    if name == "cds_list_first_entry":
                        a = ("member", a, "next", True)          # cds_list_first_entry(head, T, m) = cds_list_entry((head)->next, T, m)
                    e = ("container_of", a, " ".join(ty), mem)
                    continue
                args = []
                if self.peek() != ")":
                    args.append(self.assign())
                    while self.peek() == ",":
                        self.eat()
                        args.append(self.assign())
                self.eat(")")
                e = ("call", name, args)
            elif tok == "->":
                self.eat()
                e = ("member", e, self.eat(), True)
            elif tok == ".":
                self.eat()
                e = ("member", e, self.eat(), False)
            elif tok in ("++", "--"):
                self.eat()
                e = ("postinc", e, tok[0])
            elif tok == "[":
                self.eat()
                i = self.expr()
                self.eat("]")
                e = ("index", e, i)
            else:
                return e

    # ---- statements ----
    def block(self):
        self.eat("{")
        out = []
        while self.peek() != "}":
            out.append(self.stmt())
        self.eat("}")
        return ("block", out)

    def decl(self):
        self._tystart = self.i
        # type tokens up to the first declarator: consume while type-ish, then declarators separated by commas
        while self.is_type_start() or (self.peek(1) is not None and self.peek() not in ("*",) and re.match(r"^[A-Za-z_]\w*$", self.peek() or "") and (self.peek(1) == "*" or re.match(r"^[A-Za-z_]\w*$", self.peek(1) or "")) and self.peek(1) not in ("=",)):
            prev = self.eat()
            if prev in ("struct", "union", "enum"):
                self.eat()
        if self.peek() == "(" and self.peek(1) == "*":
            # function-pointer local: `ret (*name)(params);`
            self.eat(); self.eat()
            name = self.eat()
            self.eat(")")
            self.eat("(")
            self.skip_type_in_parens()
            self.tr.locals.add(name)
            if self.peek() == "=":
                self.eat()
                e = self.assign()
                self.eat(";")
                return ("block", [("expr", ("assign", ("id", name), e))])
            self.eat(";")
            return ("block", [("declonly", name)])
        out = []
        tystart = getattr(self, "_tystart", self.i)
        tytxt = " ".join(x for x in self.t[tystart:self.i] if x not in ("const", "volatile", "static", "register"))
        while True:
            stars = 0
            while self.peek() in ("*", "const"):
                if self.eat() == "*":
                    stars += 1
            name = self.eat()
            self.tr.ltypes[name] = tytxt
            self.tr.lptr[name] = stars
            if not re.match(r"^[A-Za-z_]\w*$", name):
                raise Unsupported("declarator %r" % name)
            self.tr.locals.add(name)
            if self.peek() == "=" and self.peek(1) == "{":
                self.eat(); self.eat()
                fields = []
                while self.peek() != "}":
                    if self.peek() == "#":
                        raise Unsupported("preprocessor line inside an initializer")
                    self.eat(".")
                    f = self.eat()
                    self.eat("=")
                    fields.append((f, self.assign()))
                    if self.peek() == ",":
                        self.eat()
                self.eat("}")
                out.append(("structinit", name, fields))
            elif self.peek() == "=":
                self.eat()
                out.append(("expr", ("assign", ("id", name), self.assign())))
            else:
                out.append(("declonly", name))
            if self.peek() == ",":
                self.eat()
                continue
            self.eat(";")
            return ("block", out)

    def looks_like_decl(self):
        if self.is_type_start():
            return True
        a, b, c = self.peek(), self.peek(1), self.peek(2)
        ident = lambda x: x is not None and re.match(r"^[A-Za-z_]\w*$", x) is not None
        return ident(a) and ((ident(b) and c in ("=", ";", ",")) or (b == "*" and ident(c) and self.peek(3) in ("=", ";", ",")))

    def stmt(self):
        tok = self.peek()
        if tok == "{":
            return self.block()
        if tok == ";":
            self.eat()
            return ("block", [])
        if tok == "if":
            self.eat()
            self.eat("(")
            c = self.expr()
            self.eat(")")
            a = self.stmt()
            b = ("block", [])
            if self.peek() == "else":
                self.eat()
                b = self.stmt()
            return ("if", c, a, b)
        if tok == "for":
            self.eat()
            self.eat("(")
            if self.peek() == ";" and self.peek(1) == ";" and self.peek(2) == ")":
                self.eat(); self.eat(); self.eat()
                return ("loop", self.stmt())
            init = None if self.peek() == ";" else self.expr()
            self.eat(";")
            cond = ("num", 1) if self.peek() == ";" else self.expr()
            self.eat(";")
            step = None if self.peek() == ")" else self.expr()
            self.eat(")")
            body = self.stmt()
            out = []
            if init is not None:
                out.append(("expr", init))
            if contains_kind(body, "continue") and step is not None:
                # `continue` must still run the step: the body becomes a one-trip loop that `continue` leaves; a `break` of the
                # body leaves the for loop through a flag
                self.tr.forn = getattr(self.tr, "forn", 0) + 1
                bflag = "_forbrk%d" % self.tr.forn
                self.tr.locals.add(bflag)
                body2 = subst_break_continue(body, bflag)
                inner = ("loop", ("block", [body2, ("break",)]))
                out.append(("expr", ("assign", ("id", bflag), ("num", 0))))
                out.append(("while", cond, ("block", [inner, ("if", ("id", bflag), ("break",), ("block", [])), ("expr", step)])))
                return ("block", out)
            out.append(("while", cond, ("block", [body] + ([("expr", step)] if step is not None else []))))
            return ("block", out)
        if tok == "switch":
            self.eat()
            self.eat("(")
            e = self.expr()
            self.eat(")")
            self.eat("{")
            cases = []          # (list of label exprs or "default", [stmts])
            while self.peek() != "}":
                labels = []
                while self.peek() in ("case", "default"):
                    if self.eat() == "case":
                        labels.append(self.cond())
                    else:
                        labels.append("default")
                    self.eat(":")
                if not labels:
                    raise Unsupported("statement before the first case label")
                body = []
                while self.peek() not in ("case", "default", "}"):
                    body.append(self.stmt())
                cases.append((labels, body))
            self.eat("}")
            return ("switch", e, cases)
        if tok == "goto":
            self.eat()
            l = self.eat()
            self.eat(";")
            return ("goto", l)
        if re.match(r"^[A-Za-z_]\w*$", tok or "") and self.peek(1) == ":" and tok not in ("case", "default"):
            self.eat(); self.eat()
            return ("label", tok)
        if tok == "while":
            self.eat()
            self.eat("(")
            c = self.expr()
            self.eat(")")
            return ("while", c, self.stmt())
        if tok == "do":
            self.eat()
            body = self.stmt()
            self.eat("while")
            self.eat("(")
            c = self.expr()
            self.eat(")")
            self.eat(";")
            return ("dowhile", body, c)
        if tok == "return":
            self.eat()
            if self.peek() == ";":
                self.eat()
                return ("return", None)
            e = self.expr()
            self.eat(";")
            return ("return", e)
        if tok == "break":
            self.eat(); self.eat(";")
            return ("break",)
        if tok == "continue":
            self.eat(); self.eat(";")
            return ("continue",)
        if tok in DECL_MACROS and self.peek(1) == "(":
            self.eat(); self.eat("(")
            args = [self.assign()]
            while self.peek() == ",":
                self.eat()
                args.append(self.assign())
            self.eat(")")
            self.eat(";")
            name = args[0][1]
            self.tr.locals.add(name)
            self.tr.ltypes[name] = DECL_MACROS[tok]
            return ("declmacro", tok, name, args[1:])
        if tok in LIST_LOOPS and self.peek(1) == "(":
            self.eat(); self.eat("(")
            args = [self.assign()]
            while self.peek() == ",":
                self.eat()
                args.append(self.assign())
            self.eat(")")
            return ("listloop", tok, args, self.stmt())
        if self.looks_like_decl():
            return self.decl()
        e = self.expr()
        self.eat(";")
        return ("expr", e)


def lstr(s):
    return '"' + s + '"'


def pp_key(cond):
    import hashlib
    return "PP_" + hashlib.sha1(re.sub(r"\s+", " ", cond.strip()).encode()).hexdigest()[:12]


def strip_conditionals(text, defines, consts=None):
    """file-level #ifdef/#ifndef/#if defined(X)/#else/#endif resolved for the given set of defined names; a condition of any
    other form keeps its first branch and drops the #else branch (recorded by the caller through `unknown`)"""
    out, stack, unknown = [], [], []
    for line in text.split("\n"):
        m = re.match(r"^\s*#\s*(ifdef|ifndef|if|elif|else|endif)\b(.*)$", line)
        if not m:
            out.append(line if all(stack) else "")
            continue
        d, rest = m.group(1), m.group(2).strip()
        if d in ("ifdef", "ifndef"):
            v = (rest.split()[0] in defines)
            stack.append(v if d == "ifdef" else not v)
        elif d == "if":
            mm = re.match(r"^!?\s*defined\s*\(?\s*(\w+)\s*\)?\s*$", rest)
            if mm:
                v = mm.group(1) in defines
                stack.append((not v) if rest.startswith("!") else v)
            else:
                unknown.append(rest)
                v = (consts or {}).get(pp_key(rest))
                stack.append(True if v is None else (str(v) != "0"))
        elif d == "elif":
            unknown.append(rest)
            if stack:
                stack[-1] = False
        elif d == "else":
            if stack:
                stack[-1] = not stack[-1]
        elif d == "endif":
            if stack:
                stack.pop()
        out.append("")
    return "\n".join(out), unknown


# callees deliberately kept opaque (list traversals …): their result comes from the oracle, event `ext name`
OPAQUE = {"bit_reverse_ulong", "cds_lfht_fls_ulong", "cds_lfht_get_count_order_ulong", "cds_lfht_get_count_order_u32",
          "rcu_defer_num_callbacks", "mutex_lock", "mutex_unlock", "mutex_lock_defer", "get_call_rcu_data", "membarrier"}
# public names that, under _LGPL_SOURCE (how src/*.c is compiled), are macros for the static-inline implementation
ALIASES_STATIC = {"rcu_read_lock": "_rcu_read_lock", "rcu_read_unlock": "_rcu_read_unlock"}
ALIASES = dict(ALIASES_STATIC)


def lgpl_aliases():
    """`#define public_name _static_name` lines of the public headers (their _LGPL_SOURCE branch, which is how src/*.c and
    the harnesses are compiled), read from the header text"""
    out = {}
    for h in ["wfstack.h", "wfcqueue.h", "lfstack.h", "rculfqueue.h", "rculfstack.h", "wfqueue.h"]:
        try:
            txt = strip_comments(open(os.path.join(REPO, "include", "urcu", h)).read())
        except OSError:
            continue
        for m in re.finditer(r"^[ \t]*#[ \t]*define[ \t]+(\w+)[ \t]+(_\w+)[ \t]*$", txt, re.M):
            out[m.group(1)] = m.group(2)
    return out


def predefined_macros():
    """names the C compiler predefines (`gcc -dM -E`): `#ifdef __linux__` etc. of the .c files are resolved with them"""
    import subprocess
    try:
        out = subprocess.run(["gcc", "-dM", "-E", "-"], input=b"", stdout=subprocess.PIPE, stderr=subprocess.DEVNULL, timeout=30).stdout.decode()
    except Exception:
        return set()
    return set(re.findall(r"^#define\s+(\w+)", out, re.M))


_PREDEF = None


class Translator:
    def __init__(self, defines=(), own_files=(), prefix="", search=None, consts=None, opaque=()):
        global ALIASES, _PREDEF
        if _PREDEF is None:
            _PREDEF = predefined_macros()
        defines = set(defines) | _PREDEF
        self.opaque = set(opaque)
        ALIASES = dict(lgpl_aliases(), **ALIASES_STATIC)
        self.texts = {}
        self.pp_unknown = []
        self.defines, self.own_files, self.prefix = set(defines), set(own_files), prefix
        self.search = list(search or SEARCH)
        for f in self.search:
            t = strip_comments(open(os.path.join(REPO, f)).read())
            if f in self.own_files:
                t, unk = strip_conditionals(t, self.defines, consts)
                self.pp_unknown += [(f, u) for u in unk]
                if self.prefix == "bp.":
                    # the flavor map (include/urcu/map/urcu-bp.h) renames the generic object names of the .c text; the static
                    # header functions already use the mapped names, so both must name the same location
                    try:
                        mp = strip_comments(open(os.path.join(REPO, "include/urcu/map/urcu-bp.h")).read())
                    except OSError:
                        mp = ""
                    for gen in ("rcu_gp", "rcu_reader"):
                        mm = re.search(r"^[ \t]*#[ \t]*define[ \t]+%s[ \t]+(\w+)[ \t]*$" % gen, mp, re.M)
                        if mm:
                            t = re.sub(r"\b%s\b" % gen, mm.group(1), t)
            self.texts[f] = t
        self.defs = {}          # name -> (params, lean stmt text)
        self.order = []
        self.consts = {}        # NAME -> value (pass 2) / None
        self.need_consts = set()
        self.zero_offsets = set()
        self.cexprs = {}
        self.lptr = {}
        self.define_files = set()
        self.local_consts = {}
        self.ltypes = {}
        self.api = api_defaults()
        self.memlocals = set()
        self.structparams = set()
        self.struct_locals = set()
        self.struct_fields = {}
        self.goto_labels = set()
        self.loop_depth = 0
        self.loop_labels = []
        self.cur_file = None
        self.cur_params = []
        self.locals = set()
        self.tmpn = 0
        self.inprogress = []

    def lookup(self, name, hint=None):
        files = ([hint] if hint else []) + [f for f in self.search if f != hint]
        for f in files:
            r = find_function(self.texts[f], name)
            if r:
                return f, r
        return None

    def function(self, name, hint=None):
        if name in self.defs:
            return True
        if name in self.inprogress:
            raise Unsupported("recursion through %s" % name)
        r = self.lookup(name, hint)
        if r is None:
            return False
        f, (ptxt, body) = r
        saved_file = self.cur_file
        self.cur_file = f
        saved_params = getattr(self, "cur_params", [])
        if "#" in body:
            raise Unsupported("%s: preprocessor conditional inside the body" % name)
        params = []
        ptxt = ptxt.strip()
        if ptxt and ptxt != "void":
            pieces, depth, cur = [], 0, ""
            for ch in ptxt:
                depth += {"(": 1, ")": -1}.get(ch, 0)
                if ch == "," and depth == 0:
                    pieces.append(cur)
                    cur = ""
                else:
                    cur += ch
            pieces.append(cur)
            for p in pieces:
                fp = re.search(r"\(\s*\*\s*([A-Za-z_]\w*)\s*\)", p)       # function-pointer parameter `ret (*name)(args)`
                ids = [fp.group(1)] if fp else re.findall(r"[A-Za-z_]\w*", re.sub(r"__attribute__\s*\(\(.*?\)\)", "", p))
                params.append(ids[-1])
                self.ltypes[ids[-1]] = " ".join(x for x in ids[:-1] if x not in ("const", "volatile"))
                self.lptr[ids[-1]] = p.count("*")
        saved = (self.locals, self.tmpn, self.memlocals)
        saved_sp = (self.structparams, self.struct_locals)
        self.cur_params = list(params)
        self.locals, self.tmpn, self.memlocals = set(params), 0, set()
        self.inprogress.append(name)
        saved_g = (self.goto_labels, self.loop_depth)
        self.goto_labels, self.loop_depth = set(), 0
        try:
            toks = tokenize(body)
            mac = file_macros(self.texts[f], EXPAND)
            if mac:
                toks = expand_macros(toks, mac)
            ast = Parser(toks, self).block()
            self.memlocals = (set(address_taken(ast)) | set(declmacro_names(ast)) | (set(dot_locals(ast)) - set(params))) & self.locals
            self.structparams = set(dot_locals(ast)) & set(params)
            self.struct_locals = set(dot_locals(ast)) - set(params)
            if self.memlocals & set(params):
                raise Unsupported("address of a parameter")
            stmts = self.stmt(ast)
            for l in sorted(self.goto_labels):
                if not contains_label(ast, l):
                    raise Unsupported("goto to a label outside the function")
                self.locals.add("_goto_" + l)
            stmts = [".assign %s (.lit 0)" % lstr("_goto_" + l) for l in sorted(self.goto_labels)] + stmts
        except Unsupported as e:
            raise Unsupported("%s (%s): %s" % (name, f, e))
        finally:
            self.inprogress.pop()
            self.structparams, self.struct_locals = saved_sp
            self.cur_file = saved_file
            self.cur_params = saved_params
            self.goto_labels, self.loop_depth = saved_g
            self.locals, self.tmpn, self.memlocals = saved
        self.defs[name] = (params, stmts, f)
        self.order.append(name)
        return True

    def qual(self, name):
        return (self.prefix + name) if self.defs[name][2] in self.own_files else name

    def tmp(self):
        self.tmpn += 1
        return "_t%d" % self.tmpn

    # ---- lvalues / rvalues; each returns (prelude statement list, Lean Expr text) ----
    def addr(self, e):
        k = e[0]
        if k == "id":
            if e[1] in self.locals:
                if e[1] in self.structparams:
                    return [], ".var %s" % lstr(e[1])        # a struct passed by value: represented by its address
                if e[1] in self.memlocals:
                    return [], ".addrGlob %s" % lstr("&" + e[1])
                raise Unsupported("address of local %s" % e[1])
            return [], ".addrGlob %s" % lstr(e[1])
        if k == "call" and e[1] == "URCU_TLS":
            if len(e[2]) != 1 or e[2][0][0] != "id":
                raise Unsupported("URCU_TLS argument")
            return [], ".addrTls %s" % lstr(e[2][0][1])
        if k == "member":
            if e[3] and e[1][0] == "id" and (self.ltypes.get(e[1][1]), e[2]) in ZERO_FIELDS:
                self.zero_offsets.add((self.ltypes[e[1][1]], e[2]))
                return self.rv(e[1])        # &p->first_member == p, also when p is a small-integer sentinel (CDS_WFS_END)
            if e[3]:
                p, b = self.rv(e[1])
            else:
                p, b = self.addr(e[1])
            return p, ".fieldAddr (%s) %s" % (b, lstr(e[2]))
        if k == "un" and e[1] == "*":
            return self.rv(e[2])
        if k == "index":
            # element i of an array object / pointer: `&a[i]`
            if e[1][0] == "id" and e[1][1] not in self.locals:
                pb, b = [], ".addrGlob %s" % lstr(e[1][1])
            elif e[1][0] == "member" and not (e[1][1][0] == "id" and False):
                pb, b = self.addr(e[1])            # array member: its address is the base
            else:
                pb, b = self.rv(e[1])
            pi, i = self.rv(e[2])
            return pb + pi, ".index (%s) (%s)" % (b, i)
        raise Unsupported("not an lvalue: %r" % (e,))

    def rv(self, e):
        k = e[0]
        if k == "num":
            return [], ".lit %d" % e[1]
        if k == "id":
            n = e[1]
            if n in self.memlocals and n in self.locals:
                return [], ".pload (.addrGlob %s)" % lstr("&" + n)
            if n in self.locals:
                return [], ".var %s" % lstr(n)
            if n == "NULL":
                return [], ".null"
            if n == "errno":
                # the error code of the preceding external call: a value of the oracle (event `ext "errno"`)
                t = self.tmp()
                self.locals.add(t)
                return [".prim (some %s) (.ext \"errno\") []" % lstr(t)], ".var %s" % lstr(t)
            if n in ("true", "false"):
                return [], ".lit %d" % (1 if n == "true" else 0)
            if re.match(r"^[A-Z][A-Z0-9_]*$", n):
                key = n
                for f in list(self.own_files) + ([self.cur_file] if self.cur_file and self.cur_file.startswith("src/") else []):
                    m = re.search(r"^[ \t]*#[ \t]*define[ \t]+%s[ \t]+(.+)$" % re.escape(n), self.texts[f], re.M)
                    if m:
                        # a constant local to a .c / private header: its #define text is copied into the constants program
                        key = (self.prefix + n) if f in self.own_files else n
                        self.local_consts[key] = m.group(1).strip()
                        if f not in self.own_files:
                            self.define_files.add(f)
                        break
                if key not in self.local_consts:
                    self.need_consts.add(n)
                v = self.consts.get(key)
                return [], ".cst %s (%s)" % (lstr(key), v if v is not None else "0")
            if any(find_function(t, n) for t in self.texts.values()):
                return [], ".addrGlob %s" % lstr(n)                 # function designator
            return [], ".pload (.addrGlob %s)" % lstr(n)        # plain read of a global
        if k == "member":
            # transparent unions handed by value: `u_stack._s` of a local is the pointer itself
            if not e[3] and e[1][0] == "id" and e[1][1] in self.locals and e[2].startswith("_"):
                return [], ".var %s" % lstr(e[1][1])
            p, a = self.addr(e)
            return p, ".pload (%s)" % a
        if k == "ulcast":
            return self.rv(e[1])
        if k == "str":
            return [], ".lit 0"          # a string literal (only ever an argument of diagnostics): no value in the IR
        if k == "index":
            p, a = self.addr(e)
            return p, ".pload (%s)" % a
        if k == "ternary":
            pc, c = self.rv(e[1])
            pa, a = self.rv(e[2])
            pb, b = self.rv(e[3])
            t = self.tmp()
            self.locals.add(t)
            return pc + [".ifte (%s) (%s) (%s)" % (c, self.blk(pa + [".assign %s (%s)" % (lstr(t), a)]),
                                                   self.blk(pb + [".assign %s (%s)" % (lstr(t), b)]))], ".var %s" % lstr(t)
        if k == "container_of":
            if (e[2], e[3]) in ZERO_FIELDS or (e[2], e[3]) in ZERO_CONTAINERS:
                self.zero_offsets.add((e[2], e[3]))
                return self.rv(e[1])
            p, a = self.rv(e[1])
            return p, ".parent (%s) %s" % (a, lstr(e[3]))
        if k == "cexpr":
            self.cexprs[e[2]] = e[1]
            v = self.consts.get(e[2])
            return [], ".cst %s (%s)" % (lstr(e[2]), v if v is not None else "0")
        if k == "un":
            if e[1] == "&":
                return self.addr(e[2])
            if e[1] == "*":
                p, a = self.rv(e[2])
                return p, ".pload (%s)" % a
            if e[1] == "~" and e[2][0] == "id" and re.match(r"^[A-Z][A-Z0-9_]*$", e[2][1]):
                if self.cur_file and self.cur_file.startswith("src/") and self.cur_file not in self.own_files:
                    self.define_files.add(self.cur_file)
                # complement of a named constant: evaluated by the C compiler as an unsigned long
                key = "NOT_" + e[2][1]
                self.cexprs[key] = "~(unsigned long)(%s)" % e[2][1]
                v = self.consts.get(key)
                return [], ".cst %s (%s)" % (lstr(key), v if v is not None else "0")
            p, a = self.rv(e[2])
            op = {"!": "lnot", "~": "bnot", "-": "neg"}[e[1]]
            if e[1] == "-" and e[2][0] == "num":
                return [], ".lit (-%d)" % e[2][1]
            return p, ".un .%s (%s)" % (op, a)
        if k == "bin":
            ops = {"+": "add", "-": "sub", "&": "band", "|": "bor", "^": "bxor", "<<": "shl", ">>": "shr", "==": "eq",
                   "!=": "ne", "<": "lt", "<=": "le", ">": "gt", ">=": "ge", "&&": "land", "||": "lor",
                   "*": "mul", "/": "div", "%": "mod"}
            if e[1] not in ops:
                raise Unsupported("operator %s" % e[1])
            p1, a = self.rv(e[2])
            p2, b = self.rv(e[3])
            if e[1] in ("&", "|") and is_ptrview(e[2]) and self.prefix == "lfht.":
                return p1 + p2, ".bin .%s (%s) (%s)" % ("tagand" if e[1] == "&" else "tagor", a, b)
            if e[1] in ("&&", "||") and p2:
                # right operand has effects: keep the short circuit
                t = self.tmp()
                self.locals.add(t)
                asg = lambda x: ".assign %s (%s)" % (lstr(t), x)
                truth = ".un .lnot (.un .lnot (%s))"
                if e[1] == "&&":
                    st = ".ifte (%s) (%s) (%s)" % (a, self.blk(p2 + [asg(truth % b)]), asg(".lit 0"))
                else:
                    st = ".ifte (%s) (%s) (%s)" % (a, asg(".lit 1"), self.blk(p2 + [asg(truth % b)]))
                return p1 + [st], ".var %s" % lstr(t)
            return p1 + p2, ".bin .%s (%s) (%s)" % (ops[e[1]], a, b)
        if k == "assign" and e[2][0] == "id" and e[2][1] in self.struct_fields and e[2][1] in self.memlocals:
            # whole-struct copy from a local struct whose members are known (from its initializer): member-wise
            pa, a = self.addr(e[1])
            out = list(pa)
            for f in self.struct_fields[e[2][1]]:
                t = self.tmp()
                self.locals.add(t)
                out += [".assign %s (.pload (.fieldAddr (.addrGlob %s) %s))" % (lstr(t), lstr("&" + e[2][1]), lstr(f)),
                        ".pstore (.fieldAddr (%s) %s) (.var %s)" % (a, lstr(f), lstr(t))]
            return out, ".lit 0"
        if k == "assign":
            p, v = self.rv(e[2])
            lhs = e[1]
            if lhs[0] == "id" and lhs[1] in self.locals and lhs[1] not in self.memlocals:
                return p + [".assign %s (%s)" % (lstr(lhs[1]), v)], ".var %s" % lstr(lhs[1])
            pa, a = self.addr(lhs)
            t = self.tmp()
            self.locals.add(t)
            return p + pa + [".assign %s (%s)" % (lstr(t), v), ".pstore (%s) (.var %s)" % (a, lstr(t))], ".var %s" % lstr(t)
        if k == "postinc":
            lhs = e[1]
            if lhs[0] == "id" and lhs[1] in self.locals and lhs[1] not in self.memlocals:
                t = self.tmp()
                self.locals.add(t)
                op = "add" if e[2] == "+" else "sub"
                return [".assign %s (.var %s)" % (lstr(t), lstr(lhs[1])),
                        ".assign %s (.bin .%s (.var %s) (.lit 1))" % (lstr(lhs[1]), op, lstr(lhs[1]))], ".var %s" % lstr(t)
            pa, a = self.addr(lhs)
            t = self.tmp()
            self.locals.add(t)
            op = "add" if e[2] == "+" else "sub"
            return pa + [".assign %s (.pload (%s))" % (lstr(t), a),
                         ".pstore (%s) (.bin .%s (.var %s) (.lit 1))" % (a, op, lstr(t))], ".var %s" % lstr(t)
        if k == "call":
            return self.call(e, want_value=True)
        raise Unsupported("expression %r" % (e,))

    def args(self, es):
        pre, out = [], []
        for a in es:
            p, v = self.rv(a)
            pre += p
            out.append(v)
        return pre, "[" + ", ".join(out) + "]"

    def call(self, e, want_value):
        name, args = ALIASES.get(e[1], e[1]), e[2]
        if name in self.locals and name not in self.cur_params:
            # call through a function-pointer local: an external call whose first argument is the function value
            pre, a = self.args([("id", name)] + list(args))
            if want_value:
                t = self.tmp()
                self.locals.add(t)
                return pre + [".prim (some %s) (.ext \"(*)\") %s" % (lstr(t), a)], ".var %s" % lstr(t)
            return pre + [".prim none (.ext \"(*)\") %s" % a], None
        if name in IDENTITY_CALLS:
            return self.rv(args[0])
        if name in IGNORED_CALLS:
            if want_value:
                raise Unsupported("value of %s" % name)
            return [], None
        if name == "cmm_emit_legacy_smp_mb":
            # urcu/arch.h: cmm_smp_mb() iff CONFIG_RCU_EMIT_LEGACY_MB; the configuration is a pseudo-global of the private view
            if want_value:
                raise Unsupported("value of %s" % name)
            return ['.ifte (.pload (.addrGlob "CONFIG_RCU_EMIT_LEGACY_MB")) (.prim none .mb []) (.skip)'], None
        if name.startswith("cmm_smp_mb__before_uatomic_") or name.startswith("cmm_smp_mb__after_uatomic_"):
            # x86 and generic: cmm_barrier()
            if want_value:
                raise Unsupported("value of %s" % name)
            return [".prim none .barrier []"], None
        if name == "urcu_posix_assert":
            # assert() of <assert.h>, compiled in (no NDEBUG): its argument is evaluated.  Without shared accesses in it that
            # is invisible (nothing emitted); with them the accesses happen and a false condition aborts.
            if want_value:
                raise Unsupported("value of %s" % name)
            p, v = self.rv(args[0])
            if not p:
                return [], None
            return p + [".ifte (%s) (.skip) (.prim none (.ext \"abort\") [])" % v], None
        if name in ASSERT_CALLS:
            p, v = self.rv(args[0])
            if p:
                raise Unsupported("assertion with effects")
            return [".assertDbg (%s)" % v], None
        if name == "URCU_TLS":
            p, a = self.addr(e)
            return p, ".pload (%s)" % a
        if name in PRIMS:
            prim, nargs, hasval, nmo = PRIMS[name]
            if isinstance(nmo, str):
                mos = [("num", 7)] if nmo == "7" else [("id", nmo)]
                if name in ("rcu_set_pointer", "rcu_assign_pointer") and len(args) == 2 and args[1] == ("id", "NULL"):
                    mos = [("id", "CMM_RELAXED")]
                if len(args) != nargs:
                    raise Unsupported("%s with %d arguments" % (name, len(args)))
            else:
                mos = args[nargs:]
                args = args[:nargs]
                if len(args) != nargs or len(mos) > nmo or any(not (m[0] == "id" and m[1] in MO_NAMES) for m in mos):
                    raise Unsupported("%s with these arguments" % name)
                if len(mos) < nmo:
                    if name.endswith("_mo"):
                        raise Unsupported("%s without its memory order" % name)
                    d = self.api.get(name)
                    if d is None or len(d) < nmo:
                        raise Unsupported("no default memory order for %s in uatomic/api.h" % name)
                    mos = mos + [("id", x) for x in d[len(mos):nmo]]
            pre = []
            vals = []
            if prim.endswith("*"):
                prim = prim[:-1]
                p, a = self.addr(args[0])
                pre += p
                vals.append(a)
                rest = args[1:]
            else:
                rest = args
            for a in rest:
                p, v = self.rv(a)
                pre += p
                vals.append(v)
            for m in mos:
                vals.append(self.rv(m)[1])
            if want_value and not hasval:
                raise Unsupported("value of %s" % name)
            if hasval and want_value:
                t = self.tmp()
                self.locals.add(t)
                return pre + [".prim (some %s) .%s [%s]" % (lstr(t), prim, ", ".join(vals))], ".var %s" % lstr(t)
            return pre + [".prim none .%s [%s]" % (prim, ", ".join(vals))], None
        args = [a for a in args if not (a[0] == "id" and a[1] in MO_NAMES)]
        saved = (self.locals, self.tmpn)
        if name not in OPAQUE and name not in self.opaque and self.function(name):
            self.locals, self.tmpn = saved
            params = self.defs[name][0]
            if len(params) != len(args):
                raise Unsupported("%s: arity" % name)
            pre, a = self.args(args)
            plist = "[" + ", ".join(lstr(p) for p in params) + "]"
            if want_value:
                t = self.tmp()
                self.locals.add(t)
                return pre + [".call (some %s) %s %s %s" % (lstr(t), plist, a, lname(self.qual(name)))], ".var %s" % lstr(t)
            return pre + [".call none %s %s %s" % (plist, a, lname(self.qual(name)))], None
        self.locals, self.tmpn = saved
        # external function: arguments evaluated, result from the oracle
        pre, a = self.args(args)
        if want_value:
            t = self.tmp()
            self.locals.add(t)
            return pre + [".prim (some %s) (.ext %s) %s" % (lstr(t), lstr(name), a)], ".var %s" % lstr(t)
        return pre + [".prim none (.ext %s) %s" % (lstr(name), a)], None

    def blk(self, stmts):
        stmts = [(".assign %s (.lit 0)" % lstr("_goto_" + x[1])) if isinstance(x, tuple) else x for x in stmts]
        if not stmts:
            return ".skip"
        if len(stmts) == 1:
            return stmts[0]
        return "block [" + ", ".join("(%s)" % s if not s.startswith("(") else s for s in stmts) + "]"

    def stmt_list(self, stmts):
        """a block: forward gotos become flags; what follows a statement that may have jumped is guarded by the pending
        flags until the label is reached (inside a loop the guard leaves the loop); the flag is cleared at its label"""
        out = []
        pending = set()
        i = 0
        while i < len(stmts):
            x = stmts[i]
            if x[0] == "label":
                pending.discard(x[1])
                if x[1] in self.goto_labels or True:
                    out.append(("LABEL", x[1]))
                i += 1
                continue
            if pending:
                j = i
                while j < len(stmts) and not (stmts[j][0] == "label" and stmts[j][1] in pending):
                    j += 1
                guarded = stmts[i:j]
                later = set(y[1] for y in stmts[j:] if y[0] == "label")
                inside = sorted(f for f in pending if f in later)        # label further down in this block: skip to it
                outside = sorted(f for f in pending if f not in later)   # label in an enclosing block: leave this block

                def disj(flags):
                    c = ".var %s" % lstr("_goto_" + flags[0])
                    for f in flags[1:]:
                        c = ".bin .lor (%s) (.var %s)" % (c, lstr("_goto_" + f))
                    return c
                inner = self.blk(self.stmt_list(list(guarded)))
                if inside:
                    inner = ".ifte (%s) (.skip) (%s)" % (disj(inside), inner)
                if outside:
                    inner = ".ifte (%s) (%s) (%s)" % (disj(outside), ".brk" if self.loop_depth > 0 else ".skip", inner)
                out.append(inner)
                for y in guarded:
                    pending |= (gotos_in(y) - labels_in(y))
                # labels inside the guarded region were consumed there
                pending -= set(l for y in guarded for l in labels_in(y))
                i = j
                continue
            out += self.stmt(x)
            pending |= (gotos_in(x) - labels_in(x))
            i += 1
        # resolve label markers: clear the flag where its label stands (only for labels some goto targets; decided at the end
        # of the function, so keep markers as tuples until function() finalises them)
        return out

    def stmt(self, s):
        """returns a list of Lean Stmt texts"""
        k = s[0]
        if k == "block":
            return self.stmt_list(list(s[1]))
        if k == "declonly":
            return []
        if k == "label":
            return []
        if k == "structinit":
            self.struct_fields[s[1]] = [f for f, _ in s[2]]
            out = []
            for f, e in s[2]:
                p, v = self.rv(e)
                out += p + [".pstore (.fieldAddr (.addrGlob %s) %s) (%s)" % (lstr("&" + s[1]), lstr(f), v)]
            return out
        if k == "declmacro":
            if s[1] == "DEFINE_URCU_WAIT_NODE" and s[3]:
                p, v = self.rv(s[3][0])
                return p + [".pstore (.fieldAddr (.addrGlob %s) \"state\") (%s)" % (lstr("&" + s[2]), v)]
            return []
        if k == "listloop":
            ci, ti, hi = LIST_LOOPS[s[1]]
            args = s[2]
            cur = args[ci]
            if cur[0] != "id" or cur[1] not in self.locals:
                raise Unsupported("list cursor is not a local")
            pre, hv = self.args([a for j, a in enumerate(args) if j >= hi and j not in (ci, ti) and not (j > hi and a[0] == "id" and a[1] not in self.locals and j == len(args) - 1)])
            it = self.tmp()
            self.locals.add(it)
            body_has_cont = contains_kind(s[3], "continue")
            self.loop_depth += 1
            try:
                body = self.stmt(s[3])
            finally:
                self.loop_depth -= 1
            cont_args = [a for j, a in enumerate(args) if j >= hi and j not in (ci, ti) and not (j > hi and a[0] == "id" and a[1] not in self.locals and j == len(args) - 1)]
            if s[1] in LOOP_FUNCS:
                ffn, nfn, next_takes_container = LOOP_FUNCS[s[1]]
                p1, fv = self.call(("call", ffn, cont_args), want_value=True)
                nargs = (cont_args if next_takes_container else []) + [cur]
                p2, nv = self.call(("call", nfn, nargs), want_value=True)
                first_stmts = p1 + [".assign %s (%s)" % (lstr(it), fv)]
                next_stmts = p2 + [".assign %s (%s)" % (lstr(it), nv)]
                pre = []
            else:
                first_stmts = [".prim (some %s) (.ext %s) %s" % (lstr(it), lstr(s[1] + ".first"), hv)]
                next_stmts = [".prim (some %s) (.ext %s) (%s ++ [.var %s])" % (lstr(it), lstr(s[1] + ".next"), hv, lstr(cur[1]))]
            head = [".assign %s (.var %s)" % (lstr(cur[1]), lstr(it)),
                    ".ifte (.var %s) (.skip) (.brk)" % lstr(cur[1])] + next_stmts
            if ti is not None:
                tv = args[ti]
                if tv[0] != "id" or tv[1] not in self.locals:
                    raise Unsupported("list temporary is not a local")
                head.append(".assign %s (.var %s)" % (lstr(tv[1]), lstr(it)))
            return pre + first_stmts + [".loop (%s)" % self.blk(head + body)]
        if k == "goto":
            self.goto_labels.add(s[1])
            # inside a loop whose body does not hold the label: leave the loop; otherwise the enclosing blocks' guards skip
            # forward to the label
            leave = self.loop_depth > 0 and not (self.loop_labels and s[1] in self.loop_labels[-1])
            return [".assign %s (.lit 1)" % lstr("_goto_" + s[1])] + ([".brk"] if leave else [])
        if k == "switch":
            p, v = self.rv(s[1])
            t = self.tmp()
            self.locals.add(t)
            pre = p + [".assign %s (%s)" % (lstr(t), v)]

            def terminated(body):
                if not body:
                    return False
                last = body[-1]
                return last[0] in ("break", "goto", "return", "continue") or \
                    (last[0] == "expr" and last[1][0] == "call" and last[1][1] in NORETURN)
            simple = all(terminated(b) and not any(contains_kind(x, "break") for x in (b[:-1] if b[-1][0] == "break" else b))
                         for _, b in s[2])
            arms, default_body = [], None
            cont_flag = None
            if not simple:
                # general form: the switch becomes a one-trip loop, `break` leaves it; a case that falls through runs the
                # bodies of the following cases too; `continue` of an enclosing loop goes through a flag
                if any(contains_kind(b, "continue") for _, b in s[2]):
                    cont_flag = self.tmp()
                    self.locals.add(cont_flag)
            for idx, (labels, body) in enumerate(s[2]):
                if simple:
                    inner = body[:-1] if body[-1][0] == "break" else body
                    stm = self.blk(self.stmt_list(list(inner)))
                else:
                    full = []
                    for _, b2 in s[2][idx:]:
                        full += list(b2)
                        if terminated(b2):
                            break
                    self.loop_depth += 1
                    try:
                        if cont_flag:
                            full = subst_continue(full, cont_flag)
                        stm = self.blk(self.stmt_list(full))
                    finally:
                        self.loop_depth -= 1
                if "default" in labels:
                    default_body = stm
                    labels = [l for l in labels if l != "default"]
                    if not labels:
                        continue
                conds = []
                for l in labels:
                    pl, lv = self.rv(l)
                    if pl:
                        raise Unsupported("case label with effects")
                    conds.append(".bin .eq (.var %s) (%s)" % (lstr(t), lv))
                c = conds[0]
                for c2 in conds[1:]:
                    c = ".bin .lor (%s) (%s)" % (c, c2)
                arms.append((c, stm))
            chain = default_body if default_body else ".skip"
            for c, stm in reversed(arms):
                chain = ".ifte (%s) (%s) (%s)" % (c, stm, chain)
            if simple:
                return pre + [chain]
            out = pre + ([".assign %s (.lit 0)" % lstr(cont_flag)] if cont_flag else []) + [".loop (%s)" % self.blk([chain, ".brk"])]
            if cont_flag:
                if self.loop_depth == 0:
                    raise Unsupported("continue in a switch outside a loop")
                out.append(".ifte (.var %s) (.cont) (.skip)" % lstr(cont_flag))
            return out
        if k == "expr":
            e = s[1]
            if e[0] == "call":
                p, _ = self.call(e, want_value=False)
                return p
            if e[0] in ("assign", "postinc"):
                p, _ = self.rv(e)
                # drop the trailing temp of a plain store used as a statement
                return p
            raise Unsupported("expression statement %r" % (e,))
        if k == "if":
            p, c = self.rv(s[1])
            return p + [".ifte (%s) (%s) (%s)" % (c, self.blk(self.stmt(s[2])), self.blk(self.stmt(s[3])))]
        if k == "loop":
            self.loop_depth += 1
            self.loop_labels.append(labels_in(s[1]))
            try:
                return [".loop (%s)" % self.blk(self.stmt(s[1]))]
            finally:
                self.loop_depth -= 1
                self.loop_labels.pop()
        if k == "while":
            p, c = self.rv(s[1])
            self.loop_depth += 1
            self.loop_labels.append(labels_in(s[2]))
            try:
                body = self.stmt(s[2])
            finally:
                self.loop_depth -= 1
                self.loop_labels.pop()
            return [".loop (%s)" % self.blk(p + [".ifte (%s) (%s) (.brk)" % (c, self.blk(body))])]
        if k == "dowhile":
            self.loop_depth += 1
            try:
                body = self.stmt(s[1])
            finally:
                self.loop_depth -= 1
            if any(".cont" in b for b in body):
                raise Unsupported("continue inside do-while")
            p, c = self.rv(s[2])
            return [".loop (%s)" % self.blk(body + p + [".ifte (%s) (.skip) (.brk)" % c])]
        if k == "return":
            if s[1] is None:
                return [".ret none"]
            if s[1][0] == "id" and s[1][1] in self.memlocals and s[1][1] in self.struct_locals:
                return [".ret (some (.addrGlob %s))" % lstr("&" + s[1][1])]   # a struct returned by value: represented by its address
            p, v = self.rv(s[1])
            return p + [".ret (some (%s))" % v]
        if k == "break":
            return [".brk"]
        if k == "continue":
            return [".cont"]
        raise Unsupported("statement %r" % (k,))


def is_ptrview(e):
    """`(unsigned long) p` of a pointer-typed p, possibly already and-ed / or-ed with flag masks"""
    return e[0] == "ulcast" or (e[0] == "bin" and e[1] in ("&", "|") and is_ptrview(e[2]))


def contains_kind(t, kind, stop=("loop", "while", "dowhile")):
    """does statement tree t contain a statement of this kind (not looking into nested loops for break/continue)"""
    if isinstance(t, tuple) and t and t[0] == kind:
        return True
    if isinstance(t, tuple) and t and kind in ("break", "continue") and t[0] in stop:
        return False
    if isinstance(t, (tuple, list)):
        return any(contains_kind(x, kind, stop) for x in t if isinstance(x, (tuple, list)))
    return False


def subst_continue(stmts, flag):
    """`continue` inside a switch that is rendered as a one-trip loop: set the flag and leave the one-trip loop"""
    def f(t):
        if isinstance(t, tuple) and t and t[0] == "continue":
            return ("block", [("expr", ("assign", ("id", flag), ("num", 1))), ("break",)])
        if isinstance(t, tuple) and t and t[0] in ("loop", "while", "dowhile", "listloop"):
            return t
        if isinstance(t, tuple):
            return tuple(f(x) if isinstance(x, (tuple, list)) else x for x in t)
        if isinstance(t, list):
            return [f(x) if isinstance(x, (tuple, list)) else x for x in t]
        return t
    return [f(x) for x in stmts]


def subst_break_continue(t, bflag):
    """body of a for loop rendered as a one-trip loop: `continue` -> leave the one-trip loop, `break` -> set the flag and leave"""
    if isinstance(t, tuple) and t and t[0] == "continue":
        return ("break",)
    if isinstance(t, tuple) and t and t[0] == "break":
        return ("block", [("expr", ("assign", ("id", bflag), ("num", 1))), ("break",)])
    if isinstance(t, tuple) and t and t[0] in ("loop", "while", "dowhile", "listloop", "switch"):
        return t
    if isinstance(t, tuple):
        return tuple(subst_break_continue(x, bflag) if isinstance(x, (tuple, list)) else x for x in t)
    if isinstance(t, list):
        return [subst_break_continue(x, bflag) if isinstance(x, (tuple, list)) else x for x in t]
    return t


def contains_label(t, l):
    if isinstance(t, tuple) and len(t) == 2 and t[0] == "label" and t[1] == l:
        return True
    if isinstance(t, (tuple, list)):
        return any(contains_label(x, l) for x in t if isinstance(x, (tuple, list)))
    return False


def labels_in(t):
    out = set()
    if isinstance(t, tuple) and len(t) == 2 and t[0] == "label":
        out.add(t[1])
    if isinstance(t, (tuple, list)):
        for x in t:
            if isinstance(x, (tuple, list)):
                out |= labels_in(x)
    return out


def gotos_in(t):
    out = set()
    if isinstance(t, tuple) and t and t[0] == "goto":
        out.add(t[1])
    if isinstance(t, (tuple, list)):
        for x in t:
            if isinstance(x, (tuple, list)):
                out |= gotos_in(x)
    return out


NORETURN = {"urcu_die", "abort", "pthread_exit", "exit", "_exit"}


def address_taken(t):
    out = []
    if isinstance(t, (tuple, list)):
        if len(t) == 3 and t[0] == "un" and t[1] == "&" and isinstance(t[2], tuple) and t[2][0] == "id":
            out.append(t[2][1])
        for x in t:
            out += address_taken(x)
    return out


def dot_locals(t):
    """locals used as `x.member` (by-value structs), transparent-union members `_x` excepted"""
    out = []
    if isinstance(t, tuple) and len(t) == 4 and t[0] == "member" and t[3] is False and isinstance(t[1], tuple) and t[1][0] == "id" \
            and not t[2].startswith("_"):
        out.append(t[1][1])
    if isinstance(t, (tuple, list)):
        for x in t:
            if isinstance(x, (tuple, list)):
                out += dot_locals(x)
    return out


def declmacro_names(t):
    out = []
    if isinstance(t, tuple) and t and t[0] == "declmacro":
        out.append(t[2])
    if isinstance(t, tuple) and t and t[0] == "structinit":
        out.append(t[1])
    if isinstance(t, (tuple, list)):
        for x in t:
            if isinstance(x, (tuple, list)):
                out += declmacro_names(x)
    return out


def lname(n):
    return "«%s»" % n


# translation units with file-level configuration: (prefix, defines, own files, extra search files, roots)
UNITS = [
    ("", (), (), [], ROOTS),
    ("", (), (), ["src/urcu-wait.h", "src/urcu-call-rcu-impl.h", "src/workqueue.c", "src/urcu-defer-impl.h"],
     [("urcu_wait_add", "src/urcu-wait.h"), ("urcu_move_waiters", "src/urcu-wait.h"), ("urcu_wait_set_state", "src/urcu-wait.h"),
      ("urcu_wait_node_init", "src/urcu-wait.h"), ("urcu_adaptative_wake_up", "src/urcu-wait.h"),
      ("urcu_adaptative_busy_wait", "src/urcu-wait.h"),
      ("call_rcu_wait", "src/urcu-call-rcu-impl.h"), ("call_rcu_wake_up", "src/urcu-call-rcu-impl.h"),
      ("call_rcu_completion_wait", "src/urcu-call-rcu-impl.h"), ("call_rcu_completion_wake_up", "src/urcu-call-rcu-impl.h"),
      ("wake_call_rcu_thread", "src/urcu-call-rcu-impl.h"), ("_call_rcu", "src/urcu-call-rcu-impl.h"),
      ("futex_wait", "src/workqueue.c"), ("futex_wake_up", "src/workqueue.c"), ("wake_worker_thread", "src/workqueue.c"),
      ("wake_up_defer", "src/urcu-defer-impl.h"), ("wait_defer", "src/urcu-defer-impl.h"),
      ("_defer_rcu", "src/urcu-defer-impl.h"), ("rcu_defer_barrier_queue", "src/urcu-defer-impl.h"),
      ("urcu_wake_all_waiters", "src/urcu-wait.h"),
      ("call_rcu_thread", "src/urcu-call-rcu-impl.h"), ("call_rcu", "src/urcu-call-rcu-impl.h"),
      ("rcu_barrier", "src/urcu-call-rcu-impl.h"), ("_rcu_barrier_complete", "src/urcu-call-rcu-impl.h"),
      ("free_completion", "src/urcu-call-rcu-impl.h"),
      ("call_rcu_before_fork", "src/urcu-call-rcu-impl.h"), ("call_rcu_after_fork_parent", "src/urcu-call-rcu-impl.h"),
      ("call_rcu_after_fork_child", "src/urcu-call-rcu-impl.h"), ("call_rcu_data_free", "src/urcu-call-rcu-impl.h"),
      ("call_rcu_data_init", "src/urcu-call-rcu-impl.h"), ("urcu_workqueue_create_worker", "src/workqueue.c"),
      ("urcu_workqueue_destroy", "src/workqueue.c"),
      ("workqueue_thread", "src/workqueue.c"), ("urcu_workqueue_queue_work", "src/workqueue.c"),
      ("urcu_workqueue_flush_queued_work", "src/workqueue.c"), ("urcu_workqueue_pause_worker", "src/workqueue.c"),
      ("urcu_workqueue_resume_worker", "src/workqueue.c"), ("urcu_workqueue_wait_completion", "src/workqueue.c"),
      ("_urcu_workqueue_wait_complete", "src/workqueue.c")]),
    ("memb.", ("RCU_MEMBARRIER",), ("src/urcu.c",), ["src/urcu.c", "src/urcu-wait.h"],
     [("smp_mb_master", "src/urcu.c"), ("wait_gp", "src/urcu.c"), ("wait_for_readers", "src/urcu.c"), ("synchronize_rcu", "src/urcu.c"),
      ("rcu_register_thread", "src/urcu.c"), ("rcu_unregister_thread", "src/urcu.c")]),
    ("mb.", ("RCU_MB",), ("src/urcu.c",), ["src/urcu.c", "src/urcu-wait.h"],
     [("smp_mb_master", "src/urcu.c"), ("wait_gp", "src/urcu.c"), ("wait_for_readers", "src/urcu.c"), ("synchronize_rcu", "src/urcu.c")]),
    ("qsbr.", (), ("src/urcu-qsbr.c",), ["src/urcu-qsbr.c", "src/urcu-wait.h"],
     [("wait_gp", "src/urcu-qsbr.c"), ("wait_for_readers", "src/urcu-qsbr.c"), ("urcu_qsbr_synchronize_rcu", "src/urcu-qsbr.c"),
      ("urcu_qsbr_register_thread", "src/urcu-qsbr.c"), ("urcu_qsbr_unregister_thread", "src/urcu-qsbr.c")]),
    # the hash table's lock-free core; counting / resize triggers are opaque here (C09's subject)
    ("lfht.", (), ("src/rculfhash.c",), ["src/rculfhash.c"],
     [("lookup_bucket", "src/rculfhash.c"), ("_cds_lfht_gc_bucket", "src/rculfhash.c"), ("_cds_lfht_add", "src/rculfhash.c"),
      ("_cds_lfht_del", "src/rculfhash.c"), ("_cds_lfht_replace", "src/rculfhash.c"), ("cds_lfht_lookup", "src/rculfhash.c"),
      ("cds_lfht_next_duplicate", "src/rculfhash.c"), ("cds_lfht_next", "src/rculfhash.c"), ("cds_lfht_first", "src/rculfhash.c"),
      ("cds_lfht_add", "src/rculfhash.c"), ("cds_lfht_add_unique", "src/rculfhash.c"), ("cds_lfht_add_replace", "src/rculfhash.c"),
      ("cds_lfht_replace", "src/rculfhash.c"), ("cds_lfht_del", "src/rculfhash.c"), ("cds_lfht_is_node_deleted", "src/rculfhash.c")],
     ("check_resize", "ht_count_add", "ht_count_del")),
    ("poll.", (), ("src/urcu-poll-impl.h",), ["src/urcu-poll-impl.h"],
     [("urcu_poll_worker_cb", "src/urcu-poll-impl.h"), ("start_poll_synchronize_rcu", "src/urcu-poll-impl.h"),
      ("poll_state_synchronize_rcu", "src/urcu-poll-impl.h")], ("call_rcu",)),
    ("bp.", (), ("src/urcu-bp.c",), ["src/urcu-bp.c"],
     [("smp_mb_master", "src/urcu-bp.c"), ("wait_for_readers", "src/urcu-bp.c"), ("urcu_bp_synchronize_rcu", "src/urcu-bp.c"),
      ("urcu_bp_register", "src/urcu-bp.c"), ("urcu_bp_unregister", "src/urcu-bp.c"), ("add_thread", "src/urcu-bp.c"),
      ("arena_alloc", "src/urcu-bp.c"), ("expand_arena", "src/urcu-bp.c"), ("cleanup_thread", "src/urcu-bp.c"),
      ("remove_thread", "src/urcu-bp.c"), ("find_chunk", "src/urcu-bp.c"), ("urcu_bp_prune_registry", "src/urcu-bp.c"),
      ("urcu_bp_before_fork", "src/urcu-bp.c"), ("urcu_bp_after_fork_parent", "src/urcu-bp.c"),
      ("urcu_bp_after_fork_child", "src/urcu-bp.c")]),
]


def main():
    out_lean, out_c = sys.argv[1], sys.argv[2]
    consts_txt = sys.argv[3] if len(sys.argv) > 3 else None
    consts = {}
    if consts_txt:
        for line in open(consts_txt):
            ws = line.split()
            if len(ws) == 2:
                consts[ws[0]] = ws[1]
    errors = []
    trs = []
    seen_defs = {}
    for unit in UNITS:
        prefix, defines, own, extra, roots = unit[:5]
        tr = Translator(defines, own, prefix, SEARCH + [f for f in extra if f not in SEARCH], consts, unit[5] if len(unit) > 5 else ())
        tr.consts = dict(consts)
        for name, f in roots:
            try:
                if not tr.function(name, f):
                    errors.append("%s: definition not found in %s" % (name, f))
            except Unsupported as e:
                errors.append(str(e))
        trs.append(tr)
    if not consts_txt:
        # The constants programs are compiled inside the library's own translation units (private struct types, enums and
        # #defines): one program per context – src/urcu.c (+ everything it includes) together with src/workqueue.c (static names
        # both define are renamed), and one each for the units whose own file is another flavor's .c file.
        def ctx_of(tr):
            own = sorted(tr.own_files)
            if own and own[0] in ("src/urcu-bp.c", "src/urcu-qsbr.c", "src/rculfhash.c"):
                return own[0]
            return "main"
        ctxs = {}
        for tr in trs:
            ctxs.setdefault(ctx_of(tr), []).append(tr)
        for old in os.listdir(os.path.dirname(out_c) or "."):
            if old.startswith(os.path.basename(out_c)[:-2] + ".") and old.endswith(".c"):
                os.unlink(os.path.join(os.path.dirname(out_c) or ".", old))
        for ctx, ctrs in ctxs.items():
            if ctx == "main":
                c = ["#define _LGPL_SOURCE 1", "#define RCU_MEMBARRIER 1", '#include "urcu.c"',
                     "#define set_thread_cpu_affinity wq_set_thread_cpu_affinity", "#define free_completion wq_free_completion",
                     "#define futex_wait wq_futex_wait", "#define futex_wake_up wq_futex_wake_up",
                     '#include "workqueue.c"', "#undef set_thread_cpu_affinity", "#undef free_completion"]
            else:
                c = ["#define _LGPL_SOURCE 1", '#include "%s"' % os.path.basename(ctx)]
            c += ["#include <stdio.h>", "#include <stddef.h>", "#include <poll.h>", "#include <limits.h>",
                  "#include <stdlib.h>", "#include <errno.h>", "#include <signal.h>", "#include <pthread.h>", "#include <sys/mman.h>",
                  "#include <unistd.h>", "#include <urcu/futex.h>", "#include <urcu/ref.h>", "#include <urcu/wfstack.h>",
                  "#include <urcu/lfstack.h>", "#include <urcu/wfcqueue.h>", "#include <urcu/rculfqueue.h>", "#include <urcu/rculfstack.h>",
                  "#include <urcu/wfqueue.h>"]
            if ctx == "main":
                c += ["#include <urcu/urcu-bp.h>", "#include <urcu/urcu-qsbr.h>", '#include "urcu-wait.h"', '#include "workqueue.h"']
            # object-like #defines of the private headers a translated function's constants come from, copied textually
            for f in sorted(set(x for tr in ctrs for x in tr.define_files)):
                for m in re.finditer(r"^[ \t]*#[ \t]*define[ \t]+([A-Z][A-Z0-9_]*)[ \t]+(.+)$", ctrs[0].texts.get(f) or strip_comments(open(os.path.join(REPO, f)).read()), re.M):
                    c.append("#ifndef %s\n#define %s %s\n#endif" % (m.group(1), m.group(1), m.group(2).strip()))
            c.append("/* never called here: the program only prints constants */")
            c.append("__attribute__((weak)) int compat_futex_noasync(int32_t *u, int o, int32_t v, const struct timespec *t, int32_t *u2, int32_t v3) { return -1; }")
            c.append("__attribute__((weak)) int compat_futex_async(int32_t *u, int o, int32_t v, const struct timespec *t, int32_t *u2, int32_t v3) { return -1; }")
            c.append("int main(void) {")
            need, cex, zero = set(), {}, set()
            for tr in ctrs:
                need |= tr.need_consts
                cex.update(tr.cexprs)
                zero |= tr.zero_offsets

            def pr(n, txt):
                # pointer-valued constants other than the (T *) -1 sentinels, and complements, are printed unsigned
                if n.startswith("NOT_"):
                    return 'printf("%s %%lu\\n", (unsigned long)(%s));' % (n, txt)
                return ('if (__builtin_classify_type(%s) == 5 && (long)(%s) != -1) printf("%s %%lu\\n", (unsigned long)(%s)); '
                        'else printf("%s %%ld\\n", (long)(%s));' % (txt, txt, n, txt, n, txt))
            for n in sorted(need):
                c.append(pr(n, n))
            for n, txt in sorted(cex.items()):
                c.append(pr(n, txt))
            for tr in ctrs:
                for n, txt in sorted(tr.local_consts.items()):
                    c.append(pr(n, txt))
            for ty, mem in sorted(zero):
                c.append("_Static_assert(offsetof(%s, %s) == 0, \"caa_container_of(%s,%s) is not the identity\");" % (ty, mem, ty, mem))
            # file-level preprocessor conditions that are not plain defined()-tests: evaluated here, used by pass 2
            for cond in sorted(set(u for tr in ctrs for _, u in tr.pp_unknown)):
                if "defined" in cond and re.search(r"\b(RCU_\w+|HAS_INCOHERENT_CACHES)\b", cond):
                    continue
                c.append("#if %s\nprintf(\"%s 1\\n\");\n#else\nprintf(\"%s 0\\n\");\n#endif" % (cond, pp_key(cond), pp_key(cond)))
            c.append("return 0; }")
            path = out_c if ctx == "main" else out_c[:-2] + "." + os.path.basename(ctx)[:-2].replace("-", "_") + ".c"
            open(path, "w").write("\n".join(c) + "\n")
        if errors:
            sys.stderr.write("\n".join("gen_src: " + e for e in errors) + "\n")
        return 0
    L = ["/- GENERATED from the C text of /repo by harness/gen/gen_src.py on every check run; do not edit. -/",
         "import UrcuVerif.Src.IR", "set_option maxRecDepth 8192", "namespace UrcuVerif.Gen.Src", "open UrcuVerif.Src", ""]
    order = []
    for tr in trs:
        for name in tr.order:
            q = tr.qual(name)
            params, stmts, f = tr.defs[name]
            text = tr.blk(stmts)
            if q in seen_defs:
                if seen_defs[q] != text:
                    errors.append("%s translated differently in two units" % q)
                continue
            seen_defs[q] = text
            order.append(q)
            L.append("/-- `%s` (%s%s) -/" % (name, f, (", with " + " ".join(sorted(tr.defines))) if tr.defines and f in tr.own_files else ""))
            L.append("def %s : Stmt :=\n  %s" % (lname(q), text))
            L.append("def %s : List String := [%s]" % (lname(q + ".params"), ", ".join(lstr(p) for p in params)))
            L.append("")
    L.append("/-- functions the translator could not express in the IR subset (listed, never defaulted) -/")
    L.append("def untranslated : List String := [%s]" % ", ".join(lstr(e.replace('"', "'").replace("\\", "/")) for e in errors))
    L.append("def translated : List String := [%s]" % ", ".join(lstr(n) for n in order))
    L.append("end UrcuVerif.Gen.Src")
    open(out_lean, "w").write("\n".join(L) + "\n")
    if errors:
        sys.stderr.write("\n".join("gen_src: " + e for e in errors) + "\n")
    return 0


if __name__ == "__main__":
    sys.exit(main())
