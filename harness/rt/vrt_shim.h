/*
 * vrt_shim.h — include FIRST in a scenario TU, then #include the real /repo source.
 * The real headers are pulled in here (include guards keep them from being re-read), then the
 * shared-memory primitives are re-#defined to logging + scheduling versions, so the untouched
 * algorithm text that follows is compiled against the overridden primitives (DESIGN §1.2).
 */
#ifndef VRT_SHIM_H
#define VRT_SHIM_H

#ifndef _GNU_SOURCE
#define _GNU_SOURCE
#endif
#include <stdio.h>
#include <stdlib.h>
#include <stdint.h>
#include <string.h>
#include <errno.h>
#include <pthread.h>
#include <poll.h>
#include <unistd.h>
#include <sched.h>
#include <signal.h>
#include <sys/syscall.h>
#include <urcu/config.h>
#include <urcu/arch.h>
#include <urcu/compiler.h>
#include <urcu/system.h>
#include <urcu/uatomic.h>
#include "vrt.h"

#define VRT_U(x) ((unsigned long)(x))
#define VRT_L(p) vrt_loc((const void *)(p))

#undef uatomic_load_mo
#define uatomic_load_mo(addr, mo) __extension__ ({					\
	__typeof__(addr) _vp = (addr);							\
	vrt_in_prim++; vrt_point();							\
	__auto_type _v = __atomic_load_n(_vp, __ATOMIC_SEQ_CST);			\
	vrt_log("LD %s %s %d", VRT_L(_vp), vrt_val(VRT_U(_v)), (int)(mo));		\
	vrt_in_prim--; _v; })

#undef uatomic_store_mo
#define uatomic_store_mo(addr, v, mo) do {						\
	__typeof__(addr) _vp = (addr);							\
	__typeof__(*_vp) _sv = (v);							\
	vrt_in_prim++; vrt_point();							\
	__atomic_store_n(_vp, _sv, __ATOMIC_SEQ_CST);					\
	vrt_log("ST %s %s %d", VRT_L(_vp), vrt_val(VRT_U(_sv)), (int)(mo));		\
	vrt_in_prim--; } while (0)

#undef uatomic_xchg_mo
#define uatomic_xchg_mo(addr, v, mo) __extension__ ({					\
	__typeof__(addr) _vp = (addr);							\
	__typeof__(*_vp) _nv = (v);							\
	vrt_in_prim++; vrt_point();							\
	__auto_type _o = __atomic_exchange_n(_vp, _nv, __ATOMIC_SEQ_CST);		\
	vrt_log("XCHG %s %s %s %d", VRT_L(_vp), vrt_val(VRT_U(_nv)), vrt_val(VRT_U(_o)), (int)(mo)); \
	vrt_in_prim--; _o; })

#undef uatomic_cmpxchg_mo
#define uatomic_cmpxchg_mo(addr, old, _new, mos, mof) __extension__ ({			\
	__typeof__(addr) _vp = (addr);							\
	__typeof__(*_vp) _e = (old);							\
	__typeof__(*_vp) _ee = _e;							\
	__typeof__(*_vp) _n = (_new);							\
	vrt_in_prim++; vrt_point();							\
	__atomic_compare_exchange_n(_vp, &_e, _n, 0, __ATOMIC_SEQ_CST, __ATOMIC_SEQ_CST); \
	vrt_log("CAS %s %s %s %s %d %d", VRT_L(_vp), vrt_val(VRT_U(_ee)), vrt_val(VRT_U(_n)), \
		vrt_val(VRT_U(_e)), (int)(mos), (int)(mof));				\
	vrt_in_prim--; _e; })

#define VRT_RMW(name, addr, v, mo, builtin, ret_new) __extension__ ({			\
	__typeof__(addr) _vp = (addr);							\
	__typeof__(*_vp) _d = (__typeof__(*_vp))(v);					\
	vrt_in_prim++; vrt_point();							\
	__auto_type _r = builtin(_vp, _d, __ATOMIC_SEQ_CST);				\
	vrt_log(name " %s %s %s %d", VRT_L(_vp), vrt_val(VRT_U(_d)), vrt_val(VRT_U(_r)), (int)(mo)); \
	vrt_in_prim--; _r; })

#undef uatomic_add_return_mo
#define uatomic_add_return_mo(addr, v, mo)	VRT_RMW("ADDR", addr, v, mo, __atomic_add_fetch, 1)
#undef uatomic_sub_return_mo
#define uatomic_sub_return_mo(addr, v, mo)	VRT_RMW("SUBR", addr, v, mo, __atomic_sub_fetch, 1)
#undef uatomic_add_mo
#define uatomic_add_mo(addr, v, mo)		((void)VRT_RMW("ADD", addr, v, mo, __atomic_add_fetch, 1))
#undef uatomic_sub_mo
#define uatomic_sub_mo(addr, v, mo)		((void)VRT_RMW("SUB", addr, v, mo, __atomic_sub_fetch, 1))
#undef uatomic_inc_mo
#define uatomic_inc_mo(addr, mo)		((void)VRT_RMW("ADD", addr, 1, mo, __atomic_add_fetch, 1))
#undef uatomic_dec_mo
#define uatomic_dec_mo(addr, mo)		((void)VRT_RMW("SUB", addr, 1, mo, __atomic_sub_fetch, 1))
#undef uatomic_and_mo
#define uatomic_and_mo(addr, v, mo)		((void)VRT_RMW("AND", addr, v, mo, __atomic_and_fetch, 1))
#undef uatomic_or_mo
#define uatomic_or_mo(addr, v, mo)		((void)VRT_RMW("OR", addr, v, mo, __atomic_or_fetch, 1))

#undef cmm_smp_mb
#define cmm_smp_mb() do { vrt_in_prim++; vrt_point(); __atomic_thread_fence(__ATOMIC_SEQ_CST); vrt_log("MB"); vrt_in_prim--; } while (0)
#undef cmm_mb
#define cmm_mb() cmm_smp_mb()
/* x86: rmb/wmb are compiler barriers; keep them as (non-scheduling) events so that their
 * presence and position are checked */
#undef cmm_smp_rmb
#define cmm_smp_rmb() do { __asm__ __volatile__ ("" : : : "memory"); vrt_log("RMB"); } while (0)
#undef cmm_smp_wmb
#define cmm_smp_wmb() do { __asm__ __volatile__ ("" : : : "memory"); vrt_log("WMB"); } while (0)
#undef cmm_barrier
#define cmm_barrier() do { __asm__ __volatile__ ("" : : : "memory"); vrt_log("CB"); } while (0)
#undef caa_cpu_relax
#define caa_cpu_relax() do { vrt_relax(); } while (0)

static inline void vrt_relax(void)
{
	extern void vrt_relax_impl(void);
	vrt_relax_impl();
}

/* ---- libc / pthread / syscalls ---- */
#define pthread_mutex_lock(m)		vrt_mutex_lock(m)
#define pthread_mutex_trylock(m)	vrt_mutex_trylock(m)
#define pthread_mutex_unlock(m)		vrt_mutex_unlock(m)
#define pthread_cond_wait(c, m)		vrt_cond_wait(c, m)
#define pthread_cond_broadcast(c)	vrt_cond_broadcast(c)
#define pthread_cond_signal(c)		vrt_cond_signal(c)
#define pthread_create(t, a, f, g)	vrt_pthread_create(t, a, f, g)
#define pthread_join(t, r)		vrt_pthread_join(t, r)
#define pthread_exit(r)			vrt_pthread_exit(r)
#define syscall(...)			vrt_syscall(__VA_ARGS__)
#define poll(f, n, t)			vrt_poll((void *)(f), n, t)
#define sched_getcpu()			vrt_sched_getcpu()

#endif /* VRT_SHIM_H */
