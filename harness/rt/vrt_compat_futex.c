/* the real compat_futex.c compiled under the shim, so that the ENOSYS fallback
 * (compat_futex_async: mb; while (load == val) poll) is visible to the scheduler */
#include "vrt_shim.h"
#include "compat_futex.c"
