/* the real compat_futex.c compiled under the shim, so that the ENOSYS fallback
 * (compat_futex_async: mb; while (load == val) poll) is visible to the scheduler.
 * Its poll() goes through vrt_poll_compat(): with --pollfaults N (per mille) the poll fails with EINTR (a signal arrived
 * during the 10 ms sleep), logged as POLL_EINTR; compat_futex_async then returns -1 with poll's errno. */
#include "vrt_shim.h"
#undef poll
#define poll(f, n, t)	vrt_poll_compat((void *)(f), n, t)
#include "compat_futex.c"
