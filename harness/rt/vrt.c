/* vrt — deterministic cooperative runtime; see vrt.h */
#define _GNU_SOURCE
#include "vrt.h"
#include <stdarg.h>
#include <stdlib.h>
#include <string.h>
#include <errno.h>
#include <semaphore.h>
#include <unistd.h>
#include <sys/syscall.h>
#include <linux/futex.h>
#include <sys/wait.h>

enum { ST_RUN, ST_MUTEX, ST_FUTEX, ST_JOIN, ST_POLL, ST_SLEEP };

struct vthread {
	int used, done, frozen, started, joined;
	pthread_t pt;
	sem_t sem;
	char name[32];
	void *(*fn)(void *);
	void *arg, *ret;
	int st;
	void *wait_obj;
	int wait_tid;
	int woken;
	unsigned long wake_step;
	unsigned long steps, relax;
	void (*sigh)(void);
	int sigblocked, sigdepth;
	long prio;
	int exit_iter;
};

static struct vthread T[VRT_MAXT];
static int nthreads = 1;		/* T[0] = main */
static __thread int vrt_tid;
__thread int vrt_in_prim;
int vrt_active;
int vrt_failed;
int vrt_cfg_membarrier = -1;
int vrt_cfg_ncpus = 4;
int vrt_cfg_cpu_of[VRT_MAXT];

static FILE *trace;
static unsigned long steps, work, budget = 400000;
static uint64_t rng, rng2;
static int pswitch = 30, psig = 0, f_spur = 0, f_eintr = 0, f_enosys = 0, maxsigdepth = 2;
static int strategy;			/* 0 rand, 1 pct, 2 sweep (non-preemptive + one forced preemption) */
static unsigned long preempt_at;
static int preempt_tid = 1, preempt_len = 3, forced_left, forced_tid = -1;
/* sweep only, off unless --hold-at is given: thread hold_tid is descheduled from step hold_at for hold_len steps
 * (it still runs whenever nothing else can: a preempted thread resumes when the others wait for it) */
static unsigned long hold_at, hold_len = 500;
static int hold_tid = 1;
static int pct_d = 3;
static unsigned long pct_points[16];
static unsigned long pct_len = 2000;
static long pct_low = -1;
static pthread_key_t exit_key;
static unsigned char *choices;
static size_t nchoices, capchoices;
static char choices_path[512];
static char trace_path[480];
static unsigned long n_faults[4];	/* spur, eintr, enosys, signals */

struct mtx { pthread_mutex_t *m; int owner; };
static struct mtx M[512];
static int nm;

struct nm { const char *base; size_t size; char name[48]; };
static struct nm N[4096];
static int nn;

/* ---------------------------------------------------------------------------------------- */
static uint64_t xs(uint64_t *s)
{
	uint64_t x = *s;
	x ^= x << 13; x ^= x >> 7; x ^= x << 17;
	return *s = x;
}

uint64_t vrt_rand(void) { return xs(&rng2); }

static unsigned choose(unsigned n)
{
	unsigned r;
	if (n <= 1)
		return 0;
	r = xs(&rng) % n;
	if (nchoices == capchoices) {
		capchoices = capchoices ? capchoices * 2 : 4096;
		choices = realloc(choices, capchoices);
	}
	choices[nchoices++] = (unsigned char)r;
	return r;
}

int vrt_self(void) { return vrt_tid; }
int vrt_nthreads(void) { return nthreads; }
int vrt_done(int tid) { return T[tid].done; }
unsigned long vrt_steps(void) { return steps; }
unsigned long vrt_mysteps(void) { return T[vrt_tid].steps; }
unsigned long vrt_myrelax(void) { return T[vrt_tid].relax; }
unsigned long vrt_total_relax(void) { unsigned long n = 0; int i; for (i = 0; i < nthreads; i++) n += T[i].relax; return n; }
void vrt_freeze(int tid, int frozen) { T[tid].frozen = frozen; }

static void out_flush(void) { if (trace) fflush(trace); }

void vrt_raw(const char *fmt, ...)
{
	va_list ap;
	if (!vrt_active || !trace)
		return;
	va_start(ap, fmt);
	vfprintf(trace, fmt, ap);
	va_end(ap);
	fputc('\n', trace);
}

void vrt_log(const char *fmt, ...)
{
	va_list ap;
	if (!vrt_active || !trace)
		return;
	if (strstr(fmt, "FUTEX") || strstr(fmt, "futex"))
		fprintf(trace, "#@ %lu\n", steps);
	else {
		/* location names are passed as arguments: look at the first string argument cheaply */
	}
	fprintf(trace, "T%d ", vrt_tid);
	va_start(ap, fmt);
	vfprintf(trace, fmt, ap);
	va_end(ap);
	fputc('\n', trace);
}

static void dump_choices(void)
{
	FILE *f;
	size_t i;
	if (!choices_path[0])
		return;
	f = fopen(choices_path, "w");
	if (!f)
		return;
	for (i = 0; i < nchoices; i++)
		fprintf(f, "%u\n", choices[i]);
	fclose(f);
}

void vrt_fail(const char *kind, const char *fmt, ...)
{
	va_list ap;
	char buf[512];
	va_start(ap, fmt);
	vsnprintf(buf, sizeof(buf), fmt, ap);
	va_end(ap);
	fprintf(stderr, "ORACLE %s: %s (step %lu, T%d)\n", kind, buf, steps, vrt_tid);
	if (trace && vrt_active)
		fprintf(trace, "# ORACLE %s: %s\n", kind, buf);
	vrt_failed = 1;
}

static void die(int code, const char *what)
{
	int i;
	if (trace) {
		fprintf(trace, "# %s steps=%lu\n", what, steps);
		for (i = 0; i < nthreads; i++)
			if (T[i].used && !T[i].done)
				fprintf(trace, "#   T%d %s st=%d frozen=%d obj=%s\n", i, T[i].name, T[i].st,
					T[i].frozen, T[i].wait_obj ? vrt_loc(T[i].wait_obj) : "-");
		out_flush();
	}
	fprintf(stderr, "ORACLE %s: steps=%lu\n", what, steps);
	for (i = 0; i < nthreads; i++)
		if (T[i].used && !T[i].done)
			fprintf(stderr, "  T%d %s st=%d frozen=%d obj=%s\n", i, T[i].name, T[i].st, T[i].frozen,
				T[i].wait_obj ? vrt_loc(T[i].wait_obj) : "-");
	dump_choices();
	_exit(code);
}

/* ---- names ------------------------------------------------------------------------------- */
void vrt_name(const void *p, size_t size, const char *fmt, ...)
{
	va_list ap;
	int i;
	for (i = 0; i < nn; i++)
		if (N[i].base == (const char *)p)
			break;
	if (i == nn) {
		if (nn == 4096) { fprintf(stderr, "vrt: name table full\n"); _exit(9); }
		nn++;
	}
	N[i].base = p;
	N[i].size = size;
	va_start(ap, fmt);
	vsnprintf(N[i].name, sizeof(N[i].name), fmt, ap);
	va_end(ap);
}

void vrt_unname(const void *p)
{
	int i;
	for (i = 0; i < nn; i++)
		if (N[i].base == (const char *)p) {
			N[i] = N[--nn];
			return;
		}
}

const char *(*vrt_unknown_hook)(const void *p);

static struct nm *find_name0(const void *p)
{
	int i;
	for (i = nn - 1; i >= 0; i--)
		if ((const char *)p >= N[i].base && (const char *)p < N[i].base + N[i].size)
			return &N[i];
	return NULL;
}

static struct nm *find_name(const void *p)
{
	struct nm *n = find_name0(p);
	static __thread int in_hook;
	if (!n && vrt_unknown_hook && !in_hook) {
		/* the scenario may name objects lazily (e.g. bp reader slots allocated inside the library) */
		in_hook = 1;
		if (vrt_unknown_hook(p))
			n = find_name0(p);
		in_hook = 0;
	}
	return n;
}

int vrt_is_named(const void *p) { return find_name(p) != NULL; }

static char *rotbuf(void)
{
	static __thread char bufs[8][96];
	static __thread int k;
	return bufs[k++ & 7];
}

const char *vrt_loc(const void *p)
{
	struct nm *n = find_name(p);
	char *b = rotbuf();
	if (!n)
		return "?";
	if ((const char *)p == n->base)
		snprintf(b, 96, "%s", n->name);
	else
		snprintf(b, 96, "%s+%ld", n->name, (long)((const char *)p - n->base));
	return b;
}

const char *vrt_val(unsigned long v)
{
	char *b = rotbuf();
	struct nm *n = NULL;
	if (v > 0xffff && v < 0xffff800000000000UL)
		n = find_name((const void *)(v & ~7UL));
	if (n) {
		long off = (long)((const char *)(v & ~7UL) - n->base);
		int fl = (int)(v & 7);
		if (off && fl) snprintf(b, 96, "&%s+%ld|%d", n->name, off, fl);
		else if (off) snprintf(b, 96, "&%s+%ld", n->name, off);
		else if (fl) snprintf(b, 96, "&%s|%d", n->name, fl);
		else snprintf(b, 96, "&%s", n->name);
	} else if ((long)v < 0 && (long)v > -4096) {
		snprintf(b, 96, "%ld", (long)v);
	} else {
		snprintf(b, 96, "%lu", v);
	}
	return b;
}

/* ---- scheduling -------------------------------------------------------------------------- */
static struct mtx *mtx_of(pthread_mutex_t *m)
{
	int i;
	for (i = 0; i < nm; i++)
		if (M[i].m == m)
			return &M[i];
	if (nm == 512) { fprintf(stderr, "vrt: mutex table full\n"); _exit(9); }
	M[nm].m = m;
	M[nm].owner = -1;
	return &M[nm++];
}

static int runnable(int t)
{
	struct vthread *v = &T[t];
	if (!v->used || v->done || v->frozen)
		return 0;
	switch (v->st) {
	case ST_RUN: case ST_POLL: return 1;
	case ST_MUTEX: return mtx_of(v->wait_obj)->owner == -1;
	case ST_FUTEX: return v->woken;
	case ST_JOIN: return T[v->wait_tid].done;
	case ST_SLEEP: return steps >= v->wake_step;
	}
	return 0;
}

static int pick_next(int self_ok)
{
	int cand[VRT_MAXT], nc = 0, poll[VRT_MAXT], np = 0, i, self = vrt_tid;
	for (i = 0; i < nthreads; i++) {
		if (i == self && !self_ok)
			continue;
		if (!runnable(i))
			continue;
		if (T[i].st == ST_POLL) poll[np++] = i;
		else cand[nc++] = i;
	}
	if (strategy == 2) {
		int best = -1, held = (hold_at && steps >= hold_at && steps < hold_at + hold_len) ? hold_tid : -1;
		if (preempt_at && steps == preempt_at && preempt_tid < nthreads && T[preempt_tid].used && !T[preempt_tid].done &&
		    (preempt_tid != self || self_ok)) {
			/* the one forced preemption: wake the thread if it is in a logical sleep */
			if (T[preempt_tid].st == ST_SLEEP)
				T[preempt_tid].wake_step = steps;
			if (runnable(preempt_tid)) {
				forced_tid = preempt_tid;
				forced_left = preempt_len;
			}
		}
		if (forced_left > 0 && forced_tid >= 0 && (forced_tid != self || self_ok) && runnable(forced_tid)) {
			forced_left--;
			return forced_tid;
		}
		forced_left = 0;
		if (self_ok && self != held && runnable(self) && T[self].st == ST_RUN)
			return self;
		for (i = 0; i < nc; i++)
			if (cand[i] != held && (best < 0 || cand[i] < best)) best = cand[i];
		if (best >= 0)
			return best;
		for (i = 0; i < np; i++)
			if (poll[i] != held && !(hold_at && np > 1 && poll[i] == self) && (best < 0 || poll[i] < best)) best = poll[i];	/* with --hold-at pollers take turns */
		if (best >= 0)
			return best;
		if (held >= 0 && held < nthreads && (held != self || self_ok) && runnable(held))
			return held;
	}
	if (nc == 0 && np == 0) {
		/* only logical sleepers left: time jumps to the earliest wake-up */
		unsigned long best = 0;
		int bi = -1;
		for (i = 0; i < nthreads; i++)
			if (T[i].used && !T[i].done && !T[i].frozen && T[i].st == ST_SLEEP && (i != self || self_ok) &&
			    (bi < 0 || T[i].wake_step < best)) {
				best = T[i].wake_step;
				bi = i;
			}
		if (bi >= 0 && best > steps)
			steps = best;
		return bi;
	}
	if (strategy == 1) {
		/* PCT: highest priority runnable non-polling thread; polling threads last */
		int best = -1;
		int *set = nc ? cand : poll, n = nc ? nc : np;
		for (i = 0; i < n; i++)
			if (best < 0 || T[set[i]].prio > T[best].prio)
				best = set[i];
		return best;
	}
	/* random walk: keep the current thread with probability 1 - pswitch% */
	if (self_ok && runnable(self) && T[self].st == ST_RUN && (nc + np) > 1) {
		if (choose(100) >= (unsigned)pswitch)
			return self;
	}
	if (nc) {
		/* a polling thread gets a turn now and then even if others can run */
		if (np && choose(8) == 0)
			return poll[choose(np)];
		return cand[choose(nc)];
	}
	return poll[choose(np)];
}

static void switch_to(int next)
{
	int self = vrt_tid;
	if (next == self)
		return;
	sem_post(&T[next].sem);
	sem_wait(&T[self].sem);
}

static void deliver_signal(void)
{
	struct vthread *me = &T[vrt_tid];
	if (!me->sigh || me->sigblocked || me->sigdepth >= maxsigdepth || !psig)
		return;
	if (choose(1000) >= (unsigned)psig)
		return;
	me->sigdepth++;
	n_faults[3]++;
	vrt_log("SIG_ENTER depth=%d", me->sigdepth);
	me->sigh();
	vrt_log("SIG_EXIT depth=%d", me->sigdepth);
	me->sigdepth--;
}

/* block (if st != ST_RUN) or merely yield; returns when this thread is scheduled again */
static void sched(void)
{
	int self = vrt_tid, next;
	unsigned i;
	steps++;
	work++;
	T[self].steps++;
	if (work > budget)
		die(5, "BUDGET");
	if (strategy == 1)
		for (i = 0; i < (unsigned)pct_d; i++)
			if (pct_points[i] == steps)
				T[self].prio = pct_low--;
	next = pick_next(1);
	if (next < 0)
		die(4, "DEADLOCK");
	switch_to(next);
}

void vrt_point(void)
{
	if (!vrt_active)
		return;
	sched();
	deliver_signal();
}

/* ---- threads ----------------------------------------------------------------------------- */
static void exit_handoff(void *p)
{
	struct vthread *me = p;
	int next;
	if (me->exit_iter++ == 0) {
		/* run again after every other key destructor (e.g. urcu-bp's) has run */
		pthread_setspecific(exit_key, me);
		return;
	}
	me->done = 1;
	if (trace)
		fprintf(trace, "T%d THREAD_EXIT\n", vrt_tid);
	next = pick_next(0);
	if (next < 0)
		die(4, "DEADLOCK");
	sem_post(&T[next].sem);
}

static void *wrapper(void *p)
{
	struct vthread *me = p;
	sem_wait(&me->sem);
	vrt_tid = (int)(me - T);
	me->started = 1;
	pthread_setspecific(exit_key, me);
	{
		/* symbolic name for this thread's stack (on-stack wait nodes etc.) */
		char here;
		uintptr_t top = ((uintptr_t)&here + 4096) & ~(uintptr_t)4095;
		vrt_name((void *)(top - (1 << 20)), 1 << 20, "stack%d", vrt_tid);
	}
	me->ret = me->fn(me->arg);
	return me->ret;
}

int vrt_spawn(const char *name, void *(*fn)(void *), void *arg)
{
	int id = nthreads++;
	struct vthread *v = &T[id];
	pthread_attr_t at;
	if (id >= VRT_MAXT) { fprintf(stderr, "vrt: too many threads\n"); _exit(9); }
	memset(v, 0, sizeof(*v));
	v->used = 1;
	v->fn = fn;
	v->arg = arg;
	v->st = ST_RUN;
	v->prio = (long)(xs(&rng) % 1000000) + 1000;
	snprintf(v->name, sizeof(v->name), "%s", name);
	sem_init(&v->sem, 0, 0);
	pthread_attr_init(&at);
	pthread_attr_setstacksize(&at, 1 << 20);
	if (pthread_create(&v->pt, &at, wrapper, v)) { perror("pthread_create"); _exit(9); }
	pthread_attr_destroy(&at);
	vrt_log("SPAWN T%d %s", id, name);
	return id;
}

void vrt_join(int tid)
{
	struct vthread *me = &T[vrt_tid];
	if (!T[tid].done) {
		me->st = ST_JOIN;
		me->wait_tid = tid;
		sched();
		me->st = ST_RUN;
	}
	if (!T[tid].joined) {
		T[tid].joined = 1;
		pthread_join(T[tid].pt, NULL);
	}
}

int vrt_pthread_create(pthread_t *t, const pthread_attr_t *a, void *(*fn)(void *), void *arg)
{
	int id;
	(void)a;
	if (!vrt_active)
		return pthread_create(t, a, fn, arg);
	vrt_point();
	id = vrt_spawn("lib", fn, arg);
	*t = T[id].pt;
	return 0;
}

int vrt_pthread_join(pthread_t t, void **ret)
{
	int i;
	if (!vrt_active)
		return pthread_join(t, ret);
	/* newest first: glibc re-uses the pthread_t value of an exited and joined thread */
	for (i = nthreads - 1; i >= 1; i--)
		if (T[i].used && pthread_equal(T[i].pt, t)) {
			vrt_point();
			vrt_log("JOIN T%d", i);
			vrt_join(i);
			if (ret)
				*ret = T[i].ret;
			return 0;
		}
	return pthread_join(t, ret);
}

void vrt_pthread_exit(void *ret)
{
	T[vrt_tid].ret = ret;
	pthread_exit(ret);
}

int vrt_sched_getcpu(void)
{
	return vrt_cfg_cpu_of[vrt_tid] % (vrt_cfg_ncpus > 0 ? vrt_cfg_ncpus : 1);
}

/* ---- mutex ------------------------------------------------------------------------------- */
int vrt_mutex_lock(pthread_mutex_t *m)
{
	struct mtx *x;
	struct vthread *me = &T[vrt_tid];
	if (!vrt_active) {
		mtx_of(m)->owner = 0;
		return 0;
	}
	vrt_in_prim++;
	vrt_point();
	x = mtx_of(m);
	if (x->owner == vrt_tid)
		vrt_fail("SELFLOCK", "T%d relocks %s", vrt_tid, vrt_loc(m));
	while (x->owner != -1) {
		me->st = ST_MUTEX;
		me->wait_obj = m;
		sched();
		me->st = ST_RUN;
		x = mtx_of(m);
	}
	x->owner = vrt_tid;
	vrt_log("LOCK %s", vrt_loc(m));
	vrt_in_prim--;
	return 0;
}

int vrt_mutex_trylock(pthread_mutex_t *m)
{
	struct mtx *x;
	if (!vrt_active) {
		mtx_of(m)->owner = 0;
		return 0;
	}
	vrt_in_prim++;
	vrt_point();
	x = mtx_of(m);
	if (x->owner != -1) {
		vrt_log("TRYLOCK %s -> EBUSY", vrt_loc(m));
		vrt_in_prim--;
		return EBUSY;
	}
	x->owner = vrt_tid;
	vrt_log("LOCK %s", vrt_loc(m));
	vrt_in_prim--;
	return 0;
}

int vrt_mutex_unlock(pthread_mutex_t *m)
{
	struct mtx *x = mtx_of(m);
	if (!vrt_active) {
		x->owner = -1;
		return 0;
	}
	vrt_in_prim++;
	vrt_point();
	if (x->owner != vrt_tid)
		vrt_fail("BADUNLOCK", "T%d unlocks %s owned by %d", vrt_tid, vrt_loc(m), x->owner);
	x->owner = -1;
	vrt_log("UNLOCK %s", vrt_loc(m));
	vrt_in_prim--;
	return 0;
}

/* ---- condition variables (compat_futex_noasync and friends) ---------------------------------
 * cooperative: wait = release the mutex, sleep on the condition's address until a signal/broadcast marks us woken,
 * re-acquire the mutex.  A thread nobody ever signals shows up as a DEADLOCK, not as a hung harness process. */
int vrt_cond_wait(pthread_cond_t *c, pthread_mutex_t *m)
{
	struct vthread *me = &T[vrt_tid];
	if (!vrt_active)
		return 0;
	vrt_mutex_unlock(m);
	vrt_in_prim++;
	vrt_log("COND_WAIT %s", vrt_loc(c));
	me->st = ST_FUTEX;
	me->wait_obj = c;
	me->woken = 0;
	sched();
	me->st = ST_RUN;
	vrt_log("COND_WOKEN %s", vrt_loc(c));
	vrt_in_prim--;
	vrt_mutex_lock(m);
	return 0;
}

static int cond_wake(pthread_cond_t *c, int max, const char *what)
{
	int i, n = 0;
	if (!vrt_active)
		return 0;
	vrt_in_prim++;
	vrt_point();
	for (i = 0; i < nthreads && n < max; i++)
		if (T[i].used && !T[i].done && T[i].st == ST_FUTEX && T[i].wait_obj == (void *)c && !T[i].woken) {
			T[i].woken = 1;
			n++;
		}
	vrt_log("%s %s -> %d", what, vrt_loc(c), n);
	vrt_in_prim--;
	return 0;
}

int vrt_cond_broadcast(pthread_cond_t *c) { return cond_wake(c, VRT_MAXT, "COND_BROADCAST"); }
int vrt_cond_signal(pthread_cond_t *c) { return cond_wake(c, 1, "COND_SIGNAL"); }

/* ---- futex / membarrier ------------------------------------------------------------------ */
static long do_futex(int32_t *uaddr, int op, int32_t val)
{
	struct vthread *me = &T[vrt_tid];
	int i, n = 0;
	unsigned r;
	op &= ~FUTEX_PRIVATE_FLAG;
	if (!vrt_active) {
		/* before/after the cooperative phase nobody can be sleeping */
		if (op == FUTEX_WAIT) { errno = EAGAIN; return -1; }
		return 0;
	}
	vrt_in_prim++;
	vrt_point();
	if (op == FUTEX_WAIT) {
		r = choose(1000);
		if (r < (unsigned)f_enosys) {
			n_faults[2]++;
			vrt_log("FUTEX_WAIT %s val=%d -> ENOSYS", vrt_loc(uaddr), val);
			vrt_in_prim--;
			errno = ENOSYS;
			return -1;
		}
		r -= f_enosys;
		if (r < (unsigned)f_eintr) {
			n_faults[1]++;
			vrt_log("FUTEX_WAIT %s val=%d -> EINTR", vrt_loc(uaddr), val);
			vrt_in_prim--;
			errno = EINTR;
			return -1;
		}
		r -= f_eintr;
		if (r < (unsigned)f_spur) {
			n_faults[0]++;
			vrt_log("FUTEX_WAIT %s val=%d -> SPURIOUS", vrt_loc(uaddr), val);
			vrt_in_prim--;
			return 0;
		}
		if (__atomic_load_n(uaddr, __ATOMIC_SEQ_CST) != val) {
			vrt_log("FUTEX_WAIT %s val=%d -> EAGAIN", vrt_loc(uaddr), val);
			vrt_in_prim--;
			errno = EAGAIN;
			return -1;
		}
		vrt_log("FUTEX_WAIT %s val=%d -> SLEEP", vrt_loc(uaddr), val);
		me->st = ST_FUTEX;
		me->wait_obj = uaddr;
		me->woken = 0;
		sched();
		me->st = ST_RUN;
		vrt_log("FUTEX_WOKEN %s", vrt_loc(uaddr));
		vrt_in_prim--;
		return 0;
	}
	if (op == FUTEX_WAKE) {
		if (f_enosys >= 1000) {
			/* futex() unavailable altogether: compat wake is a no-op */
			vrt_log("FUTEX_WAKE %s n=%d -> ENOSYS", vrt_loc(uaddr), val);
			vrt_in_prim--;
			errno = ENOSYS;
			return -1;
		}
		for (i = 0; i < nthreads && n < val; i++)
			if (T[i].used && !T[i].done && T[i].st == ST_FUTEX && T[i].wait_obj == uaddr && !T[i].woken) {
				T[i].woken = 1;
				n++;
			}
		vrt_log("FUTEX_WAKE %s n=%d -> %d", vrt_loc(uaddr), val, n);
		vrt_in_prim--;
		return n;
	}
	vrt_in_prim--;
	errno = ENOSYS;
	return -1;
}

static void cfg_from_env(void)
{
	const char *e;
	if (vrt_cfg_membarrier >= 0)
		return;
	e = getenv("VRT_MEMBARRIER");
	vrt_cfg_membarrier = e ? atoi(e) : 1;
}

long vrt_syscall(long nr, ...)
{
	va_list ap;
	long a[6];
	int i;
	va_start(ap, nr);
	for (i = 0; i < 6; i++)
		a[i] = va_arg(ap, long);
	va_end(ap);
	if (nr == __NR_futex)
		return do_futex((int32_t *)a[0], (int)a[1], (int32_t)a[2]);
#ifdef __NR_membarrier
	if (nr == __NR_membarrier) {
		int cmd = (int)a[0];
		cfg_from_env();
		if (!vrt_cfg_membarrier) {
			errno = ENOSYS;
			return -1;
		}
		if (cmd == 0)	/* QUERY */
			return (1 << 0) | (1 << 3) | (1 << 4);
		if (cmd == (1 << 4))	/* REGISTER_PRIVATE_EXPEDITED */
			return 0;
		if (vrt_active) {
			vrt_in_prim++;
			vrt_point();
			vrt_log("MBAR cmd=%d", cmd);
			vrt_in_prim--;
		}
		return 0;
	}
#endif
	return syscall(nr, a[0], a[1], a[2], a[3], a[4], a[5]);
}

int vrt_poll(void *fds, unsigned long nfds, int timeout)
{
	struct vthread *me = &T[vrt_tid];
	(void)fds; (void)nfds; (void)timeout;
	if (!vrt_active)
		return 0;
	vrt_in_prim++;
	me->relax++;
	if (strategy == 1)
		me->prio = pct_low--;
	me->st = ST_POLL;
	sched();
	me->st = ST_RUN;
	vrt_log("POLL");
	vrt_in_prim--;
	return 0;
}

/* poll() of the futex compatibility layer: may be interrupted by a signal (fault plan --pollfaults N per mille) */
static int pollfaults;
int vrt_poll_compat(void *fds, unsigned long nfds, int timeout)
{
	if (vrt_active && pollfaults && choose(1000) < (unsigned)pollfaults) {
		vrt_in_prim++;
		vrt_point();
		vrt_log("POLL_EINTR");
		vrt_in_prim--;
		errno = EINTR;
		return -1;
	}
	return vrt_poll(fds, nfds, timeout);
}

void vrt_relax_impl(void)
{
	struct vthread *me = &T[vrt_tid];
	if (!vrt_active)
		return;
	vrt_in_prim++;
	me->relax++;
	if (strategy == 1)
		me->prio = pct_low--;
	me->st = ST_POLL;
	sched();
	me->st = ST_RUN;
	vrt_log("RELAX");
	vrt_in_prim--;
}

/* logical sleep: the thread is not scheduled for the next `n` global steps */
void vrt_sleep(unsigned long n)
{
	struct vthread *me = &T[vrt_tid];
	if (!vrt_active)
		return;
	me->st = ST_SLEEP;
	me->wake_step = steps + n;
	sched();
	me->st = ST_RUN;
}

/* ---- signals ----------------------------------------------------------------------------- */
void vrt_set_sighandler(void (*fn)(void)) { T[vrt_tid].sigh = fn; }
void vrt_sig_block(int blocked) { T[vrt_tid].sigblocked = blocked; }
int vrt_sig_depth(void) { return T[vrt_tid].sigdepth; }

/* ---- fork (C16) ---------------------------------------------------------------------------
 * Real fork().  The child contains only the calling thread: every other cooperative thread is
 * marked dead, the mutex table keeps the owners it had (a mutex held by a vanished thread stays
 * held: that is what the atfork handlers are for).  The child's trace is a new file
 * "<trace>.child<k>" that starts with a copy of the parent's trace up to the fork, followed by
 * a "T<tid> FORK_CHILD" line, so that a driver can replay the common prefix and then continue
 * with the child.  Requires --trace FILE.  Returns like fork(). */
static int nforks;
int vrt_fork(void)
{
	pid_t pid;
	int i, me = vrt_tid;
	char cpath[512];
	if (!vrt_active || !trace_path[0])
		return (int)fork();
	vrt_in_prim++;
	vrt_point();
	nforks++;
	vrt_log("FORK %d", nforks);
	fflush(trace);
	pid = fork();
	if (pid < 0) { vrt_in_prim--; return -1; }
	if (pid == 0) {
		FILE *in, *out;
		int c;
		snprintf(cpath, sizeof(cpath), "%s.child%d", trace_path, nforks);
		in = fopen(trace_path, "r");
		out = fopen(cpath, "w");
		if (!in || !out) _exit(9);
		while ((c = fgetc(in)) != EOF) fputc(c, out);
		fclose(in);
		trace = out;
		setvbuf(trace, NULL, _IOFBF, 1 << 16);
		snprintf(trace_path, sizeof(trace_path), "%s", cpath);
		snprintf(choices_path, sizeof(choices_path), "%s.choices", cpath);
		for (i = 0; i < nthreads; i++)
			if (i != me && T[i].used) {
				T[i].done = 1;
				T[i].joined = 1;	/* nothing to join in this process */
			}
		/* the forking thread is the child's only thread; if it is not the scenario's main
		 * thread, main never runs again here: make the forking thread the one that finishes */
		vrt_log("FORK_CHILD %d", nforks);
		vrt_in_prim--;
		return 0;
	}
	vrt_log("FORK_PARENT %d", nforks);
	vrt_in_prim--;
	return (int)pid;
}

/* parent: wait for a forked child and fold its verdict into ours (0 ok / 3 oracle / 4 deadlock / 5 budget) */
int vrt_wait_child(int pid)
{
	int st = 0, code;
	vrt_in_prim++;
	if (waitpid(pid, &st, 0) < 0) { vrt_in_prim--; return -1; }
	vrt_in_prim--;
	code = WIFEXITED(st) ? WEXITSTATUS(st) : 128 + (WIFSIGNALED(st) ? WTERMSIG(st) : 0);
	vrt_log("CHILD_EXIT %d", code);
	if (code != 0)
		vrt_fail("child", "forked child ended with status %d", code);
	return code;
}

/* ---- init / finish ----------------------------------------------------------------------- */
int vrt_init(int argc, char **argv)
{
	int i, j = 1;
	uint64_t seed = 1;
	const char *tr = NULL;
	cfg_from_env();
	for (i = 1; i < argc; i++) {
		if (!strcmp(argv[i], "--seed") && i + 1 < argc) seed = strtoull(argv[++i], 0, 0);
		else if (!strcmp(argv[i], "--strategy") && i + 1 < argc) { i++; strategy = !strcmp(argv[i], "pct") ? 1 : !strcmp(argv[i], "sweep") ? 2 : 0; }
		else if (!strcmp(argv[i], "--preempt-at") && i + 1 < argc) preempt_at = strtoul(argv[++i], 0, 0);
		else if (!strcmp(argv[i], "--preempt-tid") && i + 1 < argc) preempt_tid = atoi(argv[++i]);
		else if (!strcmp(argv[i], "--preempt-len") && i + 1 < argc) preempt_len = atoi(argv[++i]);
		else if (!strcmp(argv[i], "--hold-at") && i + 1 < argc) hold_at = strtoul(argv[++i], 0, 0);
		else if (!strcmp(argv[i], "--hold-tid") && i + 1 < argc) hold_tid = atoi(argv[++i]);
		else if (!strcmp(argv[i], "--hold-len") && i + 1 < argc) hold_len = strtoul(argv[++i], 0, 0);
		else if (!strcmp(argv[i], "--pswitch") && i + 1 < argc) pswitch = atoi(argv[++i]);
		else if (!strcmp(argv[i], "--psig") && i + 1 < argc) psig = atoi(argv[++i]);
		else if (!strcmp(argv[i], "--sigdepth") && i + 1 < argc) maxsigdepth = atoi(argv[++i]);
		else if (!strcmp(argv[i], "--budget") && i + 1 < argc) budget = strtoul(argv[++i], 0, 0);
		else if (!strcmp(argv[i], "--pollfaults") && i + 1 < argc) pollfaults = atoi(argv[++i]);
		else if (!strcmp(argv[i], "--pctd") && i + 1 < argc) pct_d = atoi(argv[++i]);
		else if (!strcmp(argv[i], "--pctlen") && i + 1 < argc) pct_len = strtoul(argv[++i], 0, 0);
		else if (!strcmp(argv[i], "--trace") && i + 1 < argc) tr = argv[++i];
		else if (!strcmp(argv[i], "--ncpus") && i + 1 < argc) vrt_cfg_ncpus = atoi(argv[++i]);
		else if (!strcmp(argv[i], "--faults") && i + 1 < argc) {
			/* per-mille rates: spur=N,eintr=N,enosys=N */
			char *s = argv[++i], *p;
			if ((p = strstr(s, "spur="))) f_spur = atoi(p + 5);
			if ((p = strstr(s, "eintr="))) f_eintr = atoi(p + 6);
			if ((p = strstr(s, "enosys="))) f_enosys = atoi(p + 7);
		} else
			argv[j++] = argv[i];
	}
	argv[j] = NULL;
	rng = seed * 0x9E3779B97F4A7C15ULL + 0x7f4a7c15;
	rng2 = seed * 0xD1B54A32D192ED03ULL + 0x1234567;
	for (i = 0; i < 8; i++) { xs(&rng); xs(&rng2); }
	if (pct_d > 16) pct_d = 16;
	for (i = 0; i < pct_d; i++)
		pct_points[i] = 1 + xs(&rng) % pct_len;
	if (tr) {
		trace = fopen(tr, "w");
		if (!trace) { perror(tr); _exit(9); }
		snprintf(trace_path, sizeof(trace_path), "%s", tr);
		snprintf(choices_path, sizeof(choices_path), "%s.choices", tr);
	} else
		trace = stdout;
	setvbuf(trace, NULL, _IOFBF, 1 << 16);
	memset(&T[0], 0, sizeof(T[0]));
	T[0].used = 1;
	T[0].st = ST_RUN;
	T[0].prio = 500;
	snprintf(T[0].name, sizeof(T[0].name), "main");
	sem_init(&T[0].sem, 0, 0);
	vrt_tid = 0;
	pthread_key_create(&exit_key, exit_handoff);
	for (i = 0; i < nm; i++)
		M[i].owner = -1;
	vrt_active = 1;
	vrt_raw("# vrt seed=%llu strategy=%s pswitch=%d psig=%d faults=%d/%d/%d membarrier=%d", (unsigned long long)seed,
		strategy == 1 ? "pct" : strategy == 2 ? "sweep" : "rand", pswitch, psig, f_spur, f_eintr, f_enosys, vrt_cfg_membarrier);
	return j;
}

void vrt_finish(void)
{
	int i;
	for (i = 1; i < nthreads; i++)
		if (T[i].used)
			vrt_join(i);
	vrt_raw("# END steps=%lu threads=%d choices=%zu faults spur=%lu eintr=%lu enosys=%lu signals=%lu failed=%d", steps,
		nthreads, nchoices, n_faults[0], n_faults[1], n_faults[2], n_faults[3], vrt_failed);
	vrt_active = 0;
	out_flush();
	if (vrt_failed)
		dump_choices();
}
