/*
 * vrt — deterministic cooperative runtime for the trace-refinement tie (DESIGN.md §1.2).
 *
 * Real pthreads, but exactly one runs at a time.  Every shimmed shared-memory primitive is a
 * scheduling point (vrt_point) followed by the access and one event line.  Blocking primitives
 * (mutex, futex, join, poll) are implemented here so that the scheduler sees them.
 * All choices derive from one PRNG (seed); the list of choices is recorded for exact replay.
 */
#ifndef VRT_H
#define VRT_H
#include <stdint.h>
#include <stdio.h>
#include <stddef.h>
#include <pthread.h>
#include <time.h>

#ifdef __cplusplus
extern "C" {
#endif

#define VRT_MAXT 64

/* ---- setup ---- */
/* options: --seed N --strategy rand|pct|replay --pswitch PCT --budget N --trace FILE
 *          --choices FILE (replay) --faults spur=PCT,eintr=PCT,enosys=PCT --psig PCT --pctd D
 *          scenario-specific options are left in argv (returns new argc). */
int  vrt_init(int argc, char **argv);
void vrt_finish(void);			/* join everything, flush trace, write choice list */
extern int vrt_active;			/* 0 before vrt_init (library constructors) and after finish */

/* ---- threads ---- */
int  vrt_spawn(const char *name, void *(*fn)(void *), void *arg);	/* returns tid (1..) */
void vrt_join(int tid);
int  vrt_self(void);
int  vrt_nthreads(void);
int  vrt_done(int tid);
void vrt_freeze(int tid, int frozen);	/* frozen threads are never scheduled (C17 solo runs) */

/* ---- events / scheduling ---- */
void vrt_sleep(unsigned long n);		/* logical sleep: not scheduled for the next n global steps */
void vrt_point(void);			/* scheduling point (may also deliver a synthetic signal) */
void vrt_log(const char *fmt, ...) __attribute__((format(printf, 1, 2)));	/* "T<tid> ...\n", no scheduling */
void vrt_raw(const char *fmt, ...) __attribute__((format(printf, 1, 2)));	/* line without thread prefix */
uint64_t vrt_rand(void);		/* scenario random choices (same PRNG stream family, separate state) */
unsigned long vrt_steps(void);
unsigned long vrt_mysteps(void);	/* scheduling points passed by the calling thread */
unsigned long vrt_myrelax(void);
unsigned long vrt_total_relax(void);	/* spin hints executed by all threads so far */	/* caa_cpu_relax/poll events of the calling thread (waiting) */
void vrt_fail(const char *kind, const char *fmt, ...) __attribute__((format(printf, 2, 3)));	/* ORACLE failure: recorded, exit code 3 at finish */
extern int vrt_failed;

/* ---- symbolic names ---- */
void vrt_name(const void *p, size_t size, const char *fmt, ...) __attribute__((format(printf, 3, 4)));
void vrt_unname(const void *p);
const char *vrt_loc(const void *p);	/* "name" / "name+off" / "?" (static rotating buffers) */
const char *vrt_val(unsigned long v);	/* "&name[+off][|flags]" if v (low 3 bits masked) points into a named object, else number */
int vrt_is_named(const void *p);
extern const char *(*vrt_unknown_hook)(const void *p);	/* called for unnamed addresses; may vrt_name() them; non-NULL = named now */

/* ---- blocking primitives ---- */
int  vrt_mutex_lock(pthread_mutex_t *m);
int  vrt_mutex_trylock(pthread_mutex_t *m);
int  vrt_mutex_unlock(pthread_mutex_t *m);
int  vrt_cond_wait(pthread_cond_t *c, pthread_mutex_t *m);
int  vrt_cond_broadcast(pthread_cond_t *c);
int  vrt_cond_signal(pthread_cond_t *c);
long vrt_syscall(long nr, ...);		/* futex + membarrier; everything else passes through */
int  vrt_poll(void *fds, unsigned long nfds, int timeout);
int  vrt_poll_compat(void *fds, unsigned long nfds, int timeout);
int  vrt_pthread_create(pthread_t *t, const pthread_attr_t *a, void *(*fn)(void *), void *arg);
int  vrt_pthread_join(pthread_t t, void **ret);
void vrt_pthread_exit(void *ret) __attribute__((noreturn));
int  vrt_sched_getcpu(void);
extern int vrt_cfg_membarrier;		/* 1: sys_membarrier available (private expedited), 0: ENOSYS */
extern int vrt_cfg_ncpus;
extern int vrt_cfg_cpu_of[VRT_MAXT];	/* sched_getcpu() answer per thread */

/* ---- fork (C16): real fork(); child = calling thread only, own trace file <trace>.child<k> ---- */
int  vrt_fork(void);
int  vrt_wait_child(int pid);

/* ---- synthetic signals (C19) ---- */
void vrt_set_sighandler(void (*fn)(void));	/* for the calling thread; NULL disables */
void vrt_sig_block(int blocked);		/* model of pthread_sigmask(SIG_BLOCK all) for the calling thread */
int  vrt_sig_depth(void);

/* ---- plain-access instrumentation (vrt_tsan.c) ---- */
extern __thread int vrt_in_prim;	/* >0: inside a shimmed primitive, access callbacks stay silent */

#ifdef __cplusplus
}
#endif
#endif
