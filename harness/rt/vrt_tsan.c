/*
 * vrt_tsan.c — plain-access instrumentation for the cooperative runtime (DESIGN.md §1.2(b)).
 *
 * Replacement for libtsan's entry points.  A scenario TU compiled with `gcc -fsanitize=thread -c`
 * calls __tsan_read<N>/__tsan_write<N>(addr) before every plain C access it performs and
 * __tsan_atomic<N>_<op>() in place of every __atomic builtin.  THIS file (and vrt.c) is compiled
 * WITHOUT -fsanitize=thread and the program is linked WITHOUT -fsanitize=thread, so libtsan is
 * never pulled in and the callbacks below are the only "sanitizer runtime".
 *
 *   gcc -O1 -g -fsanitize=thread -c scen/<x>.c  -o x.o          (instrumented: the real /repo code)
 *   gcc -O1 -g -c rt/vrt.c rt/vrt_tsan.c                         (NOT instrumented)
 *   gcc -pthread -o x x.o vrt.o vrt_tsan.o                       (no -fsanitize=thread here)
 *
 * Behaviour.  An access is *reported* iff   vrt_active  &&  vrt_in_prim == 0  &&  vrt_tsan_quiet == 0
 * &&  the address lies inside an object registered with vrt_name()  (thread stacks, which vrt.c
 * names "stack<tid>", are skipped unless vrt_tsan_stacks is set).  Everything else is ignored:
 * no event, no scheduling point.
 *
 *   plain read   : vrt_point();  "T<t> PLD <loc> <val> <size>"   value read inside the callback: the
 *                  real load follows immediately and no other thread runs in between
 *   plain write  : vrt_point();  "T<t> PST <loc> <size>"         logged BEFORE the store (the callback
 *                  cannot know the value).  The address is remembered and the value found there is
 *                  logged as "T<t> PSTV <loc> <val> <size>" at the thread's next callback (any
 *                  __tsan_* entry, including the atomics the shim macros expand to and
 *                  __tsan_func_exit) or at an explicit vrt_tsan_flush().  PSTV lines are therefore
 *                  not position-exact with respect to marker lines of the same thread; consumers
 *                  treat them as "the last PST of T<t> stored <val>".
 *   range        : "PLDR/PSTR <loc> <bytes>" (memcpy-like accesses; scheduling point)
 *   atomics outside the macro shim (raw __atomic builtins on named objects):
 *                  ALD loc val mo | AST loc val mo | AXCHG loc new old mo | ACAS loc expected new old mos mof |
 *                  AADD/ASUB/AAND/AOR/AXOR/ANAND loc operand old mo | AFENCE mo     (scheduling points)
 *   atomics inside a shimmed primitive (vrt_in_prim > 0) or on unnamed memory: performed silently.
 *
 * Oracle / bookkeeping code of a scenario that inspects named objects must not be reported: mark
 * it __attribute__((no_sanitize("thread"))) or bracket it with vrt_tsan_quiet++ / vrt_tsan_quiet--.
 */
#define _GNU_SOURCE
#include "vrt.h"
#include <string.h>
#include <stdint.h>

__thread int vrt_tsan_quiet;		/* >0: callbacks of this thread stay silent */
int vrt_tsan_stacks;			/* 1: also report accesses to the named thread stacks */
unsigned long vrt_tsan_nreported;	/* statistics */

static __thread const void *pend_addr;
static __thread int pend_size;

static unsigned long peek(const void *a, int size)
{
	switch (size) {
	case 1: return *(const volatile uint8_t *)a;
	case 2: { uint16_t v; memcpy(&v, a, 2); return v; }
	case 4: { uint32_t v; memcpy(&v, a, 4); return v; }
	case 8: { uint64_t v; memcpy(&v, a, 8); return v; }
	default: { uint64_t v; memcpy(&v, a, 8); return v; }	/* 16: low half */
	}
}

void vrt_tsan_flush(void)
{
	if (pend_addr) {
		const void *a = pend_addr;
		pend_addr = NULL;
		if (vrt_active)
			vrt_log("PSTV %s %s %d", vrt_loc(a), vrt_val(peek(a, pend_size)), pend_size);
	}
}

/* is this access to be reported? */
static inline int hot(const void *a)
{
	const char *l;
	if (!vrt_active || vrt_in_prim || vrt_tsan_quiet)
		return 0;
	if (!vrt_is_named(a))
		return 0;
	if (!vrt_tsan_stacks) {
		l = vrt_loc(a);
		if (l[0] == 's' && !strncmp(l, "stack", 5))
			return 0;
	}
	return 1;
}

static inline void on_read(const void *a, int size)
{
	if (pend_addr)
		vrt_tsan_flush();
	if (!hot(a))
		return;
	vrt_in_prim++;
	vrt_point();
	vrt_tsan_nreported++;
	vrt_log("PLD %s %s %d", vrt_loc(a), vrt_val(peek(a, size)), size);
	vrt_in_prim--;
}

static inline void on_write(const void *a, int size)
{
	if (pend_addr)
		vrt_tsan_flush();
	if (!hot(a))
		return;
	vrt_in_prim++;
	vrt_point();
	vrt_tsan_nreported++;
	vrt_log("PST %s %d", vrt_loc(a), size);
	vrt_in_prim--;
	pend_addr = a;
	pend_size = size;
}

#define RW(n)									\
void __tsan_read##n(void *a) { on_read(a, n); }					\
void __tsan_write##n(void *a) { on_write(a, n); }				\
void __tsan_unaligned_read##n(void *a) { on_read(a, n); }			\
void __tsan_unaligned_write##n(void *a) { on_write(a, n); }			\
void __tsan_read##n##_pc(void *a, void *pc) { (void)pc; on_read(a, n); }	\
void __tsan_write##n##_pc(void *a, void *pc) { (void)pc; on_write(a, n); }
RW(1) RW(2) RW(4) RW(8) RW(16)

void __tsan_init(void) { }
void __tsan_func_entry(void *pc) { (void)pc; }
void __tsan_func_exit(void) { if (pend_addr) vrt_tsan_flush(); }
void __tsan_vptr_update(void **a, void *b) { (void)b; on_write(a, 8); }
void __tsan_vptr_read(void **a) { on_read(a, 8); }

static void on_range(const void *a, unsigned long s, const char *op)
{
	if (pend_addr)
		vrt_tsan_flush();
	if (!s || !hot(a))
		return;
	vrt_in_prim++;
	vrt_point();
	vrt_tsan_nreported++;
	vrt_log("%s %s %lu", op, vrt_loc(a), s);
	vrt_in_prim--;
}
void __tsan_read_range(void *a, unsigned long s) { on_range(a, s, "PLDR"); }
void __tsan_write_range(void *a, unsigned long s) { on_range(a, s, "PSTR"); }
void __tsan_read_range_pc(void *a, unsigned long s, void *pc) { (void)pc; on_range(a, s, "PLDR"); }
void __tsan_write_range_pc(void *a, unsigned long s, void *pc) { (void)pc; on_range(a, s, "PSTR"); }

void *__tsan_memcpy(void *d, const void *s, size_t n)
{
	on_range(s, n, "PLDR"); on_range(d, n, "PSTR");
	return memcpy(d, s, n);
}
void *__tsan_memmove(void *d, const void *s, size_t n)
{
	on_range(s, n, "PLDR"); on_range(d, n, "PSTR");
	return memmove(d, s, n);
}
void *__tsan_memset(void *d, int c, size_t n)
{
	on_range(d, n, "PSTR");
	return memset(d, c, n);
}

/* ---- atomics: this file is not instrumented, so the builtins below are the real instructions ---- */
#define PRE(a)	int _h; if (pend_addr) vrt_tsan_flush(); _h = hot((const void *)(a)); \
		if (_h) { vrt_in_prim++; vrt_point(); vrt_tsan_nreported++; }
#define POST()	if (_h) vrt_in_prim--

#define ATOMICS(n, T)											\
T __tsan_atomic##n##_load(const volatile T *a, int mo)							\
{ PRE(a); T v = __atomic_load_n(a, __ATOMIC_SEQ_CST);							\
  if (_h) vrt_log("ALD %s %s %d", vrt_loc((const void *)a), vrt_val((unsigned long)v), mo); POST(); return v; }	\
void __tsan_atomic##n##_store(volatile T *a, T v, int mo)						\
{ PRE(a); __atomic_store_n(a, v, __ATOMIC_SEQ_CST);							\
  if (_h) vrt_log("AST %s %s %d", vrt_loc((const void *)a), vrt_val((unsigned long)v), mo); POST(); }		\
T __tsan_atomic##n##_exchange(volatile T *a, T v, int mo)						\
{ PRE(a); T o = __atomic_exchange_n(a, v, __ATOMIC_SEQ_CST);						\
  if (_h) vrt_log("AXCHG %s %s %s %d", vrt_loc((const void *)a), vrt_val((unsigned long)v), vrt_val((unsigned long)o), mo); POST(); return o; } \
int __tsan_atomic##n##_compare_exchange_strong(volatile T *a, T *c, T v, int mo, int fmo)		\
{ PRE(a); T e = *c; int r = __atomic_compare_exchange_n(a, c, v, 0, __ATOMIC_SEQ_CST, __ATOMIC_SEQ_CST);	\
  if (_h) vrt_log("ACAS %s %s %s %s %d %d", vrt_loc((const void *)a), vrt_val((unsigned long)e), vrt_val((unsigned long)v), vrt_val((unsigned long)*c), mo, fmo); \
  POST(); return r; }											\
int __tsan_atomic##n##_compare_exchange_weak(volatile T *a, T *c, T v, int mo, int fmo)			\
{ return __tsan_atomic##n##_compare_exchange_strong(a, c, v, mo, fmo); }				\
T __tsan_atomic##n##_compare_exchange_val(volatile T *a, T c, T v, int mo, int fmo)			\
{ __tsan_atomic##n##_compare_exchange_strong(a, &c, v, mo, fmo); return c; }				\
ATOMIC_RMW(n, T, fetch_add, "AADD") ATOMIC_RMW(n, T, fetch_sub, "ASUB") ATOMIC_RMW(n, T, fetch_and, "AAND")	\
ATOMIC_RMW(n, T, fetch_or, "AOR") ATOMIC_RMW(n, T, fetch_xor, "AXOR") ATOMIC_RMW(n, T, fetch_nand, "ANAND")

#define ATOMIC_RMW(n, T, op, name)									\
T __tsan_atomic##n##_##op(volatile T *a, T v, int mo)							\
{ PRE(a); T o = __atomic_##op(a, v, __ATOMIC_SEQ_CST);							\
  if (_h) vrt_log(name " %s %s %s %d", vrt_loc((const void *)a), vrt_val((unsigned long)v), vrt_val((unsigned long)o), mo); POST(); return o; }

ATOMICS(8, uint8_t)
ATOMICS(16, uint16_t)
ATOMICS(32, uint32_t)
ATOMICS(64, uint64_t)

void __tsan_atomic_thread_fence(int mo)
{
	if (pend_addr)
		vrt_tsan_flush();
	if (vrt_active && !vrt_in_prim && !vrt_tsan_quiet) {
		vrt_in_prim++;
		vrt_point();
		__atomic_thread_fence(__ATOMIC_SEQ_CST);
		vrt_log("AFENCE %d", mo);
		vrt_in_prim--;
		return;
	}
	__atomic_thread_fence(__ATOMIC_SEQ_CST);
}

void __tsan_atomic_signal_fence(int mo)
{
	(void)mo;
	if (pend_addr)
		vrt_tsan_flush();
	__atomic_signal_fence(__ATOMIC_SEQ_CST);
}
