/*
 * C14 tie, concurrent part: the REAL src/urcu-poll-impl.h under the cooperative runtime.
 * Several threads call start_poll_synchronize_rcu()/poll_state_synchronize_rcu() while a helper
 * thread (the abstract call_rcu helper: waits for a grace period, then invokes the queued worker
 * callback) and reader threads run; the poll mutex is the runtime's, so a thread can be preempted
 * right before it acquires it (which is where an access moved out of the critical section shows).
 *
 * Output: one line per model operation, tagged with the ticket it took at its linearisation point
 * (the mutex acquisition for API bodies; the instant itself for environment events):
 *     SEQ <ticket> start <g> <queued> | poll <g> <0|1> | worker <requeued> | gps | gpe | lock i | unlock i
 * props/c14.py sorts by ticket and feeds the lines to drv_poll (same model as the sequential tie).
 * Independent oracle: poll(h) true => every section open when h was taken has ended; true stays true.
 */
#include "vrt_shim.h"
#include <stdbool.h>
#include <urcu/call-rcu.h>

static long ticket;
static __thread long my_ticket;
static __thread int my_queued;	/* call_rcu() was invoked by this thread's current API call */

static void mutex_lock(pthread_mutex_t *m) { pthread_mutex_lock(m); my_ticket = ++ticket; }
static void mutex_unlock(pthread_mutex_t *m) { pthread_mutex_unlock(m); }

static struct rcu_head *pending_head;
static void (*pending_func)(struct rcu_head *);
static int call_rcu_count;
static long pending_enq;
static void h_call_rcu(struct rcu_head *head, void (*func)(struct rcu_head *))
{
	if (pending_head) vrt_fail("double_call_rcu", "worker callback queued twice");
	pending_head = head;
	pending_func = func;
	pending_enq = ticket;
	call_rcu_count++;
	my_queued = 1;
}
#undef call_rcu
#define call_rcu h_call_rcu
#undef start_poll_synchronize_rcu
#undef poll_state_synchronize_rcu

#include "urcu-poll-impl.h"

#define MAXR 4
#define MAXH 512
static int nreaders = 2, npollers = 2, pops = 12, rops = 20, hold = 2;
static long cs_begin[MAXR];		/* ticket at which reader i's open section began, 0 = none */
static int stop_helper;
static unsigned long base;

struct hinfo { unsigned long id; long issue; long open_begin[MAXR]; int was_true; };
static struct hinfo H[MAXH];
static int nh;

static long rel(unsigned long id) { return (long)(id - base); }

static void *reader(void *arg)
{
	int r = (int)(long)arg, i;
	for (i = 0; i < rops; i++) {
		vrt_point();
		if (!cs_begin[r]) { cs_begin[r] = ++ticket; vrt_raw("SEQ %ld lock %d", ticket, r); }
		else if (vrt_rand() % hold == 0) { cs_begin[r] = 0; ++ticket; vrt_raw("SEQ %ld unlock %d", ticket, r); }
	}
	vrt_point();
	if (cs_begin[r]) { cs_begin[r] = 0; ++ticket; vrt_raw("SEQ %ld unlock %d", ticket, r); }
	return NULL;
}

/* abstract call_rcu helper: a grace period that starts after the callback was queued, then the callback */
static void *helper(void *arg)
{
	(void)arg;
	for (;;) {
		long start, snap[MAXR];
		int i, busy;
		vrt_point();
		if (!pending_head) {
			if (stop_helper) break;
			vrt_poll(NULL, 0, 1);
			continue;
		}
		start = ++ticket;
		vrt_raw("SEQ %ld gps", start);
		for (i = 0; i < nreaders; i++) snap[i] = cs_begin[i];
		do {
			busy = 0;
			for (i = 0; i < nreaders; i++)
				if (snap[i] && cs_begin[i] == snap[i]) busy = 1;
			if (busy) vrt_poll(NULL, 0, 1);
		} while (busy);
		++ticket;
		vrt_raw("SEQ %ld gpe", ticket);
		vrt_point();
		{
			struct rcu_head *h = pending_head;
			void (*f)(struct rcu_head *) = pending_func;
			pending_head = NULL;
			my_queued = 0;
			f(h);
			vrt_raw("SEQ %ld worker %d", my_ticket, my_queued);
		}
	}
	return NULL;
}

static void *poller(void *arg)
{
	int i, k, mine[64], nm = 0;
	(void)arg;
	for (i = 0; i < pops; i++) {
		vrt_point();
		if (nm < 64 && (nm == 0 || vrt_rand() % 3 == 0)) {
			int j;
			long open_now[MAXR];
			struct urcu_gp_poll_state st;
			/* sections open when start_poll is CALLED (before anything the call does) */
			for (j = 0; j < nreaders; j++) open_now[j] = cs_begin[j];
			my_queued = 0;
			st = start_poll_synchronize_rcu();
			vrt_raw("SEQ %ld start %ld %d", my_ticket, rel(st.grace_period_id), my_queued);
			if (nh < MAXH) {
				k = nh++;
				H[k].id = st.grace_period_id; H[k].issue = my_ticket; H[k].was_true = 0;
				for (j = 0; j < nreaders; j++) H[k].open_begin[j] = open_now[j];
				mine[nm++] = k;
			}
		} else {
			struct urcu_gp_poll_state st;
			bool r;
			int j;
			k = mine[vrt_rand() % nm];
			st.grace_period_id = H[k].id;
			r = poll_state_synchronize_rcu(st);
			vrt_raw("SEQ %ld poll %ld %d", my_ticket, rel(H[k].id), (int)r);
			if (r) {
				for (j = 0; j < nreaders; j++)
					if (H[k].open_begin[j] && cs_begin[j] == H[k].open_begin[j])
						vrt_fail("early", "poll(handle id %ld) true while reader %d section begun at %ld (open when start_poll was called) is still open",
							 rel(H[k].id), j, cs_begin[j]);
				H[k].was_true = 1;
			} else if (H[k].was_true)
				vrt_fail("nonmonotone", "poll(handle id %ld) false after true", rel(H[k].id));
		}
	}
	return NULL;
}

int main(int argc, char **argv)
{
	int i, t[16], nt = 0, ht;
	argc = vrt_init(argc, argv);
	for (i = 1; i < argc; i++) {
		if (!strcmp(argv[i], "--readers") && i + 1 < argc) nreaders = atoi(argv[++i]);
		else if (!strcmp(argv[i], "--pollers") && i + 1 < argc) npollers = atoi(argv[++i]);
		else if (!strcmp(argv[i], "--pops") && i + 1 < argc) pops = atoi(argv[++i]);
		else if (!strcmp(argv[i], "--rops") && i + 1 < argc) rops = atoi(argv[++i]);
		else if (!strcmp(argv[i], "--base") && i + 1 < argc) base = strtoul(argv[++i], 0, 0);
		else if (!strcmp(argv[i], "--hold") && i + 1 < argc) hold = atoi(argv[++i]);
	}
	if (nreaders > MAXR) nreaders = MAXR;
	poll_worker_gp_state.current_state.grace_period_id = base;
	poll_worker_gp_state.latest_target.grace_period_id = base;
	vrt_name(&poll_worker_gp_state.lock, sizeof(pthread_mutex_t), "poll_lock");
	vrt_raw("SEQ 0 n %d", nreaders);
	ht = vrt_spawn("helper", helper, NULL);
	for (i = 0; i < nreaders; i++) t[nt++] = vrt_spawn("reader", reader, (void *)(long)i);
	for (i = 0; i < npollers; i++) t[nt++] = vrt_spawn("poller", poller, NULL);
	for (i = 0; i < nt; i++) vrt_join(t[i]);
	stop_helper = 1;
	vrt_join(ht);
	vrt_finish();
	return vrt_failed ? 3 : 0;
}
