/*
 * C08 tie: runs the REAL src/rculfhash.c (included below, unmodified, so that the static helpers
 * are reachable too) with the real rculfhash-mm-*.c / workqueue.c / urcu.c (memb flavor), one
 * thread, on generated (init,min,max,flags,mm,alloc) tuples and operation sequences, and prints
 * one line per operation with what the implementation returned.  Driver/Lfht.lean replays the
 * same lines on the Lean model (Lfht/Seq) and on the pure functions of Lfht/Bits.lean.
 *
 * Independent oracle (plain C, does not use the model): a reference multimap keyed by
 * (hash,key) holding node ids in the order the API exposes; checks every result, exactly-once
 * traversal in non-decreasing reversed-hash order, count_nodes, destroy iff empty, new
 * accept/reject and the normalised sizes, resize result, allocator balance (custom allocator).
 * On a violation: `ORACLE ...` on stderr, exit 3.
 *
 * usage: lfht_seq <seed> <nconfigs> <nseq> <maxops> [big] [nohelper]
 *   nconfigs = 0: only the differential test of the bit helpers (5000 random inputs)
 * Output is deterministic for a given command line (node ids are indexes, no addresses).
 */
#include <stdarg.h>
#include <urcu/urcu-memb.h>
#include "rculfhash.c"
#include <inttypes.h>

/* ------------------------------------------------------------------------------------------ */
static uint64_t rng_s;
static uint64_t rnd(void)
{
	rng_s ^= rng_s << 13; rng_s ^= rng_s >> 7; rng_s ^= rng_s << 17;
	return rng_s;
}
static unsigned long rn(unsigned long n) { return n ? rnd() % n : 0; }

static unsigned long g_seed;
static int g_cfg, g_seq, g_op;
static char g_last[256];

static void oracle_fail(const char *fmt, ...)
{
	va_list ap;
	fflush(stdout);
	fprintf(stderr, "ORACLE seed=%lu config=%d seq=%d op=%d last='%s': ", g_seed, g_cfg, g_seq, g_op, g_last);
	va_start(ap, fmt);
	vfprintf(stderr, fmt, ap);
	va_end(ap);
	fprintf(stderr, "\n");
	exit(3);
}

/* ------------------------------------------------------------------------------------------ */
/* naive references for the bit helpers (oracle side) */
static unsigned long naive_rev(unsigned long x)
{
	unsigned long r = 0;
	int i;
	for (i = 0; i < 64; i++)
		if (x & (1UL << i))
			r |= 1UL << (63 - i);
	return r;
}
static unsigned naive_fls(unsigned long x)
{
	unsigned r = 0;
	while (x) { r++; x >>= 1; }
	return r;
}
static int naive_count_order(unsigned long x)
{
	int o = 0;
	if (!x)
		return -1;
	while (o < 64 && (o == 64 ? 0 : ((1UL << o) < x)))
		o++;
	return o;
}
static int is_pow2(unsigned long x)
{
	int i, c = 0;
	for (i = 0; i < 64; i++)
		c += (x >> i) & 1;
	return c == 1;
}

static void helper_tests(int n)
{
	static const unsigned long fixed[] = { 0, 1, 2, 3, 4, 5, 7, 8, 9, 15, 16, 17, 255, 256, 257, 0x80, 0xff00,
		0xffffffffUL, 0x100000000UL, 0x100000001UL, 0x7fffffffffffffffUL, 0x8000000000000000UL,
		0x8000000000000001UL, 0xffffffffffffffffUL, 0xfffffffffffffffeUL, 0x0123456789abcdefUL,
		0xaaaaaaaaaaaaaaaaUL, 0x5555555555555555UL, 0x00ff00ff00ff00ffUL, 0x1000, 0xfff, 0x1001 };
	int i, nf = sizeof(fixed) / sizeof(fixed[0]);

	for (i = 0; i < nf + 64 + 256 + n; i++) {
		unsigned long x, r;
		unsigned f;
		int c, c32;

		if (i < nf)
			x = fixed[i];
		else if (i < nf + 64)
			x = 1UL << (i - nf);
		else if (i < nf + 64 + 256)
			x = ((unsigned long)(i - nf - 64)) << (8 * rn(8));	/* every table entry, every byte lane */
		else {
			x = rnd();
			if (rn(3) == 0) x >>= rn(64);
			if (rn(4) == 0) x = (1UL << rn(64)) - rn(2);
		}
		r = bit_reverse_ulong(x);
		f = cds_lfht_fls_ulong(x);
		c = cds_lfht_get_count_order_ulong(x);
		c32 = cds_lfht_get_count_order_u32((uint32_t) x);
		printf("rev %lu %lu\n", x, r);
		printf("fls %lu %u\n", x, f);
		printf("cou %lu %d\n", x, c);
		printf("co32 %lu %d\n", x, c32);
		if (r != naive_rev(x))
			oracle_fail("bit_reverse_ulong(%#lx) = %#lx, expected %#lx", x, r, naive_rev(x));
		if (bit_reverse_ulong(r) != x)
			oracle_fail("bit_reverse_ulong not involutive on %#lx", x);
		if (f != naive_fls(x))
			oracle_fail("cds_lfht_fls_ulong(%#lx) = %u, expected %u", x, f, naive_fls(x));
		if (c != naive_count_order(x))
			oracle_fail("cds_lfht_get_count_order_ulong(%#lx) = %d, expected %d", x, c, naive_count_order(x));
		if (c32 != naive_count_order((uint32_t) x))
			oracle_fail("cds_lfht_get_count_order_u32(%#x) = %d, expected %d", (uint32_t) x, c32,
				naive_count_order((uint32_t) x));
	}
}

/* ------------------------------------------------------------------------------------------ */
/* recording custom allocator */
static long al_live, al_calls, al_frees;
/* (called from the resize worker thread too: atomic counters) */
static void al_inc(void) { __atomic_add_fetch(&al_live, 1, __ATOMIC_SEQ_CST); __atomic_add_fetch(&al_calls, 1, __ATOMIC_SEQ_CST); }
static void al_dec(void) { __atomic_sub_fetch(&al_live, 1, __ATOMIC_SEQ_CST); __atomic_add_fetch(&al_frees, 1, __ATOMIC_SEQ_CST); }
static void *al_malloc(void *st, size_t sz) { (void)st; al_inc(); return malloc(sz); }
static void *al_calloc(void *st, size_t n, size_t sz) { (void)st; al_inc(); return calloc(n, sz); }
static void *al_realloc(void *st, void *p, size_t sz) { (void)st; if (!p) al_inc(); return realloc(p, sz); }
static void *al_aligned(void *st, size_t a, size_t sz)
{
	void *p;
	(void)st;
	if (posix_memalign(&p, a, sz))
		return NULL;
	al_inc();
	return p;
}
static void al_free(void *st, void *p) { (void)st; if (p) al_dec(); free(p); }
static struct cds_lfht_alloc rec_alloc = {
	.malloc = al_malloc, .calloc = al_calloc, .realloc = al_realloc,
	.aligned_alloc = al_aligned, .free = al_free, .state = NULL,
};

/* ------------------------------------------------------------------------------------------ */
/* nodes */
#define MAXN 40
enum nstate { FRESH, IN, DEAD };
struct mynode {
	struct cds_lfht_node node;
	unsigned long key;
	unsigned long hash;	/* oracle's copy of the hash it was last added with */
	enum nstate st;
	struct cds_lfht_iter saved;	/* possibly stale iterator from an earlier lookup */
	int saved_valid;
};
static struct mynode N[MAXN];
static int nn;

static int node_id(struct cds_lfht_node *n)
{
	struct mynode *m;
	if (!n)
		return -1;
	m = caa_container_of(n, struct mynode, node);
	if (m < N || m >= N + MAXN)
		oracle_fail("implementation returned a node that is not a user node (bucket node exposed?)");
	return (int)(m - N);
}

static int match_fn(struct cds_lfht_node *n, const void *key)
{
	return caa_container_of(n, struct mynode, node)->key == *(const unsigned long *) key;
}

/* reference multimap: order among nodes with equal (hash,key) */
#define MAXG 64
struct group { unsigned long hash, key; int ids[MAXN]; int n; };
static struct group G[MAXG];
static int ng;

static struct group *grp(unsigned long hash, unsigned long key, int create)
{
	int i;
	for (i = 0; i < ng; i++)
		if (G[i].hash == hash && G[i].key == key)
			return &G[i];
	if (!create)
		return NULL;
	for (i = 0; i < ng; i++)		/* reuse an empty slot */
		if (G[i].n == 0) {
			G[i].hash = hash; G[i].key = key;
			return &G[i];
		}
	if (ng == MAXG)
		oracle_fail("harness: group table full");
	G[ng].hash = hash; G[ng].key = key; G[ng].n = 0;
	return &G[ng++];
}
static void grp_append(unsigned long hash, unsigned long key, int id)
{
	struct group *g = grp(hash, key, 1);
	g->ids[g->n++] = id;
}
static void grp_remove(int id)
{
	struct group *g = grp(N[id].hash, N[id].key, 0);
	int i, j;
	if (!g)
		oracle_fail("harness: group of node %d missing", id);
	for (i = 0; i < g->n; i++)
		if (g->ids[i] == id) {
			for (j = i; j + 1 < g->n; j++)
				g->ids[j] = g->ids[j + 1];
			g->n--;
			return;
		}
	oracle_fail("harness: node %d not in its group", id);
}
static void grp_subst(int old, int id)
{
	struct group *g = grp(N[old].hash, N[old].key, 0);
	int i;
	if (!g)
		oracle_fail("harness: group of node %d missing", old);
	for (i = 0; i < g->n; i++)
		if (g->ids[i] == old) {
			g->ids[i] = id;
			return;
		}
	oracle_fail("harness: node %d not in its group", old);
}
static int count_in(void)
{
	int i, c = 0;
	for (i = 0; i < nn; i++)
		c += N[i].st == IN;
	return c;
}

/* ------------------------------------------------------------------------------------------ */
/* the table under test */
static struct cds_lfht *ht;
static int ht_flags;
static unsigned long ht_effmax;
static unsigned long size_limit = 2048;
static long hist_ops;

static unsigned long hv[8];
static int nhv, nkeys, contract;

static unsigned long pick_special(void)
{
	switch (rn(8)) {
	case 0: return 0;
	case 1: return ~0UL;
	case 2: return 1;
	case 3: return (1UL << rn(64)) - 1;
	case 4: return 1UL << rn(64);
	case 5: return 1UL << 63;
	case 6: return rn(16);
	default: return rnd();
	}
}

static void pick_hashes(void)
{
	int i, kind = rn(6);
	unsigned long low;

	nkeys = 1 + rn(5);
	contract = rn(4) != 0;
	switch (kind) {
	case 0:		/* all equal */
		nhv = 1;
		hv[0] = pick_special();
		break;
	case 1:		/* differ only in high bits */
		nhv = 2 + rn(5);
		low = rn(2) ? rn(8) : (rnd() & 0xffffffffUL);
		for (i = 0; i < nhv; i++)
			hv[i] = ((unsigned long) i << (61 - rn(2) * 20)) | low;
		break;
	case 2:		/* special values */
		nhv = 1 + rn(6);
		for (i = 0; i < nhv; i++)
			hv[i] = pick_special();
		break;
	case 3:		/* small integers: equal to bucket indexes */
		nhv = 2 + rn(6);
		for (i = 0; i < nhv; i++)
			hv[i] = rn(8);
		break;
	case 4:		/* 2^k - 1 family and complements */
		nhv = 2 + rn(4);
		for (i = 0; i < nhv; i++)
			hv[i] = rn(2) ? (1UL << rn(12)) - 1 : ~((1UL << rn(12)) - 1);
		break;
	default:
		nhv = 1 + rn(8);
		for (i = 0; i < nhv; i++)
			hv[i] = rnd();
	}
}
static unsigned long hash_for(unsigned long key)
{
	if (contract)
		return hv[key % nhv];	/* equal keys => equal hash */
	return hv[rn(nhv)];		/* adversarial: independent of the key */
}

static int pick_state(enum nstate a, int also_b, enum nstate b)
{
	int i, c = 0, k;
	for (i = 0; i < nn; i++)
		c += N[i].st == a || (also_b && N[i].st == b);
	if (!c)
		return -1;
	k = rn(c);
	for (i = 0; i < nn; i++)
		if (N[i].st == a || (also_b && N[i].st == b))
			if (k-- == 0)
				return i;
	return -1;
}

static void prep_new(int id, unsigned long hash, unsigned long key)
{
	/* the node is not linked: (re)initialise like a user would, keeping a DEAD node's flag */
	if (N[id].st == FRESH) {
		cds_lfht_node_init(&N[id].node);
	} else {
		/* re-using a removed node models "a grace period has elapsed": iterators taken
		 * before it (which may still point to this node) must not be used any more */
		int i;
		for (i = 0; i < nn; i++)
			N[i].saved_valid = 0;
	}
	N[id].key = key;
	N[id].hash = hash;
	N[id].saved_valid = 0;
}

static void do_add(int id, unsigned long hash, unsigned long key)
{
	snprintf(g_last, sizeof g_last, "add %d %lu %lu", id, hash, key);
	prep_new(id, hash, key);
	urcu_memb_read_lock();
	cds_lfht_add(ht, hash, &N[id].node);
	urcu_memb_read_unlock();
	printf("add %d %lu %lu\n", id, hash, key);
	N[id].st = IN;
	grp_append(hash, key, id);
}

static void do_addu(int id, unsigned long hash, unsigned long key)
{
	struct cds_lfht_node *r;
	struct group *g = grp(hash, key, 0);
	int rid, want = (g && g->n) ? g->ids[0] : id;

	snprintf(g_last, sizeof g_last, "addu %d %lu %lu", id, hash, key);
	prep_new(id, hash, key);
	urcu_memb_read_lock();
	r = cds_lfht_add_unique(ht, hash, match_fn, &key, &N[id].node);
	urcu_memb_read_unlock();
	rid = node_id(r);
	printf("addu %d %lu %lu %d\n", id, hash, key, rid);
	if (rid != want)
		oracle_fail("add_unique returned node %d, reference multimap says %d", rid, want);
	if (rid == id) {
		N[id].st = IN;
		grp_append(hash, key, id);
	}
}

static void do_addr(int id, unsigned long hash, unsigned long key)
{
	struct cds_lfht_node *r;
	struct group *g = grp(hash, key, 0);
	int rid, want = (g && g->n) ? g->ids[0] : -1;

	snprintf(g_last, sizeof g_last, "addr %d %lu %lu", id, hash, key);
	prep_new(id, hash, key);
	urcu_memb_read_lock();
	r = cds_lfht_add_replace(ht, hash, match_fn, &key, &N[id].node);
	urcu_memb_read_unlock();
	rid = node_id(r);
	printf("addr %d %lu %lu %d\n", id, hash, key, rid);
	if (rid != want)
		oracle_fail("add_replace returned node %d, reference multimap says %d", rid, want);
	if (rid < 0) {
		grp_append(hash, key, id);
	} else {
		grp_subst(rid, id);
		N[rid].st = DEAD;
		if (!cds_lfht_is_node_deleted(&N[rid].node))
			oracle_fail("replaced node %d not flagged deleted", rid);
	}
	N[id].st = IN;
}

static void do_repl(int o, int id, unsigned long hash, unsigned long key)
{
	struct cds_lfht_iter it;
	int r, want;

	snprintf(g_last, sizeof g_last, "repl %d %d %lu %lu", o, id, hash, key);
	if (o < 0) want = -ENOENT;
	else if (N[o].hash != hash) want = -EINVAL;
	else if (N[o].key != key) want = -EINVAL;
	else if (N[o].st == DEAD) want = -ENOENT;
	else want = 0;
	prep_new(id, hash, key);
	memset(&it, 0, sizeof it);
	if (o >= 0) {
		if (N[o].saved_valid && rn(2)) {
			it = N[o].saved;		/* possibly stale */
		} else {
			it.node = &N[o].node;
			it.next = rcu_dereference(N[o].node.next);
#ifdef CONFIG_CDS_LFHT_ITER_DEBUG
			it.lfht = ht;
#endif
		}
	}
	urcu_memb_read_lock();
	r = cds_lfht_replace(ht, &it, hash, match_fn, &key, &N[id].node);
	urcu_memb_read_unlock();
	printf("repl %d %d %lu %lu %d\n", o, id, hash, key, r);
	if (r != want)
		oracle_fail("replace returned %d, reference says %d", r, want);
	if (r == 0) {
		grp_subst(o, id);
		N[o].st = DEAD;
		N[id].st = IN;
	}
}

static void do_del(int id)
{
	int r, want;

	snprintf(g_last, sizeof g_last, "del %d", id);
	want = (id >= 0 && N[id].st == IN) ? 0 : -ENOENT;
	urcu_memb_read_lock();
	r = cds_lfht_del(ht, id >= 0 ? &N[id].node : NULL);
	urcu_memb_read_unlock();
	printf("del %d %d\n", id, r);
	if (r != want)
		oracle_fail("del returned %d, reference says %d", r, want);
	if (r == 0) {
		grp_remove(id);
		N[id].st = DEAD;
	}
}

static void do_look(unsigned long hash, unsigned long key)
{
	struct cds_lfht_iter it;
	struct cds_lfht_node *n;
	struct group *g = grp(hash, key, 0);
	int ids[MAXN + 1], c = 0, i;

	snprintf(g_last, sizeof g_last, "look %lu %lu", hash, key);
	urcu_memb_read_lock();
	cds_lfht_lookup(ht, hash, match_fn, &key, &it);
	while ((n = cds_lfht_iter_get_node(&it)) != NULL) {
		int id = node_id(n);
		if (c == 0) {
			N[id].saved = it;
			N[id].saved_valid = 1;
		}
		if (c > MAXN)
			oracle_fail("lookup chain longer than the number of nodes");
		if (cds_lfht_is_node_deleted(n))
			oracle_fail("lookup chain returned deleted node %d", id);
		ids[c++] = id;
		cds_lfht_next_duplicate(ht, match_fn, &key, &it);
	}
	urcu_memb_read_unlock();
	printf("look %lu %lu %d", hash, key, c);
	for (i = 0; i < c; i++)
		printf(" %d", ids[i]);
	printf("\n");
	if (c != (g ? g->n : 0))
		oracle_fail("lookup chain has %d nodes, reference multimap %d", c, g ? g->n : 0);
	for (i = 0; i < c; i++)
		if (ids[i] != g->ids[i])
			oracle_fail("lookup chain position %d is node %d, reference multimap %d", i, ids[i], g->ids[i]);
}

static int do_trav(int *out)
{
	struct cds_lfht_iter it;
	struct cds_lfht_node *n;
	int ids[MAXN + 1], seen[MAXN], c = 0, i;
	unsigned long prev = 0;

	snprintf(g_last, sizeof g_last, "trav");
	memset(seen, 0, sizeof seen);
	urcu_memb_read_lock();
	for (cds_lfht_first(ht, &it); (n = cds_lfht_iter_get_node(&it)) != NULL; cds_lfht_next(ht, &it)) {
		if (c > MAXN)
			oracle_fail("traversal longer than the number of nodes");
		ids[c++] = node_id(n);
	}
	urcu_memb_read_unlock();
	printf("trav %d", c);
	for (i = 0; i < c; i++)
		printf(" %d", ids[i]);
	printf("\n");
	for (i = 0; i < c; i++) {
		unsigned long r = naive_rev(N[ids[i]].hash);
		if (N[ids[i]].st != IN)
			oracle_fail("traversal visits node %d which is not stored", ids[i]);
		if (seen[ids[i]]++)
			oracle_fail("traversal visits node %d twice", ids[i]);
		if (r < prev)
			oracle_fail("traversal not in split order at position %d", i);
		prev = r;
	}
	for (i = 0; i < nn; i++)
		if (N[i].st == IN && !seen[i])
			oracle_fail("traversal misses stored node %d", i);
	if (out)
		memcpy(out, ids, c * sizeof(int));
	return c;
}

static void do_count(void)
{
	long before, after;
	unsigned long count;

	snprintf(g_last, sizeof g_last, "count");
	urcu_memb_read_lock();
	cds_lfht_count_nodes(ht, &before, &count, &after);
	urcu_memb_read_unlock();
	printf("count %lu\n", count);
	if ((long) count != count_in())
		oracle_fail("count_nodes = %lu, stored nodes = %d", count, count_in());
	if ((ht_flags & CDS_LFHT_ACCOUNTING) && (before != count_in() || after != count_in()))
		oracle_fail("split counters %ld/%ld, stored nodes = %d", before, after, count_in());
}

static void do_isdel(int id)
{
	int r = cds_lfht_is_node_deleted(&N[id].node);
	snprintf(g_last, sizeof g_last, "isdel %d", id);
	printf("isdel %d %d\n", id, !!r);
	if (!!r != (N[id].st == DEAD))
		oracle_fail("is_node_deleted(%d) = %d", id, r);
}

static void quiesce(void)
{
	if (cds_lfht_workqueue)
		urcu_workqueue_flush_queued_work(cds_lfht_workqueue);
}

static void do_resize(unsigned long n)
{
	unsigned long c = n, want;

	snprintf(g_last, sizeof g_last, "resize %lu", n);
	if (c < 1) c = 1;
	if (c > ht_effmax) c = ht_effmax;
	for (want = 1; want < c; want <<= 1)
		;
	if (want > size_limit)
		return;
	cds_lfht_resize(ht, n);
	if (ht_flags & CDS_LFHT_AUTO_RESIZE)
		quiesce();
	/* with AUTO_RESIZE the chain-length heuristic also runs while the new bucket nodes are
	 * linked and may raise the target: the resulting size is then only reported */
	printf("%s %lu %lu\n", (ht_flags & CDS_LFHT_AUTO_RESIZE) ? "resizea" : "resize", n, ht->size);
	if (ht->size < 1 || ht->size > ht_effmax || !is_pow2(ht->size))
		oracle_fail("size after resize(%lu) = %lu out of bounds (max %lu)", n, ht->size, ht_effmax);
	if (ht->size != want && !(ht_flags & CDS_LFHT_AUTO_RESIZE))
		oracle_fail("size after resize(%lu) = %lu, expected %lu", n, ht->size, want);
}

static void do_size(void)
{
	if (!(ht_flags & CDS_LFHT_AUTO_RESIZE))
		printf("size %lu\n", ht->size);
}

/* returns 1 when the table was destroyed */
static int do_destroy(int custom)
{
	int r, want = count_in() ? -EPERM : 0;

	snprintf(g_last, sizeof g_last, "destroy");
	if (ht_flags & CDS_LFHT_AUTO_RESIZE)
		quiesce();
	r = cds_lfht_destroy(ht, NULL);
	printf("destroy %d\n", r);
	if (r != want)
		oracle_fail("destroy returned %d with %d stored nodes", r, count_in());
	if (r == 0) {
		quiesce();
		ht = NULL;
		if (custom && al_live != 0)
			oracle_fail("custom allocator: %ld blocks still allocated after destroy (%ld allocs, %ld frees)",
				al_live, al_calls, al_frees);
		return 1;
	}
	return 0;
}

/* ------------------------------------------------------------------------------------------ */
struct cfg { unsigned long init, min, max; int flags; int mm; int custom; };
static const char *mm_names[] = { "order", "chunk", "mmap", "default" };
static const struct cds_lfht_mm_type *mm_ptr(int mm)
{
	switch (mm) {
	case 0: return &cds_lfht_mm_order;
	case 1: return &cds_lfht_mm_chunk;
	case 2: return &cds_lfht_mm_mmap;
	default: return NULL;
	}
}
static const char *mm_of(const struct cds_lfht_mm_type *m)
{
	return m == &cds_lfht_mm_order ? "order" : m == &cds_lfht_mm_chunk ? "chunk" :
		m == &cds_lfht_mm_mmap ? "mmap" : "?";
}

static int big, nohelper;

static void pick_cfg(struct cfg *c)
{
	static const unsigned long gi[] = { 1, 2, 4, 8, 16, 32, 64, 256, 1024 };
	static const unsigned long bi[] = { 0, 3, 6, 12, 1000, ~0UL, (1UL << 63) + 1 };
	static const unsigned long gm[] = { 1, 2, 4, 8, 16, 64, 256, 1024 };
	static const unsigned long bm[] = { 0, 3, 24, ~0UL };
	static const unsigned long gx[] = { 0, 1, 2, 4, 8, 16, 64, 256, 512, 1024, 4096, 65536, 1UL << 20 };
	static const unsigned long bx[] = { 3, 100, (1UL << 20) + 1, ~0UL };
	int bad = rn(8) == 0;

	c->init = gi[rn(sizeof gi / sizeof gi[0])];
	c->min = gm[rn(sizeof gm / sizeof gm[0])];
	c->max = gx[rn(sizeof gx / sizeof gx[0])];
	if (big && rn(2)) {
		c->init = 1UL << (9 + rn(4));
		c->max = rn(3) ? 1UL << (11 + rn(11)) : 0;
	}
	c->flags = rn(4);
	c->mm = rn(4);
	c->custom = rn(2);
	if (bad) {
		switch (rn(3)) {
		case 0: c->init = bi[rn(sizeof bi / sizeof bi[0])]; break;
		case 1: c->min = bm[rn(sizeof bm / sizeof bm[0])]; break;
		default: c->max = bx[rn(sizeof bx / sizeof bx[0])]; break;
		}
	}
	/* AUTO_RESIZE with colliding hashes grows the table on every long-chain add up to
	 * max_nr_buckets: keep the bound small for those (see report) */
	if ((c->flags & CDS_LFHT_AUTO_RESIZE) && (c->max == 0 || c->max > size_limit) && !bad)
		c->max = 1UL << rn(12);
}

/* returns 1 if a table was created */
static int do_new(const struct cfg *c)
{
	unsigned long page = getpagesize() / sizeof(struct cds_lfht_node);
	unsigned long effmax, size, minalloc;
	int resolved, accept;

	snprintf(g_last, sizeof g_last, "new %lu %lu %lu %d %s %d", c->init, c->min, c->max, c->flags,
		mm_names[c->mm], c->custom);
	al_live = al_calls = al_frees = 0;
	ht = _cds_lfht_new_with_alloc(c->init, c->min, c->max, c->flags, mm_ptr(c->mm), &urcu_memb_flavor,
		c->custom ? &rec_alloc : NULL, NULL);
	/* oracle: documented acceptance rule */
	resolved = c->mm;
	if (resolved == 3)
		resolved = (c->max && c->max <= (1UL << 32)) ? 2 : 0;
	accept = is_pow2(c->min) && is_pow2(c->init) && (is_pow2(c->max) || (c->max == 0 && resolved == 0));
	if (!ht) {
		printf("new %lu %lu %lu %d %s %d NULL\n", c->init, c->min, c->max, c->flags, mm_names[c->mm], c->custom);
		if (accept)
			oracle_fail("valid parameters rejected");
		if (al_live)
			oracle_fail("rejected new leaked %ld blocks", al_live);
		return 0;
	}
	printf("new %lu %lu %lu %d %s %d %lu %lu %lu %lu %s\n", c->init, c->min, c->max, c->flags, mm_names[c->mm],
		c->custom, ht->size, ht->min_nr_alloc_buckets, ht->min_alloc_buckets_order, ht->max_nr_buckets,
		mm_of(ht->mm));
	if (!accept)
		oracle_fail("invalid parameters accepted");
	effmax = c->max ? (c->max > c->min ? c->max : c->min) : 1UL << 63;
	size = c->init < effmax ? c->init : effmax;
	if (resolved == 0) minalloc = c->min;
	else if (resolved == 1) minalloc = c->min > effmax / MAX_CHUNK_TABLE ? c->min : effmax / MAX_CHUNK_TABLE;
	else minalloc = effmax <= page ? effmax : (c->min > page ? c->min : page);
	if (ht->size != size || ht->max_nr_buckets != effmax || ht->min_nr_alloc_buckets != minalloc ||
	    (1UL << ht->min_alloc_buckets_order) != minalloc || ht->resize_target != size ||
	    ht->mm != mm_ptr(resolved) || ht->size < 1 || ht->size > ht->max_nr_buckets)
		oracle_fail("normalisation: size %lu (want %lu) max %lu (want %lu) minalloc %lu (want %lu) mm %s",
			ht->size, size, ht->max_nr_buckets, effmax, ht->min_nr_alloc_buckets, minalloc, mm_of(ht->mm));
	ht_flags = c->flags;
	ht_effmax = effmax;
	return 1;
}

static unsigned long pick_resize(void)
{
	static const unsigned long v[] = { 0, 1, 2, 3, 5, 6, 7, 8, 9, 15, 16, 17, 31, 33, 64, 100, 255, 256, 257,
		1000, 1024, 1025, 2047, 2048 };
	switch (rn(6)) {
	case 0: return ht_effmax;
	case 1: return ht_effmax + 1;
	case 2: return ht_effmax - 1;
	case 3: return rn(2) ? ~0UL : (1UL << 63) + rn(2);
	default: return v[rn(sizeof v / sizeof v[0])];
	}
}

static void run_sequence(const struct cfg *c, int maxops)
{
	int nops, i, ids[MAXN + 1], k;

	nn = 4 + rn(MAXN - 4);
	memset(N, 0, sizeof N);
	ng = 0;
	g_op = -1;
	if (!do_new(c))
		return;
	pick_hashes();
	nops = rn(3) ? rn(maxops / 4 + 1) : rn(maxops + 1);
	for (i = 0; i < nops; i++) {
		unsigned long key = rn(nkeys), hash = hash_for(key);
		int id, o, r = rn(100);

		g_op = i;
		hist_ops++;
		/* AUTO_RESIZE: let the worker finish any lazy resize queued by the previous call, so
		 * that the next call sees a deterministic bucket count (reproducible traces) */
		if (ht_flags & CDS_LFHT_AUTO_RESIZE)
			quiesce();
		if (r < 22) {
			if ((id = pick_state(FRESH, 1, DEAD)) >= 0) do_add(id, hash, key);
		} else if (r < 34) {
			if ((id = pick_state(FRESH, 1, DEAD)) >= 0) do_addu(id, hash, key);
		} else if (r < 44) {
			if ((id = pick_state(FRESH, 1, DEAD)) >= 0) do_addr(id, hash, key);
		} else if (r < 54) {
			if ((id = pick_state(FRESH, 1, DEAD)) < 0)
				continue;
			switch (rn(8)) {
			case 0: o = -1; break;
			case 1: o = pick_state(DEAD, 0, DEAD); break;
			default: o = pick_state(IN, 0, IN); break;
			}
			if (o == id)
				continue;
			if (o >= 0 && rn(4)) {	/* mostly a matching hash/key */
				hash = N[o].hash;
				key = N[o].key;
			}
			do_repl(o, id, hash, key);
		} else if (r < 70) {
			switch (rn(10)) {
			case 0: id = -1; break;
			case 1: id = pick_state(DEAD, 0, DEAD); if (id < 0) continue; break;
			default: id = pick_state(IN, 0, IN); if (id < 0) continue; break;
			}
			do_del(id);
		} else if (r < 84) {
			do_look(hash, key);
		} else if (r < 88) {
			do_trav(NULL);
			do_count();
		} else if (r < 91) {
			do_isdel(rn(nn));
		} else if (r < 96) {
			do_resize(pick_resize());
		} else if (r < 98) {
			do_size();
		} else {
			if (do_destroy(c->custom))
				return;
		}
	}
	/* drain: traverse, delete every node in traversal order, check emptiness, destroy */
	g_op = nops;
	do_size();
	k = do_trav(ids);
	do_count();
	for (i = 0; i < k; i++) {
		if (i == k / 2 && k > 1) {
			do_trav(NULL);
			if (do_destroy(c->custom))	/* expected -EPERM: at least one node left */
				return;
		}
		do_del(ids[i]);
	}
	do_trav(NULL);
	do_count();
	if (!do_destroy(c->custom))
		oracle_fail("final destroy of an empty table failed");
}

/* ------------------------------------------------------------------------------------------ */
/* oracle-only run at scale: the node counter of a table created WITHOUT CDS_LFHT_AUTO_RESIZE passes powers of two
 * >= 1024 * (number of split counters) in both directions; contents, count_nodes, traversal and destroy must stay exact
 * for every flags value (0 and CDS_LFHT_ACCOUNTING), the bucket count must not move.  Nothing is printed for the driver. */
struct snode { struct cds_lfht_node n; unsigned long key; };
static int smatch(struct cds_lfht_node *n, const void *k)
{
	return caa_container_of(n, struct snode, n)->key == *(const unsigned long *) k;
}
static void scale_noauto(void)
{
	static const int fl[2] = { 0, CDS_LFHT_ACCOUNTING };
	const unsigned long N = 40000;
	struct snode *nodes = calloc(N, sizeof *nodes);
	int v;
	if (!nodes) return;
	for (v = 0; v < 2; v++) {
		struct cds_lfht *t = _cds_lfht_new_with_alloc(4096, 1, 1UL << 17, fl[v], NULL, &urcu_memb_flavor, NULL, NULL);
		unsigned long k, seen = 0;
		long before, after;
		struct cds_lfht_iter it;
		struct cds_lfht_node *n;
		snprintf(g_last, sizeof g_last, "scale run flags=%d", fl[v]);
		if (!t) oracle_fail("cds_lfht_new(4096,1,2^17,%d) failed", fl[v]);
		for (k = 0; k < N; k++) {
			nodes[k].key = k;
			cds_lfht_node_init(&nodes[k].n);
			urcu_memb_read_lock();
			n = cds_lfht_add_unique(t, k * 0x9E3779B97F4A7C15ULL, smatch, &k, &nodes[k].n);
			urcu_memb_read_unlock();
			if (n != &nodes[k].n) oracle_fail("scale: add_unique(%lu) found a duplicate in a table that never held the key", k);
		}
		urcu_memb_read_lock();
		cds_lfht_count_nodes(t, &before, &seen, &after);
		urcu_memb_read_unlock();
		if (seen != N) oracle_fail("scale: count_nodes = %lu after %lu adds (flags=%d)", seen, N, fl[v]);
		for (k = 0; k < N; k++) {
			int rc = -1;
			urcu_memb_read_lock();
			cds_lfht_lookup(t, k * 0x9E3779B97F4A7C15ULL, smatch, &k, &it);
			n = cds_lfht_iter_get_node(&it);
			if (n) rc = cds_lfht_del(t, n);
			urcu_memb_read_unlock();
			if (rc) oracle_fail("scale: key %lu not found / not deletable (flags=%d)", k, fl[v]);
			if ((k & 8191) == 8191) urcu_memb_synchronize_rcu();
		}
		urcu_memb_read_lock();
		cds_lfht_count_nodes(t, &before, &seen, &after);
		urcu_memb_read_unlock();
		if (seen != 0) oracle_fail("scale: %lu nodes left after deleting everything (flags=%d)", seen, fl[v]);
		if (t->size != 4096) oracle_fail("scale: a table without CDS_LFHT_AUTO_RESIZE changed its size to %lu (flags=%d)", t->size, fl[v]);
		urcu_memb_synchronize_rcu();
		if (cds_lfht_destroy(t, NULL)) oracle_fail("scale: destroy of the emptied table failed (flags=%d)", fl[v]);
	}
	free(nodes);
	printf("# scale run without AUTO_RESIZE ok\n");
}

int main(int argc, char **argv)
{
	int nconfigs, nseq, maxops, ci, si;

	if (argc < 5) {
		fprintf(stderr, "usage: lfht_seq <seed> <nconfigs> <nseq> <maxops> [big] [nohelper]\n");
		return 2;
	}
	g_seed = strtoul(argv[1], NULL, 0);
	nconfigs = atoi(argv[2]);
	nseq = atoi(argv[3]);
	maxops = atoi(argv[4]);
	for (ci = 5; ci < argc; ci++) {
		if (!strcmp(argv[ci], "big")) {
			big = 1;
			size_limit = 1UL << 13;
		} else if (!strcmp(argv[ci], "nohelper")) {
			nohelper = 1;
		}
	}
	rng_s = g_seed * 0x9E3779B97F4A7C15ULL + 0x1234567;
	if (!rng_s) rng_s = 1;
	rnd(); rnd();
	urcu_memb_register_thread();
	printf("page %lu\n", (unsigned long)(getpagesize() / sizeof(struct cds_lfht_node)));
	g_cfg = g_seq = -1;
	if (!nohelper)
		helper_tests(nconfigs ? 200 : 5000);
	if (nconfigs)
		scale_noauto();
	g_last[0] = 0;
	for (ci = 0; ci < nconfigs; ci++) {
		struct cfg c;
		pick_cfg(&c);
		g_cfg = ci;
		for (si = 0; si < nseq; si++) {
			g_seq = si;
			run_sequence(&c, maxops);
			if (!ht && si == 0 && rn(2))
				break;	/* rejected tuple: no need to repeat it many times */
		}
	}
	printf("# ops %ld\n", hist_ops);
	urcu_memb_unregister_thread();
	return 0;
}
