/*
 * C16 tie: fork() bracketed by the documented handlers, on the REAL sources.
 *
 *   default build        src/urcu.c (-DRCU_MEMBARRIER | -DRCU_MB) incl. src/urcu-call-rcu-impl.h
 *   -DFORK_QSBR          src/urcu-qsbr.c (threads announce quiescent states between operations; the
 *                        forking thread is offline around the handlers unless --online 1)
 *   -DFORK_BP            src/urcu-bp.c (urcu_bp_before_fork / after_fork_parent / after_fork_child +
 *                        the call_rcu handlers of the bp flavor)
 *
 * The unmodified library text is compiled under the macro shim (harness/rt/vrt_shim.h): every
 * uatomic_*, barrier, mutex, futex, poll, pthread_create/join is an event + scheduling point of the
 * deterministic cooperative runtime; helper threads created by the library are cooperative threads.
 *
 * Run: the forking thread (T0) and `--workers` other application threads queue callbacks on the
 * default helper, per-thread helpers, per-CPU helpers (RT and futex helpers); at a point chosen by
 * the seed (helpers sleeping, inside a grace period, invoking, just created ...) T0 calls the
 * before_fork handler(s), vrt_fork() (real fork(); the child's runtime marks every other thread
 * dead), then after_fork_parent / after_fork_child.  Both processes continue under their own
 * runtime and write their own trace (child: <trace>.child<k> = common prefix + own events).
 *   memb/mb: the other application threads have unregistered and are outside liburcu at the fork
 *            (documented precondition); the forking thread is registered or not (--regfork).
 *   bp:      the other threads stay registered and go on taking read-side sections across the fork.
 * The child uses rcu_read_lock/unlock, synchronize_rcu, call_rcu (default + a new per-thread helper),
 * rcu_barrier, optionally forks again (--depth), and must terminate.
 *
 * Options: --workers N --wops N --pre N --post N --burst N --delay D (fork point: steps after the burst; -1 = from the
 * seed) --regfork 0|1 --depth G (generations) --rt PCT --chain PCT --percpu N --ownhelper 0|1 --creaders N (reader threads
 * the child creates) --online 0|1 (qsbr: forking thread stays online around the handlers) --freerace 1 (probe outside the
 * property: call_rcu_data_free() concurrent with the handlers) + the runtime's --seed/--strategy/--pswitch/--faults.
 *
 * Independent oracles (plain C, no model):
 *   once      in EACH process every callback whose call_rcu() had returned is invoked exactly once
 *             by the end of the process (in particular every callback queued at the fork: once in the
 *             parent, once in the child); never twice;
 *   registry  (child) right after the handlers the reader registry only holds threads that exist in
 *             the child; bp: exactly the forking thread's slot (if it was registered);
 *   crdlist   (child) call_rcu_data_list holds exactly the new default helper; default pointer set,
 *             per-CPU array and per-thread pointer reset; every inherited call_rcu_data freed once;
 *   join      (child) pthread_join() on a thread that does not exist in the child;
 *   sigmask   (bp) after urcu_bp_after_fork_parent() / _child() the calling thread runs with the signal mask it had
 *             before urcu_bp_before_fork(), also when another thread with a different mask enters the handler meanwhile;
 *   quiescent (parent, at the fork) every helper in call_rcu_data_list has PAUSED set;
 *   gp / head as in the C03 scenario; DEADLOCK (exit 4) / BUDGET (exit 5) from the runtime, in
 *   either process; a failing child makes the parent fail (vrt_wait_child).
 */
#include "vrt_shim.h"
#include <fcntl.h>
#include <dirent.h>
#include <assert.h>
#include <ctype.h>
#include <limits.h>
#include <stdbool.h>
#include <sys/time.h>

/* ---- scenario-side interposition (this TU only; /repo untouched) ------------------------------ */
static void *scn_malloc(size_t n);
static void *scn_calloc(size_t a, size_t b);
static void scn_free(void *p);
static int scn_pthread_create(pthread_t *t, const pthread_attr_t *a, void *(*fn)(void *), void *arg);
static int scn_pthread_join(pthread_t t, void **ret);
#define malloc(n)			scn_malloc(n)
#define calloc(a, b)			scn_calloc(a, b)
#define free(p)				scn_free(p)
#define open(p, f)			(-1)
#define opendir(p)			((DIR *)NULL)
#define sysconf(x)			((x) == _SC_NPROCESSORS_CONF ? (long)vrt_cfg_ncpus : sysconf(x))
#define sched_setaffinity(p, n, m)	0
#undef pthread_create
#define pthread_create(t, a, f, g)	scn_pthread_create(t, a, f, g)
#undef pthread_join
#define pthread_join(t, r)		scn_pthread_join(t, r)
#define HAVE_SYSCONF 1
#define HAVE_SCHED_GETCPU 1
#define HAVE_SCHED_SETAFFINITY 1

#ifdef FORK_BP
static int generation_of(void);
/* Per-thread signal masks are simulated in the scenario (real sigset_t values flow through the
 * library's oldmask / saved_fork_signal_mask variables; the process' real mask is left alone). */
static sigset_t simmask[VRT_MAXT];
static unsigned long mask_bits(const sigset_t *s)
{
	unsigned long b = 0;
	int i;
	for (i = 1; i < 64; i++)
		if (sigismember(s, i) == 1)
			b |= 1UL << i;
	return b;
}
static int bp_sigmask(int how, const sigset_t *set, sigset_t *old)
{
	int me = vrt_self();
	sigset_t prev = simmask[me];
	if (set) {
		if (how == SIG_BLOCK)
			sigorset(&simmask[me], &prev, set);
		else if (how == SIG_SETMASK)
			simmask[me] = *set;
	}
	if (old)
		*old = prev;
	vrt_sig_block(how == SIG_BLOCK);
	if (how == SIG_BLOCK)
		vrt_log("SIGMASK block m=%lx", mask_bits(&prev));
	else
		vrt_log("SIGMASK restore m=%lx", mask_bits(&simmask[me]));
	return 0;
}
/* the application's own pthread_sigmask(): threads run with different masks */
static void app_set_mask(int a, int b)
{
	int me = vrt_self();
	sigemptyset(&simmask[me]);
	if (a) sigaddset(&simmask[me], a);
	if (b) sigaddset(&simmask[me], b);
	vrt_log("MASK m=%lx", mask_bits(&simmask[me]));
}
static void mask_oracle(const char *when, const sigset_t *before)
{
	int me = vrt_self();
	if (mask_bits(before) != mask_bits(&simmask[me]))
		vrt_fail("sigmask", "generation %d: after %s thread T%d runs with signal mask %#lx, it had %#lx before urcu_bp_before_fork()",
			 generation_of(), when, me, mask_bits(&simmask[me]), mask_bits(before));
}
#define pthread_sigmask(how, set, old) bp_sigmask(how, set, old)
/* reader slots live in the library's arena and are reused: (re)name the calling thread's slot
 * before it releases any lock, i.e. before another thread can scan it */
static void bp_name_my_slot(void);
static int bp_unlock(pthread_mutex_t *m)
{
	bp_name_my_slot();
	return vrt_mutex_unlock(m);
}
#undef pthread_mutex_unlock
#define pthread_mutex_unlock(m) bp_unlock(m)
#include "urcu-bp.c"
#define FLAVOR "bp"
#define HAS_MEMB urcu_bp_has_sys_membarrier
#elif defined(FORK_QSBR)
#include "urcu-qsbr.c"
#define FLAVOR "qsbr"
#define HAS_MEMB 0
#else
#include "urcu.c"
#ifdef RCU_MEMBARRIER
#define FLAVOR "memb"
#define HAS_MEMB urcu_memb_has_sys_membarrier
#else
#define FLAVOR "mb"
#define HAS_MEMB 0
#endif
#endif

#undef malloc
#undef calloc
#undef free
#undef open
#undef opendir
#undef sysconf

#define MAXCB 4096
#define MAXW 6
#define MAXCRD 256

struct ucb {
	struct rcu_head head;
	int id;
	int chain;
	long call_time, ret_time;
	int invoked, finished;
	int at_fork;		/* queued (called, not yet invoked) at the last fork of this process' history */
	unsigned long magic;
};

static struct ucb *cbs[MAXCB];
static int ncb;
static long lclock = 1;
static long in_cs_since[VRT_MAXT];
static int depth[VRT_MAXT];
static int nworkers = 2, wops = 14, pre = 10, burst = 4, delay = -1, regfork = 1, fdepth, rtpct = 30, chainpct = 25,
	   maxchain = 2, percpu_n = 1, own_helper = 1, post = 6;
static volatile int quiet, resume_flag, workers_out;
static int online_fork, freerace, nreaders_child = 3, twofork = 1;
static volatile int a_in_window, b_entered;
static int forker2_tid;
static volatile int freerace_go, freerace_started;
static struct call_rcu_data *worker_helpers[MAXW * 4];
static int nworker_helpers;

/* QSBR: a registered thread announces a quiescent state between two operations */
static void qs(void)
{
#ifdef FORK_QSBR
	if (URCU_TLS(rcu_reader).registered && depth[vrt_self()] == 0 && _rcu_read_ongoing()) {
		vrt_log("CALL qs");
		rcu_quiescent_state();
		vrt_log("RET qs");
	}
#endif
}
static int generation;			/* 0 = original process, k = k-th level child */
#ifdef FORK_BP
static int generation_of(void) { return generation; }
#endif
static int fork_nthreads;		/* child: threads with tid < this (except the forking one) do not exist */
static int forker_tid;

static struct call_rcu_data *crd_obj[MAXCRD];
static int crd_freed[MAXCRD];
static int ncrd, ncompl, nwork, percpu_named;
struct compl_rec { void *p; int freed; };
static struct compl_rec compls[1024];

static int crd_id(struct call_rcu_data *p)
{
	int i;
	for (i = 1; i <= ncrd; i++)
		if (crd_obj[i] == p)
			return i;
	return 0;
}

static void *scn_malloc(size_t n)
{
	void *p = malloc(n);
	if (!p)
		abort();
	if (n == sizeof(struct call_rcu_data)) {
		struct call_rcu_data *c = p;
		int k = ++ncrd;
		if (k >= MAXCRD) { fprintf(stderr, "fork: too many helpers\n"); _exit(9); }
		crd_obj[k] = c;
		vrt_name(&c->cbs_tail.p, sizeof(c->cbs_tail.p), "crd%d.tail", k);
		vrt_name(&c->cbs_head.node, sizeof(c->cbs_head.node), "crd%d.head", k);
		vrt_name(&c->flags, sizeof(c->flags), "crd%d.flags", k);
		vrt_name(&c->futex, sizeof(c->futex), "crd%d.futex", k);
		vrt_name(&c->qlen, sizeof(c->qlen), "crd%d.qlen", k);
		vrt_log("ALLOC crd%d", k);
	} else if (vrt_cfg_ncpus > 0 && n == sizeof(void *) * (size_t)vrt_cfg_ncpus && cpus_array_len > 0 && !percpu_named) {
		percpu_named = 1;
		vrt_name(p, n, "percpu");
		vrt_log("ALLOC percpu %d", vrt_cfg_ncpus);
	}
	return p;
}

static void *scn_calloc(size_t a, size_t b)
{
	void *p = calloc(a, b);
	if (!p)
		abort();
	if (a == 1 && b == sizeof(struct call_rcu_completion)) {
		struct call_rcu_completion *c = p;
		int k = ++ncompl;
		if (k >= 1024) { fprintf(stderr, "fork: too many barriers\n"); _exit(9); }
		compls[k].p = p;
		vrt_name(&c->barrier_count, sizeof(c->barrier_count), "compl%d.count", k);
		vrt_name(&c->futex, sizeof(c->futex), "compl%d.futex", k);
		vrt_name(&c->ref, sizeof(c->ref), "compl%d.ref", k);
		vrt_log("ALLOC compl%d", k);
	} else if (a == 1 && b == sizeof(struct call_rcu_completion_work)) {
		struct call_rcu_completion_work *w = p;
		int k = ++nwork;
		vrt_name(&w->head, sizeof(w->head), "work%d", k);
		vrt_log("ALLOC work%d", k);
	}
	return p;
}

static void scn_free(void *p)
{
	int i;
	if (!p)
		return;
	if ((i = crd_id(p))) {
		if (crd_freed[i])
			vrt_fail("uaf", "call_rcu_data crd%d freed twice", i);
		crd_freed[i] = 1;
		vrt_log("FREE crd%d", i);
		memset(p, 0x5a, sizeof(struct call_rcu_data));
		return;
	}
	for (i = 1; i <= ncompl; i++)
		if (compls[i].p == p) {
			if (compls[i].freed)
				vrt_fail("uaf", "completion compl%d freed twice", i);
			compls[i].freed = 1;
			vrt_log("FREE compl%d", i);
			memset(p, 0x5a, sizeof(struct call_rcu_completion));
			return;
		}
	if (vrt_is_named(p)) {
		const char *nm = vrt_loc(p);
		if (!strncmp(nm, "work", 4)) {
			vrt_log("FREE %s", nm);
			memset(p, 0x5a, sizeof(struct call_rcu_completion_work));
			return;
		}
		if (!strcmp(nm, "percpu")) {
			vrt_log("FREE percpu");
			vrt_unname(p);
			percpu_named = 0;
			return;
		}
	}
	free(p);
}

static void poison_check(void)
{
	int i;
	size_t k;
	for (i = 1; i <= ncrd; i++)
		if (crd_freed[i])
			for (k = 0; k < sizeof(struct call_rcu_data); k++)
				if (((unsigned char *)crd_obj[i])[k] != 0x5a) {
					vrt_fail("uaf", "call_rcu_data crd%d written after free (offset %zu)", i, k);
					break;
				}
	for (i = 1; i <= ncompl; i++)
		if (compls[i].freed)
			for (k = 0; k < sizeof(struct call_rcu_completion); k++)
				if (((unsigned char *)compls[i].p)[k] != 0x5a) {
					vrt_fail("uaf", "completion compl%d written after its last urcu_ref_put (offset %zu)", i, k);
					break;
				}
}

/* ---- reader-word names --------------------------------------------------------------------- */
#ifdef FORK_BP
static void bp_name_my_slot(void)
{
	struct urcu_bp_reader *r = URCU_TLS(urcu_bp_reader);
	if (r)
		vrt_name(&r->ctr, sizeof(r->ctr), "reader%d.ctr", vrt_self());
}
static const char *resolve(const void *p)
{
	struct urcu_bp_reader *r = URCU_TLS(urcu_bp_reader);
	if (r && p == (const void *)&r->ctr) {
		vrt_name(&r->ctr, sizeof(r->ctr), "reader%d.ctr", vrt_self());
		return "x";
	}
	return NULL;
}
static void name_my_reader(void) { bp_name_my_slot(); }
#else
static void name_my_reader(void)
{
	vrt_name(&URCU_TLS(rcu_reader).ctr, sizeof(unsigned long), "reader%d.ctr", vrt_self());
}
#endif

struct tramp { void *(*fn)(void *); void *arg; };

static void *tramp_fn(void *p)
{
	struct tramp t = *(struct tramp *)p;
	free(p);
	name_my_reader();
	return t.fn(t.arg);
}

static struct { pthread_t pt; int tid; } spawned[VRT_MAXT];
static int nspawned;

static int scn_pthread_create(pthread_t *t, const pthread_attr_t *a, void *(*fn)(void *), void *arg)
{
	struct tramp *tr;
	int r;
	if (!vrt_active)
		return (pthread_create)(t, a, fn, arg);
	tr = malloc(sizeof(*tr));
	tr->fn = fn;
	tr->arg = arg;
	r = vrt_pthread_create(t, a, tramp_fn, tr);
	if (!r && nspawned < VRT_MAXT) {
		spawned[nspawned].pt = *t;
		spawned[nspawned].tid = vrt_nthreads() - 1;
		nspawned++;
	}
	return r;
}

static int scn_pthread_join(pthread_t t, void **ret)
{
	int i;
	if (!vrt_active)
		return (pthread_join)(t, ret);
	for (i = nspawned - 1; i >= 0; i--)
		if (pthread_equal(spawned[i].pt, t)) {
			vrt_point();
			vrt_log("JOIN T%d", spawned[i].tid);
			if (generation > 0 && spawned[i].tid < fork_nthreads && spawned[i].tid != forker_tid)
				vrt_fail("join", "pthread_join() on T%d, a thread that does not exist in the child", spawned[i].tid);
			vrt_join(spawned[i].tid);
			if (ret)
				*ret = NULL;
			return 0;
		}
	return (pthread_join)(t, ret);
}

/* ---- read-side sections ------------------------------------------------------------------------ */
static void do_lock(void)
{
	int me = vrt_self();
	vrt_log("CALL lock");
	rcu_read_lock();
	vrt_log("RET lock");
	if (depth[me]++ == 0)
		in_cs_since[me] = lclock++;
}

static void do_unlock(void)
{
	int me = vrt_self();
	if (--depth[me] == 0)
		in_cs_since[me] = 0;
	vrt_log("CALL unlock");
	rcu_read_unlock();
	vrt_log("RET unlock");
}

/* ---- callbacks --------------------------------------------------------------------------------- */
static void user_cb(struct rcu_head *rhp);

static void do_call_rcu(int chain)
{
	struct ucb *cb;
	int id;
	if (ncb >= MAXCB - 1)
		return;
	cb = malloc(sizeof(*cb));
	memset(cb, 0, sizeof(*cb));
	id = ++ncb;
	cbs[id] = cb;
	cb->id = id;
	cb->chain = chain;
	cb->magic = 0xC0FFEE00UL + id;
	vrt_name(&cb->head, sizeof(cb->head), "cb%d", id);
	cb->call_time = lclock++;
	vrt_log("CALL call_rcu %d", id);
	call_rcu(&cb->head, user_cb);
	vrt_log("RET call_rcu");
	cb->ret_time = lclock++;
}

static void user_cb(struct rcu_head *rhp)
{
	struct ucb *cb = caa_container_of(rhp, struct ucb, head);
	int t;
	if (cb->id < 1 || cb->id > ncb || cbs[cb->id] != cb || cb->magic != 0xC0FFEE00UL + cb->id) {
		vrt_fail("head", "callback invoked with an rcu_head that was never registered (%p)", (void *)rhp);
		vrt_log("INVOKE 0");
		vrt_log("INVOKED 0");
		return;
	}
	vrt_log("INVOKE %d", cb->id);
	if (cb->invoked++)
		vrt_fail("once", "callback %d invoked %d times in process generation %d%s", cb->id, cb->invoked, generation,
			 cb->at_fork ? " (it was queued at the fork)" : "");
	for (t = 0; t < VRT_MAXT; t++)
		if (in_cs_since[t] && in_cs_since[t] < cb->call_time)
			vrt_fail("gp", "callback %d (call_rcu at %ld) invoked while T%d is still inside a section begun at %ld",
				 cb->id, cb->call_time, t, in_cs_since[t]);
	if (cb->chain > 0)
		do_call_rcu(cb->chain - 1);
	else if (vrt_rand() % 4 == 0) {
		do_lock();
		do_unlock();
	}
	cb->finished = 1;
	vrt_log("INVOKED %d", cb->id);
}

static void do_barrier(void)
{
	long t0 = lclock++;
	int i, n = ncb, inside = depth[vrt_self()] > 0;
	vrt_log("CALL barrier");
	rcu_barrier();
	vrt_log("RET barrier");
	if (inside)
		return;
	for (i = 1; i <= n; i++)
		if (cbs[i]->ret_time && cbs[i]->ret_time < t0 && !cbs[i]->finished)
			vrt_fail("barrier", "rcu_barrier() (called at %ld) returned while callback %d (call_rcu returned at %ld) has not %s",
				 t0, i, cbs[i]->ret_time, cbs[i]->invoked ? "finished" : "been invoked");
}

static struct call_rcu_data *do_create(unsigned long flags, int cpu)
{
	struct call_rcu_data *h;
	vrt_log("CALL create %lu %d", flags, cpu);
	h = create_call_rcu_data(flags, cpu);
	vrt_log("RET create crd%d", crd_id(h));
	return h;
}

static void do_set_thread(struct call_rcu_data *h)
{
	vrt_log("CALL set_thread crd%d", crd_id(h));
	set_thread_call_rcu_data(h);
	vrt_log("RET set_thread");
}

static int do_set_cpu(int cpu, struct call_rcu_data *h)
{
	int r;
	vrt_log("CALL set_cpu %d crd%d", cpu, crd_id(h));
	r = set_cpu_call_rcu_data(cpu, h);
	vrt_log("RET set_cpu %d", r);
	return r;
}

/* QSBR: call_rcu_data_free() & co wait for a helper that may be inside a grace period: the caller
 * must not be an online reader meanwhile (documented for free_all_cpu_call_rcu_data) */
#ifdef FORK_QSBR
#define QSBR_OFFLINE_BEGIN	int _was = URCU_TLS(rcu_reader).registered && _rcu_read_ongoing(); if (_was) rcu_thread_offline()
#define QSBR_OFFLINE_END	if (_was) rcu_thread_online()
#else
#define QSBR_OFFLINE_BEGIN	do { } while (0)
#define QSBR_OFFLINE_END	do { } while (0)
#endif

static void do_free(struct call_rcu_data *h)
{
	QSBR_OFFLINE_BEGIN;
	vrt_log("CALL free crd%d", crd_id(h));
	call_rcu_data_free(h);
	vrt_log("RET free");
	QSBR_OFFLINE_END;
}

static void do_sync(void)
{
	vrt_log("CALL sync");
	synchronize_rcu();
	vrt_log("RET sync");
}

static void do_free_all(void)
{
	QSBR_OFFLINE_BEGIN;
	vrt_log("CALL free_all");
	free_all_cpu_call_rcu_data();
	vrt_log("RET free_all");
	QSBR_OFFLINE_END;
}

static void do_register(void)
{
	vrt_log("CALL register");
	rcu_register_thread();
	name_my_reader();
	vrt_log("RET register");
}

static void do_unregister(void)
{
	vrt_log("CALL unregister");
	rcu_unregister_thread();
	vrt_log("RET unregister");
}

static void set_my_cpu(int c)
{
	vrt_cfg_cpu_of[vrt_self()] = c;
	vrt_log("CPU %d", c);
}

static int rnd_cpu(void) { return (int)(vrt_rand() % (vrt_cfg_ncpus > 0 ? vrt_cfg_ncpus : 1)); }
static int rnd_chain(void) { return (int)(vrt_rand() % 100) < chainpct ? 1 + (int)(vrt_rand() % maxchain) : 0; }
static unsigned long rnd_flags(void) { return (int)(vrt_rand() % 100) < rtpct ? URCU_CALL_RCU_RT : 0; }

/* one random application-level operation of a registered thread that is outside any handler */
static void app_op(struct call_rcu_data **myh, int allow_helper)
{
	int me = vrt_self();
	unsigned c = vrt_rand() % 100;
	qs();
	if (c < 42) {
		do_call_rcu(rnd_chain());
	} else if (c < 54) {
		if (depth[me] < 2) do_lock();
	} else if (c < 70) {
		if (depth[me] > 0) do_unlock();
	} else if (c < 76) {
		if (depth[me] == 0) do_barrier();
	} else if (c < 84) {
		if (allow_helper && !*myh) {
			*myh = do_create(rnd_flags(), -1);
			do_set_thread(*myh);
			worker_helpers[nworker_helpers++] = *myh;
		}
	} else if (c < 88) {
		set_my_cpu(rnd_cpu());
	} else if (c < 92) {
		if (depth[me] == 0) do_sync();
	} else {
#ifdef FORK_QSBR
		if (depth[me] == 0) {
			rcu_thread_offline();
			vrt_sleep(1 + vrt_rand() % 25);
			rcu_thread_online();
		}
#else
		vrt_sleep(1 + vrt_rand() % 25);
#endif
	}
}

/* ---- other application threads ----------------------------------------------------------------- */
static void *worker(void *arg)
{
	int w = (int)(long)arg, i, me = vrt_self();
	struct call_rcu_data *myh = NULL;
	name_my_reader();
	vrt_log("WORKER %d", w);
#ifdef FORK_BP
	if (w % 2) app_set_mask(SIGUSR2, 0);
#endif
	set_my_cpu(rnd_cpu());
	do_register();
	for (i = 0; i < wops; i++)
		app_op(&myh, 1);
#ifndef FORK_BP
	/* documented precondition (memb/mb): not registered, outside liburcu, when another thread forks */
	while (depth[me] > 0)
		do_unlock();
	do_unregister();
	quiet++;
	vrt_log("QUIET");
	while (!resume_flag)
		vrt_sleep(7 + vrt_rand() % 9);
	vrt_log("RESUME");
	do_register();
#else
	/* bp: stays registered, keeps taking read-side sections across the fork (no call_rcu in flight) */
	quiet++;
	vrt_log("QUIET");
	while (!resume_flag) {
		unsigned c = vrt_rand() % 100;
		if (c < 40) { if (depth[me] < 2) do_lock(); }
		else if (c < 85) { if (depth[me] > 0) do_unlock(); }
		else vrt_sleep(3 + vrt_rand() % 9);
	}
	vrt_log("RESUME");
#endif
	for (i = 0; i < post; i++)
		app_op(&myh, 1);
	while (depth[me] > 0)
		do_unlock();
	if (myh)
		do_set_thread(NULL);	/* the helper itself is freed in the final phase */
	do_unregister();
	workers_out++;
	return NULL;
}

/* --freerace: an (unregistered) thread tears a helper down while another thread runs the fork
 * handlers.  Outside the quantifier of C16 (documented use keeps helper management away from fork);
 * kept as a directed probe of call_rcu_before_fork()'s wait for PAUSED. */
static void *freeracer(void *arg)
{
	struct call_rcu_data *h = arg;
	vrt_log("FREERACER");
	while (!freerace_go)
		vrt_sleep(3);
	freerace_started = 1;
	do_free(h);
	return NULL;
}

#ifdef FORK_BP
/* bp, --twofork: a second application thread, running with a different signal mask, enters
 * urcu_bp_before_fork() while the first one is between its before_fork and after_fork_parent (it
 * blocks on rcu_gp_lock until then).  It uses only the bp handlers (no call_rcu in that thread); what
 * its fork() would create is an immediately exec()ing child: nothing of it is observed. */
static void *forker2(void *arg)
{
	sigset_t before;
	(void)arg;
	name_my_reader();
	vrt_log("FORKER2");
	app_set_mask(SIGUSR1, SIGTERM);
	do_register();
	while (!a_in_window)
		vrt_sleep(3);
	before = simmask[vrt_self()];
	b_entered = 1;
	vrt_log("CALL bp_before_fork");
	urcu_bp_before_fork();
	vrt_log("RET bp_before_fork");
	vrt_log("FORK_EXEC");
	vrt_log("CALL bp_after_fork_parent");
	urcu_bp_after_fork_parent();
	vrt_log("RET bp_after_fork_parent");
	mask_oracle("urcu_bp_after_fork_parent() of the second forking thread", &before);
	do_lock();
	do_unlock();
	return NULL;
}
#endif

/* ---- the fork ------------------------------------------------------------------------------------ */
static int sync_fd[2];
static int racer_tid;
#ifdef FORK_BP
static sigset_t fork_mask_before;
#endif
static int registered0;		/* the forking thread is registered as a reader (explicitly; bp: has a slot) */
static struct call_rcu_data *myh0;
static int have_percpu;

#if defined(FORK_QSBR)
#define READER_OF_NODE(n) caa_container_of(n, struct urcu_qsbr_reader, node)
#elif !defined(FORK_BP)
#define READER_OF_NODE(n) caa_container_of(n, struct urcu_reader, node)
#else
#define READER_OF_NODE(n) caa_container_of(n, struct urcu_bp_reader, node)
#endif

/* the registry as a list of thread ids (0 = unknown owner) */
static int registry_tids(int *out, int max)
{
	struct cds_list_head *p;
	int n = 0, guard = 0;
	for (p = registry.next; p != &registry && guard < 1000; p = p->next, guard++) {
		const char *nm = vrt_loc(&READER_OF_NODE(p)->ctr);
		int tid = 0;
		if (!strncmp(nm, "reader", 6))
			tid = atoi(nm + 6);
		else
			tid = -1;
		if (n < max)
			out[n++] = tid;
	}
	if (guard >= 1000)
		return -1;
	return n;
}

static int queue_holds(struct call_rcu_data *crdp, struct rcu_head *h)
{
	struct cds_wfcq_node *n;
	int guard = 0;
	for (n = crdp->cbs_head.node.next; n && guard < 100000; n = n->next, guard++)
		if (n == &h->next)
			return 1;
	return 0;
}

static void log_crdlist(const char *tag)
{
	struct call_rcu_data *crdp;
	char buf[512];
	int o = 0;
	buf[0] = 0;
	cds_list_for_each_entry(crdp, &call_rcu_data_list, list)
		o += snprintf(buf + o, sizeof(buf) - o, " crd%d", crd_id(crdp));
	vrt_log("%s%s", tag, buf);
}

static void log_registry(const char *tag)
{
	int t[64], n = registry_tids(t, 64), i, o = 0;
	char buf[512];
	buf[0] = 0;
	for (i = 0; i < n; i++)
		o += snprintf(buf + o, sizeof(buf) - o, " T%d", t[i]);
	vrt_log("%s%s", tag, n < 0 ? " CORRUPT" : buf);
}

static void child_main(void) __attribute__((noreturn));
static void final_phase(void);

static void do_fork(void)
{
	struct call_rcu_data *crdp;
	int i, pid, nq = 0, nthreads_at_fork;
	int went_offline = 0;
#ifdef FORK_BP
	sigset_t mask_before = simmask[vrt_self()];
#endif
	if (depth[vrt_self()] > 0)
		abort();	/* scenario bug: the handlers are called outside read-side sections */
#ifdef FORK_QSBR
	if (registered0 && !online_fork) {
		/* QSBR rule: a thread that blocks goes offline first */
		vrt_log("CALL offline");
		rcu_thread_offline();
		vrt_log("RET offline");
		went_offline = 1;
	}
#endif
	if (freerace) {
		freerace_go = 1;
		while (!freerace_started)
			vrt_sleep(2);
		vrt_sleep(vrt_rand() % 12);
	}
	vrt_log("CALL before_fork");
	call_rcu_before_fork();
	vrt_log("RET before_fork");
#ifdef FORK_BP
	vrt_log("CALL bp_before_fork");
	urcu_bp_before_fork();
	vrt_log("RET bp_before_fork");
	if (twofork && generation == 0 && forker2_tid) {
		/* let the second forking thread enter urcu_bp_before_fork() now */
		a_in_window = 1;
		while (!b_entered)
			vrt_sleep(2);
	}
	fork_mask_before = mask_before;
#endif
	/* quiescent oracle: every helper parked */
	cds_list_for_each_entry(crdp, &call_rcu_data_list, list)
		if (!(crdp->flags & (URCU_CALL_RCU_PAUSED | URCU_CALL_RCU_STOPPED)))
			vrt_fail("quiescent", "before_fork returned while helper crd%d is neither PAUSED nor STOPPED (flags %#lx)", crd_id(crdp), crdp->flags);
	for (i = 1; i <= ncb; i++) {
		cbs[i]->at_fork = cbs[i]->ret_time && !cbs[i]->invoked;
		nq += cbs[i]->at_fork;
		if (cbs[i]->invoked && !cbs[i]->finished)
			vrt_fail("quiescent", "callback %d is running at the fork", i);
	}
	{
		char buf[1024];
		int o = 0;
		buf[0] = 0;
		for (i = 1; i <= ncb && o < 1000; i++)
			if (cbs[i]->at_fork)
				o += snprintf(buf + o, sizeof(buf) - o, " %d", i);
		vrt_log("ATFORK n=%d%s", nq, buf);
	}
	log_crdlist("CRDLIST");
	log_registry("REGISTRY");
	nthreads_at_fork = vrt_nthreads();
	/* the child's runtime copies the parent's trace file (common prefix) right after fork(): the
	 * parent waits until that copy is complete before it writes anything else (determinism) */
	if (pipe(sync_fd)) { perror("pipe"); _exit(9); }
	pid = vrt_fork();
	if (pid < 0) { perror("fork"); _exit(9); }
	if (pid == 0) {
		close(sync_fd[0]);
		if (write(sync_fd[1], "x", 1) != 1) _exit(9);
		close(sync_fd[1]);
		fork_nthreads = nthreads_at_fork;
		forker_tid = vrt_self();
		child_main();
	}
	close(sync_fd[1]);
	{
		char ch;
		if (read(sync_fd[0], &ch, 1) != 1) { fprintf(stderr, "fork: child died before copying the trace\n"); }
		close(sync_fd[0]);
	}
#ifdef FORK_BP
	vrt_log("CALL bp_after_fork_parent");
	urcu_bp_after_fork_parent();
	vrt_log("RET bp_after_fork_parent");
	mask_oracle("urcu_bp_after_fork_parent()", &mask_before);
#endif
	vrt_log("CALL after_fork_parent");
	call_rcu_after_fork_parent();
	vrt_log("RET after_fork_parent");
	cds_list_for_each_entry(crdp, &call_rcu_data_list, list)
		if ((crdp->flags & (URCU_CALL_RCU_PAUSED | URCU_CALL_RCU_PAUSE)) && !(crdp->flags & URCU_CALL_RCU_STOPPED))
			vrt_fail("resume", "after_fork_parent returned while helper crd%d still has PAUSE/PAUSED (flags %#lx)", crd_id(crdp), crdp->flags);
#ifdef FORK_QSBR
	if (went_offline) {
		vrt_log("CALL online");
		rcu_thread_online();
		vrt_log("RET online");
	}
#endif
	(void)went_offline;
	/* remember the child; it is reaped at the very end so that both run "concurrently" */
	{
		extern int child_pid_of_gen[8];
		child_pid_of_gen[generation] = pid;
	}
}
int child_pid_of_gen[8];

static volatile int child_readers_stop;
static void *child_reader(void *arg)
{
	int me = vrt_self(), n = 0;
	(void)arg;
	name_my_reader();
	vrt_log("CREADER");
	do_register();
	while (!child_readers_stop && n++ < 40) {
		unsigned c = vrt_rand() % 100;
		qs();
		if (c < 40) { if (depth[me] < 2) do_lock(); }
		else if (c < 85) { if (depth[me] > 0) do_unlock(); }
		else {
#ifdef FORK_QSBR
			if (depth[me] == 0) { rcu_thread_offline(); vrt_sleep(2 + vrt_rand() % 9); rcu_thread_online(); }
#else
			vrt_sleep(2 + vrt_rand() % 9);
#endif
		}
	}
	while (depth[me] > 0)
		do_unlock();
#ifdef FORK_QSBR
	rcu_thread_offline();
	while (!child_readers_stop)
		vrt_sleep(5);
	rcu_thread_online();
#endif
	do_unregister();
	return NULL;
}

static void registry_oracle(void)
{
	/* called while the child is single-threaded: nobody can be inside a grace period (which
	 * temporarily moves readers to private lists) */
	int t[64], n, i;
	log_registry("REGISTRY");
	n = registry_tids(t, 64);
	if (n < 0)
		vrt_fail("registry", "child: reader registry is corrupt (cycle)");
	for (i = 0; i < n; i++)
		if (t[i] != vrt_self())
			vrt_fail("registry", "child: reader registry holds T%d, a thread that does not exist in the child", t[i]);
	{
		int mine = 0;
		for (i = 0; i < n; i++)
			mine += t[i] == vrt_self();
		if (mine != (registered0 ? 1 : 0))
			vrt_fail("registry", "child: forking thread has %d registry entries, expected %d", mine, registered0 ? 1 : 0);
	}
}

static void child_main(void)
{
	int i, n, inherited = ncrd, had_list;
	struct call_rcu_data *crdp;
	struct call_rcu_data *h = NULL;
	generation++;
	for (i = 0; i < VRT_MAXT; i++)
		if (i != vrt_self()) {
			in_cs_since[i] = 0;
			depth[i] = 0;
		}
	for (i = 0; i < 8; i++)
		child_pid_of_gen[i] = 0;
	had_list = !cds_list_empty(&call_rcu_data_list);
#ifdef FORK_BP
	vrt_log("CALL bp_after_fork_child");
	urcu_bp_after_fork_child();
	vrt_log("RET bp_after_fork_child");
	mask_oracle("urcu_bp_after_fork_child()", &fork_mask_before);
#endif
	registry_oracle();
	vrt_log("CALL after_fork_child");
	call_rcu_after_fork_child();
	vrt_log("RET after_fork_child");
	log_crdlist("CRDLIST");
	/* crdlist oracle */
	n = 0;
	cds_list_for_each_entry(crdp, &call_rcu_data_list, list)
		n++;
	if (had_list) {
		if (n != 1 || !default_call_rcu_data || cds_list_first_entry(&call_rcu_data_list, struct call_rcu_data, list) != default_call_rcu_data)
			vrt_fail("crdlist", "child: call_rcu_data_list has %d entries after after_fork_child, expected exactly the new default helper", n);
		if (default_call_rcu_data && crd_id(default_call_rcu_data) <= inherited)
			vrt_fail("crdlist", "child: default helper crd%d is inherited from the parent", crd_id(default_call_rcu_data));
		for (i = 1; i <= inherited; i++)
			if (!crd_freed[i])
				vrt_fail("crdlist", "child: inherited call_rcu_data crd%d was not freed", i);
	} else if (n != 0 || default_call_rcu_data)
		vrt_fail("crdlist", "child: helpers appeared although call_rcu was never used");
	if (per_cpu_call_rcu_data != NULL || cpus_array_len != 0)
		vrt_fail("crdlist", "child: per-CPU array not reset");
	if (URCU_TLS(thread_call_rcu_data) != NULL)
		vrt_fail("crdlist", "child: per-thread call_rcu_data pointer not reset");
#ifdef FORK_QSBR
	if (registered0 && !online_fork) {
		vrt_log("CALL online");
		rcu_thread_online();
		vrt_log("RET online");
	}
#endif
	/* the child goes on using everything */
	if (!registered0) {
		do_register();
		registered0 = 1;
	}
	myh0 = NULL;
	have_percpu = 0;
	nworker_helpers = 0;
	do_lock();
	do_unlock();
	do_sync();
	{
		/* new reader threads in the child (they reuse whatever the erased threads left behind:
		 * bp arena slots, TLS blocks); a grace period must not wait for leftovers */
		int rt[8], k;
		child_readers_stop = 0;
		for (k = 0; k < nreaders_child && k < 8; k++)
			rt[k] = vrt_spawn("creader", child_reader, (void *)(long)(k + 1));
		vrt_sleep(10 + vrt_rand() % 30);
		do_sync();
		do_call_rcu(0);
		do_sync();
		child_readers_stop = 1;
		for (k = 0; k < nreaders_child && k < 8; k++)
			vrt_join(rt[k]);
	}
	for (i = 0; i < 3; i++)
		do_call_rcu(rnd_chain());
	do_barrier();
	h = do_create(rnd_flags(), -1);
	do_set_thread(h);
	do_call_rcu(rnd_chain());
	do_lock();
	do_call_rcu(0);
	do_unlock();
	if (vrt_rand() % 2) {
		struct call_rcu_data *pc = do_create(rnd_flags(), 0);
		if (do_set_cpu(0, pc) != 0)
			do_free(pc);
		else
			have_percpu = 1;
	}
	myh0 = h;
	if (fdepth > generation - 1 && generation < 3) {
		/* fork again from the child, helpers busy */
		for (i = 0; i < burst; i++)
			do_call_rcu(rnd_chain());
		vrt_sleep(vrt_rand() % 40);
		do_fork();
		for (i = 0; i < 3; i++)
			do_call_rcu(0);
	}
	do_sync();
	final_phase();
	exit(vrt_failed ? 3 : 0);
}

/* tear everything down through the library's own paths and check the once oracle for this process */
static void final_phase(void)
{
	int i;
	vrt_log("FINAL gen=%d", generation);
	if (have_percpu)
		do_free_all();
	if (myh0) {
		do_set_thread(NULL);
		do_free(myh0);
		myh0 = NULL;
	}
	for (i = 0; i < nworker_helpers; i++)
		if (!(freerace && i == 0 && generation == 0))
			do_free(worker_helpers[i]);
	nworker_helpers = 0;
	for (i = 0; i <= maxchain; i++)
		do_barrier();
	for (i = 1; i <= ncb; i++)
		if (cbs[i]->ret_time && (cbs[i]->invoked != 1 || !cbs[i]->finished))
			vrt_fail(cbs[i]->at_fork ? "once" : "once", "generation %d: callback %d%s invoked %d times (finished=%d) at the end of the process",
				 generation, i, cbs[i]->at_fork ? " (queued at the fork)" : "", cbs[i]->invoked, cbs[i]->finished);
	{
		QSBR_OFFLINE_BEGIN;
		vrt_log("CALL exit");
		urcu_call_rcu_exit();
		vrt_log("RET exit");
		QSBR_OFFLINE_END;
	}
	if (default_call_rcu_data != NULL)
		vrt_fail("once", "default helper still has callbacks queued at exit");
	poison_check();
	if (registered0)
		do_unregister();
	for (i = 7; i >= 0; i--)
		if (child_pid_of_gen[i]) {
			vrt_wait_child(child_pid_of_gen[i]);
			child_pid_of_gen[i] = 0;
		}
	{
		int nat = 0;
		for (i = 1; i <= ncb; i++)
			nat += cbs[i]->at_fork;
		vrt_raw("# SUMMARY gen=%d callbacks=%d at_fork=%d helpers=%d barriers=%d", generation, ncb, nat, ncrd, ncompl);
	}
	vrt_finish();
}

int main(int argc, char **argv)
{
	int i, wt[MAXW];
	argc = vrt_init(argc, argv);
	for (i = 1; i < argc; i++) {
		if (!strcmp(argv[i], "--workers") && i + 1 < argc) nworkers = atoi(argv[++i]);
		else if (!strcmp(argv[i], "--wops") && i + 1 < argc) wops = atoi(argv[++i]);
		else if (!strcmp(argv[i], "--pre") && i + 1 < argc) pre = atoi(argv[++i]);
		else if (!strcmp(argv[i], "--post") && i + 1 < argc) post = atoi(argv[++i]);
		else if (!strcmp(argv[i], "--burst") && i + 1 < argc) burst = atoi(argv[++i]);
		else if (!strcmp(argv[i], "--delay") && i + 1 < argc) delay = atoi(argv[++i]);
		else if (!strcmp(argv[i], "--regfork") && i + 1 < argc) regfork = atoi(argv[++i]);
		else if (!strcmp(argv[i], "--depth") && i + 1 < argc) fdepth = atoi(argv[++i]);
		else if (!strcmp(argv[i], "--rt") && i + 1 < argc) rtpct = atoi(argv[++i]);
		else if (!strcmp(argv[i], "--chain") && i + 1 < argc) chainpct = atoi(argv[++i]);
		else if (!strcmp(argv[i], "--percpu") && i + 1 < argc) percpu_n = atoi(argv[++i]);
		else if (!strcmp(argv[i], "--ownhelper") && i + 1 < argc) own_helper = atoi(argv[++i]);
		else if (!strcmp(argv[i], "--online") && i + 1 < argc) online_fork = atoi(argv[++i]);
		else if (!strcmp(argv[i], "--freerace") && i + 1 < argc) freerace = atoi(argv[++i]);
		else if (!strcmp(argv[i], "--creaders") && i + 1 < argc) nreaders_child = atoi(argv[++i]);
		else if (!strcmp(argv[i], "--twofork") && i + 1 < argc) twofork = atoi(argv[++i]);
	}
	if (nworkers > MAXW) nworkers = MAXW;
	if (nworkers < 0) nworkers = 0;
	vrt_name(&rcu_gp.ctr, sizeof(rcu_gp.ctr), "gp.ctr");
#ifndef FORK_BP
	vrt_name(&rcu_gp.futex, sizeof(rcu_gp.futex), "gp.futex");
	vrt_name(&gp_waiters.stack.head, sizeof(void *), "waiters.head");
	vrt_name(&URCU_TLS(rcu_reader).ctr, sizeof(unsigned long), "reader0.ctr");
#else
	vrt_unknown_hook = resolve;
#endif
	vrt_name(&rcu_gp_lock, sizeof(rcu_gp_lock), "gp_lock");
	vrt_name(&rcu_registry_lock, sizeof(rcu_registry_lock), "registry_lock");
	{
		char here;
		uintptr_t top = ((uintptr_t)&here + 4096) & ~(uintptr_t)4095;
		vrt_name((void *)(top - (1 << 20)), 1 << 20, "stack0");
	}
	vrt_name(&call_rcu_mutex, sizeof(call_rcu_mutex), "call_rcu_mutex");
	vrt_name(&default_call_rcu_data, sizeof(default_call_rcu_data), "dflt");
	vrt_name(&per_cpu_call_rcu_data, sizeof(per_cpu_call_rcu_data), "percpu_ptr");
	vrt_raw("CFG flavor=%s membarrier=%d ncpus=%d workers=%d regfork=%d depth=%d", FLAVOR, HAS_MEMB, vrt_cfg_ncpus, nworkers, regfork, fdepth);
	for (i = 0; i < nworkers; i++)
		wt[i] = vrt_spawn("worker", worker, (void *)(long)(i + 1));
#ifdef FORK_BP
	app_set_mask(SIGHUP, 0);
	if (twofork)
		forker2_tid = vrt_spawn("forker2", forker2, NULL);
#endif
	set_my_cpu(rnd_cpu());
	do_register();
	registered0 = 1;
	/* phase 1: the forking thread sets up helpers and queues callbacks */
	if (own_helper) {
		myh0 = do_create(rnd_flags(), -1);
		do_set_thread(myh0);
	}
	for (i = 0; i < percpu_n && i < vrt_cfg_ncpus; i++) {
		struct call_rcu_data *pc = do_create(rnd_flags(), i);
		if (do_set_cpu(i, pc) != 0)
			do_free(pc);
		else
			have_percpu = 1;
	}
	for (i = 0; i < pre; i++) {
		struct call_rcu_data *none = (void *)1;	/* helper creation handled above */
		app_op(&none, 0);
		if (own_helper && i == pre / 2) {
			/* switch between the per-thread helper and the per-CPU / default selection */
			do_set_thread(NULL);
		}
	}
	if (own_helper)
		do_set_thread(myh0);
	while (depth[0] > 0)
		do_unlock();
	/* wait until the other threads meet the documented precondition */
#ifdef FORK_QSBR
	rcu_thread_offline();
#endif
	while (quiet < nworkers)
		vrt_sleep(5 + vrt_rand() % 7);
#ifdef FORK_QSBR
	rcu_thread_online();
#endif
	if (freerace) {
		/* a helper that belongs to nobody, torn down by a thread outside liburcu's read side */
		struct call_rcu_data *victim = do_create(0, -1);
		worker_helpers[nworker_helpers++] = victim;	/* slot 0 if no worker created one: see final_phase */
		if (nworker_helpers > 1) { struct call_rcu_data *x = worker_helpers[0]; worker_helpers[0] = victim; worker_helpers[nworker_helpers - 1] = x; }
		racer_tid = vrt_spawn("freeracer", freeracer, victim);
	}
	/* phase 2: a burst so that helpers are caught at arbitrary points, then the fork */
	for (i = 0; i < burst; i++) {
		if (i == burst / 2 && own_helper)
			do_set_thread(NULL);
		do_call_rcu(rnd_chain());
	}
	if (own_helper)
		do_set_thread(myh0);
#ifndef FORK_BP
	if (!regfork) {
		do_unregister();
		registered0 = 0;
	}
#endif
	if (delay < 0)
		delay = (int)(vrt_rand() % 90);
	if (delay > 0) {
#ifdef FORK_QSBR
		if (registered0 && !online_fork) rcu_thread_offline();
#endif
		vrt_sleep((unsigned long)delay);
#ifdef FORK_QSBR
		if (registered0 && !online_fork) rcu_thread_online();
#endif
	}
	do_fork();
	/* phase 3 (parent): everything still works */
	resume_flag = 1;
	if (!registered0) {
		do_register();
		registered0 = 1;
	}
	for (i = 0; i < post; i++) {
		struct call_rcu_data *none = (void *)1;
		app_op(&none, 0);
	}
	while (depth[0] > 0)
		do_unlock();
#ifdef FORK_QSBR
	rcu_thread_offline();
#endif
	for (i = 0; i < nworkers; i++)
		vrt_join(wt[i]);
	if (freerace)
		vrt_join(racer_tid);
#ifdef FORK_BP
	if (forker2_tid)
		vrt_join(forker2_tid);
#endif
#ifdef FORK_QSBR
	rcu_thread_online();
#endif
	final_phase();
	return vrt_failed ? 3 : 0;
}
