/*
 * C10 tie for the legacy cds_wfq: the REAL src/wfqueue.c (exported wrappers) and
 * include/urcu/static/wfqueue.h (static inlines) compiled under the macro shim.
 *
 * Threads: 1-4 enqueuers, 1-2 dequeuers.  --single: one dequeuer thread using
 * __cds_wfq_dequeue_blocking without the lock; otherwise cds_wfq_dequeue_blocking (internal mutex)
 * or lock + __cds_wfq_dequeue_blocking is not offered by the API (no separate lock call), so
 * the locked mode always goes through cds_wfq_dequeue_blocking.
 * Names: qt (q->tail), qlock, n1 = the dummy node q->dummy, n3.. = nodes.  q->head is a plain
 * consumer-private field (not traced; the driver's model predicts it through the next loads).
 *
 * Independent oracle (plain C): a reference FIFO of the REAL nodes, updated inside the xchg of
 * q->tail (the enqueue linearisation point; the harness is sequentially consistent):
 *   fifo      a dequeue returns exactly the reference head
 *   null      NULL only if the reference queue was empty at some instant of the call
 *   dummy     the dummy node is never handed out
 *   conserve  at quiescence everything enqueued was dequeued exactly once
 */
#include "vrt_shim.h"

static void orc_xchg(void *addr, unsigned long nv, unsigned long old);

#undef uatomic_xchg_mo
#define uatomic_xchg_mo(addr, v, mo) __extension__ ({					\
	__typeof__(addr) _vp = (addr);							\
	__typeof__(*_vp) _nv = (v);							\
	vrt_in_prim++; vrt_point();							\
	__auto_type _o = __atomic_exchange_n(_vp, _nv, __ATOMIC_SEQ_CST);		\
	vrt_log("XCHG %s %s %s %d", VRT_L(_vp), vrt_val(VRT_U(_nv)), vrt_val(VRT_U(_o)), (int)(mo)); \
	vrt_in_prim--; orc_xchg((void *)_vp, VRT_U(_nv), VRT_U(_o)); _o; })

#ifdef NO_LEGACY_MB
#undef cmm_emit_legacy_smp_mb
#define cmm_emit_legacy_smp_mb() do { } while (0)
#endif

#include "wfqueue.c"		/* real wrappers + the real static inlines */

#define MAXN 64
#define MAXE 4
#define MAXC 2

static struct cds_wfq_queue Q;
static struct cds_wfq_node ND[MAXN];

static int nenq = 2, ncons = 1, eops = 6, cops = 10, nnodes = 10, single, park;

enum { N_FREE, N_TAKEN, N_INQ };
static int nstate[MAXN];
static int olist[4 * MAXN], olen;
static unsigned long became_empty;
static long n_enq, n_deq;

static int node_idx(unsigned long v)
{
	struct cds_wfq_node *p = (struct cds_wfq_node *)v;
	if (p >= ND && p < ND + MAXN)
		return (int)(p - ND);
	return -1;
}

static void orc_xchg(void *addr, unsigned long nv, unsigned long old)
{
	int n;
	(void)old;
	if (addr != (void *)&Q.tail)
		return;
	n = node_idx(nv);
	if (n < 0)
		return;			/* the dummy node being re-enqueued */
	if (nstate[n] != N_TAKEN)
		vrt_fail("dup", "n%d enqueued while in state %d", n + 3, nstate[n]);
	nstate[n] = N_INQ;
	olist[olen++] = n;
	n_enq++;
	if (park && (int)(vrt_rand() % 100) < park)
		vrt_sleep(1 + vrt_rand() % 60);	/* park the enqueuer between its xchg and its link store */
}

static int take_node(void)
{
	int i;
	for (i = 0; i < nnodes; i++)
		if (nstate[i] == N_FREE) { nstate[i] = N_TAKEN; return i; }
	return -1;
}

static void op_enqueue(int inl)
{
	int n = take_node();
	if (n < 0) { vrt_point(); return; }
	vrt_log("CALL wfq_enq n%d", n + 3);
	cds_wfq_node_init(&ND[n]);
	if (inl) _cds_wfq_enqueue(&Q, &ND[n]);
	else cds_wfq_enqueue(&Q, &ND[n]);
	vrt_log("RET wfq_enq");
	if (nstate[n] == N_TAKEN)
		vrt_fail("lost", "enqueue of n%d returned without exchanging the tail", n + 3);
}

static struct cds_wfq_node *op_dequeue(int locked)
{
	struct cds_wfq_node *r;
	int len0 = olen, i;
	unsigned long be = became_empty;
	vrt_log("CALL wfq_deq lk=%d", locked);
	r = locked ? cds_wfq_dequeue_blocking(&Q) : __cds_wfq_dequeue_blocking(&Q);
	vrt_log("RET wfq_deq %s", vrt_val((unsigned long)r));
	if (r == NULL) {
		if (len0 != 0 && became_empty == be)
			vrt_fail("null", "dequeue returned NULL but the queue held %d..%d nodes during the whole call", len0, olen);
	} else if (r == &Q.dummy) {
		vrt_fail("dummy", "dequeue handed out the dummy node");
	} else {
		int n = node_idx((unsigned long)r);
		if (n < 0 || olen == 0 || olist[0] != n) {
			vrt_fail("fifo", "dequeue returned %s, reference head is n%d (len %d)", vrt_val((unsigned long)r),
				 olen ? olist[0] + 3 : 0, olen);
		} else {
			for (i = 1; i < olen; i++) olist[i - 1] = olist[i];
			if (--olen == 0) became_empty++;
			nstate[n] = N_FREE;
			n_deq++;
		}
	}
	return r;
}

static void *enqueuer(void *arg)
{
	int i;
	(void)arg;
	for (i = 0; i < eops; i++)
		op_enqueue(vrt_rand() % 4 == 0);
	return NULL;
}

static void *consumer(void *arg)
{
	int i;
	(void)arg;
	if (single) vrt_log("ROLE acquire");
	for (i = 0; i < cops; i++)
		op_dequeue(!single);
	if (single) vrt_log("ROLE release");
	return NULL;
}

#if defined(CONFIG_RCU_EMIT_LEGACY_MB) && !defined(NO_LEGACY_MB)
#define LEGACY 1
#else
#define LEGACY 0
#endif

int main(int argc, char **argv)
{
	int i, tids[MAXE + MAXC], nt = 0;
	argc = vrt_init(argc, argv);
	for (i = 1; i < argc; i++) {
		if (!strcmp(argv[i], "--enq") && i + 1 < argc) nenq = atoi(argv[++i]);
		else if (!strcmp(argv[i], "--cons") && i + 1 < argc) ncons = atoi(argv[++i]);
		else if (!strcmp(argv[i], "--eops") && i + 1 < argc) eops = atoi(argv[++i]);
		else if (!strcmp(argv[i], "--cops") && i + 1 < argc) cops = atoi(argv[++i]);
		else if (!strcmp(argv[i], "--nodes") && i + 1 < argc) nnodes = atoi(argv[++i]);
		else if (!strcmp(argv[i], "--single")) single = 1;
		else if (!strcmp(argv[i], "--park") && i + 1 < argc) park = atoi(argv[++i]);
	}
	if (nenq > MAXE) nenq = MAXE;
	if (single) ncons = 1;
	if (ncons > MAXC) ncons = MAXC;
	if (nnodes > MAXN) nnodes = MAXN;
	vrt_name(&Q.dummy, sizeof(Q.dummy), "n1");
	vrt_name(&Q.tail, sizeof(Q.tail), "qt");
	vrt_name(&Q.lock, sizeof(Q.lock), "qlock");
	for (i = 0; i < MAXN; i++)
		vrt_name(&ND[i], sizeof(ND[i]), "n%d", i + 3);
	cds_wfq_init(&Q);
	vrt_raw("CFG comp=wfq legacy_mb=%d attempts=%d single=%d enq=%d cons=%d", LEGACY, WFQ_ADAPT_ATTEMPTS, single, nenq, ncons);
	for (i = 0; i < nenq; i++) tids[nt++] = vrt_spawn("enq", enqueuer, (void *)(long)i);
	for (i = 0; i < ncons; i++) tids[nt++] = vrt_spawn("cons", consumer, (void *)(long)i);
	for (i = 0; i < nt; i++) vrt_join(tids[i]);
	/* quiescence: drain from the main thread, then conservation */
	if (single) vrt_log("ROLE acquire");
	for (i = 0; i <= 4 * MAXN; i++)
		if (!op_dequeue(!single)) break;
	if (single) vrt_log("ROLE release");
	if (olen)
		vrt_fail("conserve", "%d nodes in the reference list after the final drain", olen);
	if (n_enq != n_deq)
		vrt_fail("conserve", "%ld nodes enqueued, %ld dequeued", n_enq, n_deq);
	for (i = 0; i < nnodes; i++)
		if (nstate[i] != N_FREE)
			vrt_fail("conserve", "n%d ends in state %d", i + 3, nstate[i]);
	vrt_raw("# SUMMARY enq=%ld deq=%ld", n_enq, n_deq);
	vrt_finish();
	return vrt_failed ? 3 : 0;
}
