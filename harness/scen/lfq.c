/*
 * C12 / C17 tie for cds_lfq_*_rcu (include/urcu/static/rculfqueue.h, src/rculfqueue.c).
 *
 * The REAL flavor source (src/urcu.c: read-side sections, synchronize_rcu, call_rcu with its helper
 * thread as a cooperative thread) and the REAL queue source are compiled below under the macro shim.
 * Nothing in /repo is modified.  Three local interpositions, all by macros defined before the real
 * text is parsed:
 *   vrt_point()   every shimmed primitive passes through lfq_point(): per-operation step counter,
 *                 scripted / random parking between any two primitives of an operation, solo runs;
 *   malloc/free   (only while rculfqueue is parsed) the dummy nodes the library allocates live one per
 *                 page, are named dummy0, dummy1, ... and are quarantined (PROT_NONE) when freed;
 *   queue_call_rcu callback given to cds_lfq_init_rcu = lfq_call_rcu(): markers around the real call_rcu.
 *
 * build: gcc -DRCU_MEMBARRIER|-DRCU_MB lfq.c vrt.c vrt_compat_futex.c compat_arch.c
 * run:   VRT_MEMBARRIER=0|1 lfq --seed N [--mode rand|uaf-node|uaf-dummy|two-dummies] --threads T --ops K --nodes M
 *            --park PCT --solo PCT --freepct PCT  (+ runtime options: --strategy rand|pct|sweep, --pswitch, --preempt-at ...)
 *        rand         T workers, K operations each, in read-side sections of 1-3 operations; dequeued nodes are freed
 *                     (quarantined) or returned to the pool after synchronize_rcu() or from a call_rcu callback
 *        uaf-node     E suspended between link and tail advance; D dequeues the node q->tail points to, waits a grace
 *                     period, frees it; F (section begun after that grace period started) enqueues   (DESIGN 10.4 finding 3)
 *        uaf-dummy    the same with the initial dummy, freed by the library through call_rcu
 *        two-dummies  two dequeuers see the same last node and enqueue a dummy each, an enqueue in between: the emptied
 *                     queue is a chain of two dummies; destroy must accept it                      (DESIGN 10.4 finding 4)
 *        --solo PCT   C17: with probability PCT an operation is run with every other worker frozen wherever it is
 *                     (known to the scheduler from its spawn on) and must finish within the bound below
 *
 * Independent oracles (implementation side, no model):
 *   fifo/dup/fresh/null  linearizability of the recorded call/return history against a FIFO queue
 *                        (the four violation patterns of Henzinger-Sezgin-Vafeiadis for queues)
 *   dummy       dequeue returned something that is not a user node
 *   count       at quiescence: #enqueued = #dequeued + #drained, drained in FIFO order
 *   destroy     cds_lfq_destroy_rcu() returns 0 iff the oracle's queue is empty (else -EPERM)
 *   gp          a node / dummy is reclaimed while a read-side section that began before it was
 *               dequeued / handed to call_rcu is still open
 *   quarantine  any access (load, CAS) to a freed node or dummy: SIGSEGV on the PROT_NONE page
 *   solo        C17: a thread running alone needs more own steps than the bound
 *   DEADLOCK / BUDGET from the runtime (livelock)
 */
#include "vrt_shim.h"
#include <sys/mman.h>

static void lfq_point(void);
#define vrt_point() lfq_point()

#include "urcu.c"

static void *lfq_malloc(size_t sz);
static void lfq_free(void *p);
#define malloc(sz) lfq_malloc(sz)
#define free(p) lfq_free(p)
#include "rculfqueue.c"
#undef malloc
#undef free

/* ------------------------------------------------------------------------------------------- */
#define MAXT 8
#define MAXN 512		/* user nodes */
#define MAXD 2048		/* dummies */
#define MAXH 8192		/* history */
#define PAGE 4096

struct unode {
	struct cds_lfq_node_rcu node;	/* first: node address = page address */
	struct rcu_head rh;
	int id;
};

static struct cds_lfq_queue_rcu *q;
static char *arena;			/* one page per node: user nodes first, then dummies */
static int nnodes = 12, nthreads = 3, nops = 24, park_pct = 4, solo_pct = 3, free_pct = 30, mode;
static int ndummies;
static int dummy_state[MAXD];		/* 0 unallocated 1 live 2 call_rcu'd 3 freed */
static long dummy_removed_at[MAXD];
static int node_state[MAXN];		/* 0 fresh (in pool) 1 enqueued 2 dequeued, waiting 3 quarantined */
static long node_removed_at[MAXN];
static int pool[MAXN], npool;
static long lclock = 1;
static long cs_begin[VRT_MAXT];	/* begin time of the open section of each runtime thread, 0: none */
static int in_op[VRT_MAXT], in_crcu[VRT_MAXT], opstep[VRT_MAXT], park_req[VRT_MAXT], parked[VRT_MAXT];
static int park_after_crcu[VRT_MAXT];	/* park at the first primitive after queue_call_rcu returned */
static void (*on_park[VRT_MAXT])(void);
static int solo_tid = -1, worker_tid[MAXT + 1], worker_done[MAXT + 1];
static long pending_cbs;
static int dummies_in_queue;
static struct call_rcu_data *crdp;
static volatile int stage;

enum { H_ENQ, H_DEQ };
struct hist { int kind, val; long inv, ret; };
static struct hist H[MAXH];
static int nh;

static struct unode *unode_of(int id) { return (struct unode *)(arena + (size_t)id * PAGE); }
static int node_id_of(void *p)
{
	long off = (char *)p - arena;
	if (off < 0 || off >= (long)MAXN * PAGE || off % PAGE)
		return -1;
	return (int)(off / PAGE);
}
static int dummy_id_of(void *p)
{
	long off = (char *)p - (arena + (size_t)MAXN * PAGE);
	if (off < 0 || off >= (long)MAXD * PAGE || off % PAGE)
		return -1;
	return (int)(off / PAGE);
}

/* ---- quarantine --------------------------------------------------------------------------- */
static void segv(int sig, siginfo_t *si, void *ctx)
{
	char *a = si->si_addr;
	(void)sig; (void)ctx;
	if (a >= arena && a < arena + (size_t)(MAXN + MAXD) * PAGE) {
		vrt_fail("quarantine", "access to freed %s (op step %d of T%d)", vrt_loc(a), opstep[vrt_self()], vrt_self());
		vrt_log("UAF %s", vrt_loc(a));
		fflush(NULL);
		_exit(3);
	}
	fprintf(stderr, "SIGSEGV at %p outside the node arena\n", (void *)a);
	fflush(NULL);
	_exit(11);
}

static void quarantine(void *page)
{
	memset(page, 0x5a, 64);
	if (mprotect(page, PAGE, PROT_NONE))
		perror("mprotect");
}

static void check_gp(const char *what, long removed_at)
{
	int t;
	for (t = 0; t < VRT_MAXT; t++)
		if (cs_begin[t] && cs_begin[t] < removed_at)
			vrt_fail("gp", "%s reclaimed (removed at %ld) while T%d is still inside a read-side section begun at %ld",
				 what, removed_at, t, cs_begin[t]);
}

static void *lfq_malloc(size_t sz)
{
	int d = ndummies++;
	char *p;
	if (d >= MAXD) { fprintf(stderr, "lfq: too many dummies\n"); fflush(NULL); _exit(9); }
	p = arena + (size_t)(MAXN + d) * PAGE;
	dummy_state[d] = 1;
	dummies_in_queue++;
	vrt_name(p, sz, "dummy%d", d);
	vrt_log("ALLOC dummy%d", d);
	return p;
}

static void lfq_free(void *p)
{
	int d = dummy_id_of(p);
	if (d < 0 || dummy_state[d] == 0 || dummy_state[d] == 3) {
		vrt_fail("dummy", "free() of %s which is not a live dummy", vrt_loc(p));
		return;
	}
	vrt_log("FREE dummy%d", d);
	if (dummy_state[d] == 2) {
		check_gp(vrt_loc(p), dummy_removed_at[d]);
		pending_cbs--;
	} else {
		/* freed directly (cds_lfq_destroy_rcu, or a library that does not defer): every open section predates it */
		dummies_in_queue--;
		check_gp(vrt_loc(p), lclock++);
	}
	dummy_state[d] = 3;
	quarantine(p);
}

/* queue_call_rcu given to cds_lfq_init_rcu */
static void lfq_call_rcu(struct rcu_head *head, void (*func)(struct rcu_head *head))
{
	struct cds_lfq_node_rcu_dummy *dm = caa_container_of(head, struct cds_lfq_node_rcu_dummy, head);
	int d = dummy_id_of(dm), me = vrt_self();
	if (d < 0 || dummy_state[d] != 1)
		vrt_fail("dummy", "call_rcu on %s which is not a live dummy", vrt_loc(dm));
	else {
		dummy_state[d] = 2;
		dummy_removed_at[d] = lclock++;
		dummies_in_queue--;
		pending_cbs++;
	}
	vrt_log("CALL call_rcu dummy%d", d);
	in_crcu[me]++;
	call_rcu(head, func);
	in_crcu[me]--;
	vrt_log("RET call_rcu");
	if (park_after_crcu[me]) {
		park_after_crcu[me] = 0;
		park_req[me] = opstep[me] + 1;
	}
}

/* ---- scheduling hook: every shimmed primitive ------------------------------------------------ */
static void solo_fail(int me)
{
	vrt_fail("solo", "T%d running alone is at own step %d of its operation: not lock-free", me, opstep[me]);
	fflush(NULL);
	_exit(3);
}

static int solo_bound;

static void lfq_point(void)
{
	int me;
	if (!vrt_active) {
		(vrt_point)();
		return;
	}
	me = vrt_self();
	if (in_op[me] && !in_crcu[me]) {
		opstep[me]++;
		if (solo_tid == me) {
			/* concrete alarm only well beyond the model's bound (4x + 16): a harmless extra access must not look like
			 * a progress failure; the exact count is compared by the driver against mu (a divergence, not an oracle) */
			if (opstep[me] > 4 * solo_bound + 16)
				solo_fail(me);
		} else if (park_req[me] && opstep[me] == park_req[me]) {
			park_req[me] = 0;
			parked[me] = 1;
			vrt_log("PARK step=%d", opstep[me]);
			if (on_park[me])
				on_park[me]();
			vrt_freeze(me, 1);
		} else if (park_pct && solo_tid < 0 && vrt_rand() % 100 < (unsigned)park_pct) {
			/* suspended between two primitives of an operation for a long time */
			vrt_sleep(20 + vrt_rand() % 400);
		}
	}
	(vrt_point)();
}

/* ---- sections, operations -------------------------------------------------------------------- */
static void do_lock(void)
{
	rcu_read_lock();
	cs_begin[vrt_self()] = lclock++;
	vrt_log("RLOCK");
}

static void do_unlock(void)
{
	vrt_log("RUNLOCK");
	cs_begin[vrt_self()] = 0;
	rcu_read_unlock();
}

static void hist_add(int kind, int val, long inv, long ret)
{
	if (nh < MAXH) {
		H[nh].kind = kind; H[nh].val = val; H[nh].inv = inv; H[nh].ret = ret;
		nh++;
	}
}

static void solo_begin(int enq)
{
	int i, me = vrt_self();
	if (!solo_pct || solo_tid >= 0 || vrt_rand() % 100 >= (unsigned)solo_pct)
		return;
	solo_tid = me;
	/* enqueue: (LD MB CAS CAS) at most twice.  dequeue: (LD head, LD next, LD tail, CAS tail, CAS head) per
	 * leading dummy, then at most LD LD + enqueue_dummy (8) + LD next + LD tail + CAS tail + CAS head */
	solo_bound = enq ? 8 : 5 * dummies_in_queue + 14;
	for (i = 1; i <= nthreads; i++)
		if (worker_tid[i] && worker_tid[i] != me && !worker_done[i])
			vrt_freeze(worker_tid[i], 1);
	vrt_log("SOLO_BEGIN bound=%d", solo_bound);
}

static void solo_end(void)
{
	int i, me = vrt_self();
	if (solo_tid != me)
		return;
	vrt_log("SOLO_END steps=%d", opstep[me]);
	for (i = 1; i <= nthreads; i++)
		if (worker_tid[i] && worker_tid[i] != me)
			vrt_freeze(worker_tid[i], 0);
	solo_tid = -1;
}

static void do_enq(int id)
{
	struct unode *n = unode_of(id);
	int me = vrt_self();
	long inv;
	cds_lfq_node_init_rcu(&n->node);
	node_state[id] = 1;
	solo_begin(1);
	inv = lclock++;
	vrt_log("CALL enq node%d", id);
	opstep[me] = 0; in_op[me] = 1;
	cds_lfq_enqueue_rcu(q, &n->node);
	in_op[me] = 0;
	vrt_log("RET enq");
	hist_add(H_ENQ, id, inv, lclock++);
	solo_end();
}

static int do_deq(void)
{
	struct cds_lfq_node_rcu *r;
	int me = vrt_self(), id = -1;
	long inv;
	solo_begin(0);
	inv = lclock++;
	vrt_log("CALL deq");
	opstep[me] = 0; in_op[me] = 1;
	r = cds_lfq_dequeue_rcu(q);
	in_op[me] = 0;
	if (r) {
		id = node_id_of(r);
		if (id < 0 || id >= nnodes) {
			vrt_log("RET deq %s", vrt_val((unsigned long)r));
			vrt_fail("dummy", "dequeue returned %s which is not a user node", vrt_val((unsigned long)r));
			solo_end();
			return -1;
		}
		vrt_log("RET deq node%d", id);
		if (node_state[id] != 1)
			vrt_fail("dup", "dequeue returned node%d which is not in the queue (state %d)", id, node_state[id]);
		node_state[id] = 2;
		node_removed_at[id] = lclock;
	} else
		vrt_log("RET deq NULL");
	hist_add(H_DEQ, id, inv, lclock++);
	solo_end();
	return id;
}

static void reclaim(int id)
{
	check_gp(vrt_loc(unode_of(id)), node_removed_at[id]);
	if (vrt_rand() % 100 < (unsigned)free_pct) {
		vrt_log("RECLAIM node%d free", id);
		node_state[id] = 3;
		quarantine(unode_of(id));
	} else {
		vrt_log("RECLAIM node%d reuse", id);
		node_state[id] = 0;
		pool[npool++] = id;
	}
}

static void node_cb(struct rcu_head *rh)
{
	struct unode *n = caa_container_of(rh, struct unode, rh);
	pending_cbs--;
	reclaim(n->id);
}

static void do_sync(void)
{
	vrt_log("CALL sync");
	synchronize_rcu();
	vrt_log("RET sync");
}

/* ---- random scenario ---------------------------------------------------------------------------- */
static void *worker(void *arg)
{
	int w = (int)(long)arg, i, k, pend[64], np = 0;
	worker_tid[w] = vrt_self();
	rcu_register_thread();
	set_thread_call_rcu_data(crdp);
	for (i = 0; i < nops; ) {
		int inside = 1 + vrt_rand() % 3;
		do_lock();
		for (k = 0; k < inside && i < nops; k++, i++) {
			unsigned c = vrt_rand() % 100;
			if (c < 50 && npool > 0) {
				do_enq(pool[--npool]);
			} else if (np < 60) {
				int id = do_deq();
				if (id >= 0)
					pend[np++] = id;
			}
		}
		do_unlock();
		if (np && vrt_rand() % 100 < 50) {
			if (vrt_rand() % 2) {
				do_sync();
				while (np)
					reclaim(pend[--np]);
			} else {
				while (np) {
					int id = pend[--np];
					pending_cbs++;
					vrt_log("CALL call_rcu node%d", id);
					call_rcu(&unode_of(id)->rh, node_cb);
					vrt_log("RET call_rcu");
				}
			}
		}
	}
	if (np) {
		do_sync();
		while (np)
			reclaim(pend[--np]);
	}
	rcu_unregister_thread();
	worker_done[w] = 1;
	return NULL;
}

/* ---- directed schedules: the tail still points to a node the head has passed ---------------------- */
static int tidE, tidD, tidF, first_dummy;
static unsigned long ctr0;

static void E_parked(void)
{
	/* no grace period is in flight here: any later change of rcu_gp.ctr is the flip of the reclaiming one */
	ctr0 = rcu_gp.ctr;
}

#define WAIT_LIMIT 60000UL	/* directed scripts never wait for ever: if the state they aim at cannot be set up the run just goes on */
static void wait_until(volatile int *flag, int v)
{
	while (*flag < v && vrt_steps() < WAIT_LIMIT)
		vrt_sleep(1);
}

static void *uafE(void *arg)
{
	int id = (int)(long)arg;
	tidE = vrt_self();
	rcu_register_thread();
	set_thread_call_rcu_data(crdp);
	do_lock();
	park_req[vrt_self()] = 4;	/* LD tail, MB, CAS tail->next done; parked before the CAS on q->tail */
	on_park[vrt_self()] = E_parked;
	do_enq(id);
	do_unlock();
	rcu_unregister_thread();
	return NULL;
}

static void F_parked(void)
{
	/* F holds the stale tail: let the suspended operations finish */
	vrt_freeze(tidE, 0);
	if (mode == 2)
		vrt_freeze(tidD, 0);
}

static void *uafF(void *arg)
{
	int id = (int)(long)arg;
	tidF = vrt_self();
	rcu_register_thread();
	set_thread_call_rcu_data(crdp);
	wait_until(&stage, 1);
	/* begin the section only after the grace period of the reclaimer has flipped the phase:
	 * this section is not a pre-existing reader of that grace period */
	while (*(volatile unsigned long *)&rcu_gp.ctr == ctr0 && vrt_steps() < WAIT_LIMIT)
		vrt_sleep(1);
	do_lock();
	park_req[vrt_self()] = 3;	/* LD q->tail, MB done; parked before the CAS on tail->next */
	on_park[vrt_self()] = F_parked;
	do_enq(id);
	do_unlock();
	rcu_unregister_thread();
	return NULL;
}

/* uaf-node: D dequeues user node n1 while q->tail still points to it, waits for a grace period, frees it */
static void *uafD_node(void *arg)
{
	int id;
	(void)arg;
	tidD = vrt_self();
	rcu_register_thread();
	set_thread_call_rcu_data(crdp);
	while (!parked[tidE] && vrt_steps() < WAIT_LIMIT)
		vrt_sleep(1);
	do_lock();
	id = do_deq();
	do_unlock();
	stage = 1;
	do_sync();
	if (id >= 0) {
		check_gp(vrt_loc(unode_of(id)), node_removed_at[id]);
		vrt_log("RECLAIM node%d free", id);
		node_state[id] = 3;
		quarantine(unode_of(id));
	}
	vrt_freeze(tidF, 0);
	rcu_unregister_thread();
	return NULL;
}

static void D_parked(void)
{
	stage = 1;
}

/* uaf-dummy: D removes the initial dummy (handed to call_rcu by the library) while q->tail points to it */
static void *uafD_dummy(void *arg)
{
	(void)arg;
	tidD = vrt_self();
	rcu_register_thread();
	set_thread_call_rcu_data(crdp);
	while (!parked[tidE] && vrt_steps() < WAIT_LIMIT)
		vrt_sleep(1);
	do_lock();
	park_after_crcu[vrt_self()] = 1;	/* the initial dummy is removed and handed to call_rcu; parked before the retry */
	on_park[vrt_self()] = D_parked;
	do_deq();
	stage = 1;
	do_unlock();
	while (dummy_state[first_dummy] != 3 && vrt_steps() < WAIT_LIMIT)
		vrt_sleep(1);
	vrt_freeze(tidF, 0);
	rcu_unregister_thread();
	return NULL;
}

/* two-dummies: two dequeuers both see the last user node x with x->next == NULL and both enqueue a dummy; an
 * enqueue slips in between.  Quiescent end state: chain [dummyA, dummyB], no user node. */
static int tidD1, tidD2;

static void *ddD(void *arg)
{
	int which = (int)(long)arg;
	if (which == 1) tidD1 = vrt_self(); else tidD2 = vrt_self();
	rcu_register_thread();
	set_thread_call_rcu_data(crdp);
	do_lock();
	park_req[vrt_self()] = 3;	/* LD head, LD head->next (NULL) done; parked at the first primitive of enqueue_dummy */
	do_deq();
	do_unlock();
	stage++;
	rcu_unregister_thread();
	return NULL;
}

static void *ddE(void *arg)
{
	int id = (int)(long)arg;
	rcu_register_thread();
	set_thread_call_rcu_data(crdp);
	while (!(parked[tidD1] && parked[tidD2]) && vrt_steps() < WAIT_LIMIT)
		vrt_sleep(1);
	do_lock();
	do_enq(id);
	do_unlock();
	vrt_freeze(tidD1, 0);
	wait_until(&stage, 1);
	vrt_freeze(tidD2, 0);
	rcu_unregister_thread();
	return NULL;
}

/* ---- history oracle -------------------------------------------------------------------------------- */
static void check_history(void)
{
	static long enq_inv[MAXN * 8], enq_ret[MAXN * 8], deq_inv[MAXN * 8], deq_ret[MAXN * 8];
	static int val_node[MAXN * 8];
	static int cur[MAXN];
	int nv = 0, i, j;
	/* a node may be enqueued several times (recycling): every enqueue is a distinct value */
	for (i = 0; i < nnodes; i++)
		cur[i] = -1;
	/* the history is recorded in return order of the calls; values are matched by (node, k-th enqueue / k-th dequeue) */
	{
		static int nenq[MAXN], ndeq[MAXN], first[MAXN][64];
		memset(nenq, 0, sizeof(nenq));
		memset(ndeq, 0, sizeof(ndeq));
		for (i = 0; i < nh; i++)
			if (H[i].kind == H_ENQ && nv < MAXN * 8 && nenq[H[i].val] < 64) {
				first[H[i].val][nenq[H[i].val]++] = nv;
				val_node[nv] = H[i].val;
				enq_inv[nv] = H[i].inv; enq_ret[nv] = H[i].ret;
				deq_inv[nv] = deq_ret[nv] = 0;
				nv++;
			}
		for (i = 0; i < nh; i++)
			if (H[i].kind == H_DEQ && H[i].val >= 0) {
				int id = H[i].val;
				if (ndeq[id] >= nenq[id]) {
					vrt_fail("dup", "node%d dequeued %d times but enqueued %d times", id, ndeq[id] + 1, nenq[id]);
					continue;
				}
				j = first[id][ndeq[id]++];
				deq_inv[j] = H[i].inv; deq_ret[j] = H[i].ret;
				if (deq_ret[j] < enq_inv[j])
					vrt_fail("fresh", "node%d dequeued (returned at %ld) before its enqueue was called (%ld)", id, deq_ret[j], enq_inv[j]);
			}
	}
	/* order: enq(a) returned before enq(b) was called, b dequeued, and a never dequeued or only after deq(b) returned */
	for (i = 0; i < nv; i++)
		for (j = 0; j < nv; j++)
			if (i != j && enq_ret[i] < enq_inv[j] && deq_ret[j] && (!deq_inv[i] || deq_ret[j] < deq_inv[i])) {
				vrt_fail("fifo", "node%d enqueued strictly before node%d but node%d came out first%s",
					 val_node[i], val_node[j], val_node[j], deq_inv[i] ? "" : " (and the former never came out)");
				return;
			}
	for (i = 0; i < nv; i++)
		if (!deq_inv[i])
			vrt_fail("count", "node%d was enqueued and never came out, not even in the final drain", val_node[i]);
	/* NULL: some value is surely in the queue during the whole call */
	for (i = 0; i < nh; i++)
		if (H[i].kind == H_DEQ && H[i].val < 0) {
			long t = H[i].inv;
			int progress = 1;
			while (progress && t <= H[i].ret) {
				progress = 0;
				for (j = 0; j < nv; j++)
					if (enq_ret[j] < t && deq_inv[j] > t) {
						t = deq_inv[j];	/* surely non-empty up to the call of its dequeue */
						progress = 1;
					}
			}
			if (t > H[i].ret)
				vrt_fail("null", "dequeue (called %ld, returned %ld) returned NULL although the queue was never empty during the call", H[i].inv, H[i].ret);
		}
}

/* ---- main ---------------------------------------------------------------------------------------------- */
static int expect_destroy(int abs_count)
{
	int rc;
	vrt_log("CALL destroy");
	in_op[0] = 1; opstep[0] = 0;
	rc = cds_lfq_destroy_rcu(q);
	in_op[0] = 0;
	vrt_log("RET destroy %d", rc);
	if ((rc == 0) != (abs_count == 0) || (rc != 0 && rc != -EPERM))
		vrt_fail("destroy", "cds_lfq_destroy_rcu returned %d with %d node(s) in the queue", rc, abs_count);
	return rc;
}

static void do_init(void)
{
	vrt_log("CALL init");
	cds_lfq_init_rcu(q, lfq_call_rcu);
	vrt_log("RET init");
}

static void *stopper(void *arg)
{
	(void)arg;
	call_rcu_data_free(crdp);
	return NULL;
}

int main(int argc, char **argv)
{
	int i, inq, tids[MAXT + 1];
	struct sigaction sa;
	static struct cds_lfq_queue_rcu the_q;
	argc = vrt_init(argc, argv);
	for (i = 1; i < argc; i++) {
		if (!strcmp(argv[i], "--threads") && i + 1 < argc) nthreads = atoi(argv[++i]);
		else if (!strcmp(argv[i], "--ops") && i + 1 < argc) nops = atoi(argv[++i]);
		else if (!strcmp(argv[i], "--nodes") && i + 1 < argc) nnodes = atoi(argv[++i]);
		else if (!strcmp(argv[i], "--park") && i + 1 < argc) park_pct = atoi(argv[++i]);
		else if (!strcmp(argv[i], "--solo") && i + 1 < argc) solo_pct = atoi(argv[++i]);
		else if (!strcmp(argv[i], "--freepct") && i + 1 < argc) free_pct = atoi(argv[++i]);
		else if (!strcmp(argv[i], "--mode") && i + 1 < argc) {
			i++;
			mode = !strcmp(argv[i], "uaf-node") ? 1 : !strcmp(argv[i], "uaf-dummy") ? 2 : !strcmp(argv[i], "two-dummies") ? 3 : 0;
		}
	}
	if (nthreads > MAXT) nthreads = MAXT;
	if (nthreads < 1) nthreads = 1;
	if (nnodes > MAXN) nnodes = MAXN;
	arena = mmap(NULL, (size_t)(MAXN + MAXD) * PAGE, PROT_READ | PROT_WRITE, MAP_PRIVATE | MAP_ANONYMOUS, -1, 0);
	if (arena == MAP_FAILED) { perror("mmap"); return 9; }
	memset(&sa, 0, sizeof(sa));
	sa.sa_sigaction = segv;
	sa.sa_flags = SA_SIGINFO;
	sigaction(SIGSEGV, &sa, NULL);
	q = &the_q;
	vrt_name(&q->head, sizeof(q->head), "q.head");
	vrt_name(&q->tail, sizeof(q->tail), "q.tail");
	vrt_name(&rcu_gp.ctr, sizeof(rcu_gp.ctr), "gp.ctr");
	vrt_name(&rcu_gp.futex, sizeof(rcu_gp.futex), "gp.futex");
	vrt_name(&rcu_gp_lock, sizeof(rcu_gp_lock), "gp_lock");
	vrt_name(&rcu_registry_lock, sizeof(rcu_registry_lock), "registry_lock");
	vrt_name(&gp_waiters.stack.head, sizeof(void *), "waiters.head");
	for (i = 0; i < nnodes; i++) {
		unode_of(i)->id = i;
		vrt_name(unode_of(i), sizeof(struct unode), "node%d", i);
		pool[npool++] = nnodes - 1 - i;
	}
#ifdef RCU_MEMBARRIER
	vrt_raw("CFG flavor=memb membarrier=%d mode=%d threads=%d nodes=%d", urcu_memb_has_sys_membarrier, mode, nthreads, nnodes);
#else
	vrt_raw("CFG flavor=mb membarrier=0 mode=%d threads=%d nodes=%d", mode, nthreads, nnodes);
#endif
	rcu_register_thread();
	crdp = create_call_rcu_data(0, -1);
	vrt_name(crdp, sizeof(*crdp), "crdp");
	set_thread_call_rcu_data(crdp);

	/* init / destroy of an empty queue, then the queue used by the run */
	do_init();
	expect_destroy(0);
	first_dummy = ndummies;
	do_init();

	if (mode == 0) {
		for (i = 1; i <= nthreads; i++)
			worker_tid[i] = tids[i] = vrt_spawn("worker", worker, (void *)(long)i);	/* known before the thread first runs: a solo run freezes it too */
	} else {
		park_pct = 0; solo_pct = 0;
		if (mode == 1 || mode == 3) {
			/* queue [nodeB] with head = tail = nodeB, the initial dummy already reclaimed */
			int a;
			do_lock(); do_enq(pool[--npool]); do_enq(pool[--npool]); a = do_deq(); do_unlock();
			while (pending_cbs > 0)
				vrt_sleep(10);
			do_sync();
			if (a >= 0) { node_state[a] = 0; vrt_log("RECLAIM node%d reuse", a); pool[npool++] = a; }
		}
		nthreads = 3;
		if (mode == 3) {
			tids[1] = vrt_spawn("D1", ddD, (void *)1L);
			tids[2] = vrt_spawn("D2", ddD, (void *)2L);
			tids[3] = vrt_spawn("E", ddE, (void *)(long)pool[--npool]);
		} else {
			tids[1] = vrt_spawn("E", uafE, (void *)(long)pool[--npool]);
			tids[2] = vrt_spawn("D", mode == 1 ? uafD_node : uafD_dummy, NULL);
			tids[3] = vrt_spawn("F", uafF, (void *)(long)pool[--npool]);
		}
	}
	for (i = 1; i <= nthreads; i++)
		vrt_join(tids[i]);

	/* quiescent: destroy must refuse a non-empty queue, then drain, then succeed */
	inq = 0;
	for (i = 0; i < nnodes; i++)
		if (node_state[i] == 1)
			inq++;
	if (inq || mode == 3) {
		if (expect_destroy(inq) == 0) {
			/* the queue (a chain of dummies only) is gone: the drain below runs on a fresh one */
			while (pending_cbs > 0)
				vrt_sleep(10);
			do_init();
		}
	}
	do_lock();
	while (do_deq() >= 0)
		inq--;
	do_unlock();
	if (inq)
		vrt_fail("count", "final drain: %d node(s) missing or extra", inq);
	while (pending_cbs > 0)
		vrt_sleep(10);
	expect_destroy(0);
	/* call_rcu_data_free() polls until the helper thread has stopped; from a thread of its own so that the
	 * non-preemptive base schedule of the sweep strategy (lowest polling thread first) lets the helper run */
	vrt_join(vrt_spawn("stopper", stopper, NULL));
	rcu_unregister_thread();
	check_history();
	vrt_raw("# lfq dummies=%d history=%d", ndummies, nh);
	vrt_finish();
	return vrt_failed ? 3 : 0;
}
