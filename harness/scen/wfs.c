/*
 * C11 / C17 tie for the wait-free stack: the REAL src/wfstack.c (public wrappers) and
 * include/urcu/static/wfstack.h are compiled below under the macro shim, so every uatomic_*,
 * barrier, spin hint, poll and mutex operation of the unmodified algorithm text is an event and a
 * scheduling point.
 *
 * With -DWITH_RCU the REAL src/urcu.c (memb flavor, -DRCU_MEMBARRIER) is compiled in too (scheme
 * "rcu" = synchronisation technique 1 of urcu/wfstack.h): any number of consumers call
 * __cds_wfs_pop_[with_state_]{blocking,nonblocking} concurrently, WITHOUT the stack mutex, inside
 * rcu_read_lock()/rcu_read_unlock() sections; __cds_wfs_pop_all is called inside or outside a
 * section; nodes handed out by pop / by the iteration over a pop_all list are retired and recycled
 * by a reclaimer thread only after synchronize_rcu().
 *
 * build: gcc wfs.c vrt.c                                  schemes mutex | single
 *        gcc -DWITH_RCU -DRCU_MEMBARRIER wfs.c vrt.c vrt_compat_futex.c compat_arch.c     scheme rcu
 * run:   wfs --seed N --scheme mutex|single|rcu --pushers P --poppers Q --ops N --nodes M [--c17]
 *            --trace FILE   (the oracle re-reads the recorded history from FILE)
 *
 * RCU build: the stack driver owns the locations `head`, `lock`, `n<k>`; everything the real flavor
 * does between the scenario's CALL/RET markers of rlock / runlock / sync / register / unregister is
 * skipped by it (checked by C01's driver), only the markers are mapped to the abstract grace-period
 * steps of the L2 model: section begins at RET rlock, ends at CALL runlock; the grace period starts
 * at CALL sync and ends at RET sync - where the model's GpSpec guard must hold.
 *
 * Threads: P pushers (node from the free pool, cds_wfs_node_init, cds_wfs_push); consumers mixing
 * cds_wfs_pop_blocking / pop_with_state_blocking / pop_all_blocking (internal mutex), explicit
 * cds_wfs_pop_lock + __cds_wfs_pop_[with_state_]{blocking,nonblocking} + unlock, __cds_wfs_pop_all,
 * iteration with cds_wfs_first / cds_wfs_next_{blocking,nonblocking}, cds_wfs_empty, and pushes of
 * their own; popped nodes go back to the free pool at once (recycling).  Scheme "single": exactly
 * one consumer, no lock.  The last consumer drains the stack when everybody else is done.
 *
 * Oracles: stack_oracle.h on the recorded history (lifo, ret, once, recycled, scheme);
 * C17 (--c17): an operation documented wait-free / non-blocking is run SOLO - all other threads
 * frozen wherever they are - and must finish within its bound of own steps without a single
 * spin hint (kinds "solo", "wouldblock"); deadlock / livelock from the runtime.
 */
#include "vrt_shim.h"
#ifdef WFS_TSAN
#include "stack_tsan.h"
#endif
#include "wfstack.c"
#ifdef WITH_RCU
/* after wfstack.c: urcu.c defines _LGPL_SOURCE, so that its own use of the wfstack (gp_waiters)
 * resolves to the wrappers emitted by wfstack.c above instead of clashing with them */
#include "urcu.c"
#endif

/* C17 operation kinds; own scheduling points: push = MB XCHG ST; __pop_all = XCHG MB;
 * pop_nonblocking = LD LD CAS MB; next_nonblocking = LD; empty = LD */
enum { K_PUSH, K_POPALL, K_POP_NB, K_NEXT_NB, K_EMPTY };
static const char *kname[] = { "push", "pop_all", "pop_nonblocking", "next_nonblocking", "empty" };
static const unsigned long kbound[] = { 3, 2, 4, 1, 1 };
static const int kwaitfree[] = { 1, 1, 1, 1, 1 };
#define STACK_C17
#include "stack_oracle.h"

#define MAXN 48
static struct cds_wfs_stack stk;
static struct wnode { struct cds_wfs_node n; } nodes[MAXN];
static int pool_free[MAXN];
static int nnodes = 8, npushers = 2, npoppers = 1, nops = 12, scheme = SCH_MUTEX;
static int running_others;		/* threads other than the drainer still running */
static int drainer_tid, reclaimer_tid;
static int inflight_push;		/* threads between CALL push and RET push */
static unsigned long push_activity;
static int inflight_take;		/* rcu: threads between CALL and RET of pop / pop_all */
static unsigned long take_activity;
static int retired[MAXN], nretired;	/* rcu: handed to the reclaimer */
static int all_done;

static int nid(struct cds_wfs_node *n) { return (int)((struct wnode *)n - nodes); }

static const char *ntok(void *p)
{
	static __thread char b[4][24];
	static __thread int k;
	char *s = b[k++ & 3];
	if (p == NULL) return "0";
	if (p == (void *)CDS_WFS_WOULDBLOCK) return "-1";
	snprintf(s, 24, "&n%d", nid(p));
	return s;
}

static int alloc_node(void)
{
	int i, c = 0, pick;
	for (i = 0; i < nnodes; i++) c += pool_free[i];
	if (!c) return -1;
	pick = vrt_rand() % c;
	for (i = 0; i < nnodes; i++)
		if (pool_free[i] && pick-- == 0) { pool_free[i] = 0; vrt_log("ALLOC n%d", i); return i; }
	return -1;
}

/* the popper is done with the node: recycle at once (mutex, single) or after a grace period */
static void free_node(struct cds_wfs_node *n)
{
	if (scheme == SCH_RCU) {
		vrt_log("RETIRE n%d %d", nid(n), reclaimer_tid);
		retired[nretired++] = nid(n);
	} else {
		vrt_log("FREE n%d", nid(n));
		pool_free[nid(n)] = 1;
	}
}

#ifdef WITH_RCU
static void rlock(void) { vrt_log("CALL rlock"); rcu_read_lock(); vrt_log("RET rlock"); }
static void runlock(void) { vrt_log("CALL runlock"); rcu_read_unlock(); vrt_log("RET runlock"); }
#endif

/* ---- operations --------------------------------------------------------------------------- */
static void do_push(void)
{
	int k = alloc_node(), r;
	if (k < 0) { vrt_point(); return; }
	cds_wfs_node_init(&nodes[k].n);
	vrt_log("INIT n%d", k);
	c17_op_begin(K_PUSH);
	vrt_log("CALL push n%d", k);
	inflight_push++; push_activity++;
	r = cds_wfs_push(&stk, &nodes[k].n);
	inflight_push--; push_activity++;
	vrt_log("RET push %d", r);
	c17_op_end(K_PUSH);
}

static void check_wouldblock(int infl0, unsigned long act0, const char *what)
{
	if (!infl0 && act0 == push_activity)
		vrt_fail("wouldblock", "%s returned WOULDBLOCK although no push was in progress during the call", what);
}

/* rcu: a non-blocking pop also gives up when a concurrent pop / pop_all took the node it loaded
 * (ti0 = pops / pop_alls of other threads in progress when the call began; ta0 = take_activity then:
 * the call itself adds 2) */
static void check_wouldblock_rcu(int infl0, unsigned long act0, int ti0, unsigned long ta0, const char *what)
{
	if (!infl0 && act0 == push_activity && !ti0 && ta0 + 2 == take_activity)
		vrt_fail("wouldblock", "%s returned WOULDBLOCK although no push, pop or pop_all was in progress during the call", what);
}

/* variant: 0 cds_wfs_pop_blocking, 1 cds_wfs_pop_with_state_blocking (both take the lock inside),
 * 2.. __ variants (caller holds the lock / is the single consumer): bit0 state, bit1 nonblocking */
static struct cds_wfs_node *do_pop(int variant)
{
	struct cds_wfs_node *n;
	int state = -1, infl0 = inflight_push, nb = 0, ti0 = 1;
	unsigned long act0 = push_activity, ta0 = 0;
	if (variant < 2) {
		vrt_log("CALL pop blocking=1 state=%d locked=1", variant);
		n = variant ? cds_wfs_pop_with_state_blocking(&stk, &state) : cds_wfs_pop_blocking(&stk);
	} else {
		int st = variant & 1;
		nb = (variant >> 1) & 1;
		if (nb) c17_op_begin(K_POP_NB);
		infl0 = inflight_push; act0 = push_activity;
		ti0 = inflight_take; ta0 = take_activity;
		inflight_take++; take_activity++;
		vrt_log("CALL pop blocking=%d state=%d locked=0", !nb, st);
		if (nb) n = st ? __cds_wfs_pop_with_state_nonblocking(&stk, &state) : __cds_wfs_pop_nonblocking(&stk);
		else n = st ? __cds_wfs_pop_with_state_blocking(&stk, &state) : __cds_wfs_pop_blocking(&stk);
		inflight_take--; take_activity++;
	}
	if (state >= 0) vrt_log("RET pop %s %d", ntok(n), state);
	else vrt_log("RET pop %s -", ntok(n));
	if (nb) c17_op_end(K_POP_NB);
	if (n == CDS_WFS_WOULDBLOCK) {
		if (scheme == SCH_RCU) check_wouldblock_rcu(infl0, act0, ti0, ta0, "pop_nonblocking");
		else check_wouldblock(infl0, act0, "pop_nonblocking");
		return NULL;
	}
	/* rcu: the caller releases the node after leaving its read-side section */
	if (n && scheme != SCH_RCU) free_node(n);
	return n;
}

static void iterate(struct cds_wfs_head *head)
{
	struct cds_wfs_node *node = cds_wfs_first(head), *nx;
	while (node) {
		int b = vrt_rand() % 2, infl0, tries = 0;
		unsigned long act0;
		for (;;) {
			if (!b) c17_op_begin(K_NEXT_NB);
			infl0 = inflight_push; act0 = push_activity;
			vrt_log("CALL next n%d blocking=%d", nid(node), b);
			nx = b ? cds_wfs_next_blocking(node) : cds_wfs_next_nonblocking(node);
			vrt_log("RET next %s", ntok(nx));
			if (!b) c17_op_end(K_NEXT_NB);
			if (nx != CDS_WFS_WOULDBLOCK) break;
			check_wouldblock(infl0, act0, "next_nonblocking");
			if (++tries > 3) b = 1;
			vrt_sleep(2 + vrt_rand() % 6);
		}
		free_node(node);
		node = nx;
	}
}

/* locked: 1 = cds_wfs_pop_all_blocking, 0 = __cds_wfs_pop_all (caller synchronised) */
static void do_pop_all(int locked)
{
	struct cds_wfs_head *h;
	if (!locked) c17_op_begin(K_POPALL);
	inflight_take++; take_activity++;
	vrt_log("CALL pop_all locked=%d", locked);
	h = locked ? cds_wfs_pop_all_blocking(&stk) : __cds_wfs_pop_all(&stk);
	inflight_take--; take_activity++;
	vrt_log("RET pop_all %s", ntok(h));
	if (!locked) c17_op_end(K_POPALL);
	if (h) iterate(h);
}

static void do_empty(void)
{
	bool e;
	c17_op_begin(K_EMPTY);
	vrt_log("CALL empty");
	e = cds_wfs_empty(&stk);
	vrt_log("RET empty %d", e);
	c17_op_end(K_EMPTY);
}

static void xlock(void) { vrt_log("CALL lock"); cds_wfs_pop_lock(&stk); vrt_log("RET lock"); }
static void xunlock(void) { vrt_log("CALL unlock"); cds_wfs_pop_unlock(&stk); vrt_log("RET unlock"); }

static void consumer_op(void)
{
	unsigned c = vrt_rand() % 100;
#ifdef WITH_RCU
	if (scheme == SCH_RCU) {
		if (c < 55) {
			/* 1-3 pops (any __ variant, no mutex) in one read-side section; the nodes are
			 * released - retired - after the section */
			int k, m = 1 + vrt_rand() % 3;
			struct cds_wfs_node *got[3];
			rlock();
			for (k = 0; k < m; k++) {
				got[k] = do_pop(2 + vrt_rand() % 4);
				if (vrt_rand() % 4 == 0) vrt_sleep(1 + vrt_rand() % 30);	/* long section */
			}
			runlock();
			for (k = 0; k < m; k++)
				if (got[k]) free_node(got[k]);
		} else if (c < 68) {
			/* no section needed around __cds_wfs_pop_all; with and without */
			int in = vrt_rand() % 2;
			if (in) rlock();
			do_pop_all(0);
			if (in) runlock();
		} else if (c < 75) do_empty();
		else if (c < 90) do_push();
		else vrt_sleep(1 + vrt_rand() % 20);
		return;
	}
#endif
	if (scheme == SCH_SINGLE) {
		if (c < 40) do_pop(2 + vrt_rand() % 4);
		else if (c < 60) do_pop_all(0);
		else if (c < 70) do_empty();
		else if (c < 85) do_push();
		else vrt_sleep(1 + vrt_rand() % 20);
	} else {
		if (c < 25) do_pop(vrt_rand() % 2);
		else if (c < 45) {
			int k, m = 1 + vrt_rand() % 3;
			xlock();
			for (k = 0; k < m; k++) {
				if (vrt_rand() % 4 == 0) do_pop_all(0);
				else do_pop(2 + vrt_rand() % 4);
			}
			xunlock();
		} else if (c < 62) do_pop_all(1);
		else if (c < 72) do_empty();
		else if (c < 85) do_push();
		else vrt_sleep(1 + vrt_rand() % 20);
	}
}

static void *pusher(void *arg)
{
	int i;
	(void)arg;
	for (i = 0; i < nops; i++) {
		if (vrt_rand() % 5 == 0) vrt_sleep(1 + vrt_rand() % 10);
		do_push();
	}
	running_others--;
	return NULL;
}

static void *consumer(void *arg)
{
	int i, me = (int)(long)arg;
	(void)me;
#ifdef WITH_RCU
	vrt_log("CALL register"); rcu_register_thread(); vrt_log("RET register");
#endif
	for (i = 0; i < nops; i++)
		consumer_op();
	if (vrt_self() != drainer_tid) {
		running_others--;
	} else {
		while (running_others > 0)
			vrt_sleep(20);
		/* final drain: nothing may be lost */
#ifdef WITH_RCU
		if (scheme == SCH_RCU) {
			struct cds_wfs_node *n;
			rlock(); n = do_pop(2); runlock();
			if (n) free_node(n);
			do_pop_all(0);
			rlock(); n = do_pop(3); runlock();
			if (n) free_node(n);
		} else
#endif
		if (scheme == SCH_SINGLE) { do_pop(2); do_pop_all(0); do_pop(3); }
		else { do_pop(1); do_pop_all(1); do_pop(0); }
		do_empty();
		c17_stop = 1;
		all_done = 1;
	}
#ifdef WITH_RCU
	vrt_log("CALL unregister"); rcu_unregister_thread(); vrt_log("RET unregister");
#endif
	return NULL;
}

#ifdef WITH_RCU
/* recycles retired nodes, but only after a grace period of the real flavor */
static void *reclaimer(void *arg)
{
	int batch[MAXN], nb, i, last = 0;
	(void)arg;
	for (;;) {
		if (all_done) last = 1;
		nb = nretired;
		memcpy(batch, retired, nb * sizeof(int));
		nretired = 0;
		if (nb) {
			vrt_log("CALL sync");
			synchronize_rcu();
			vrt_log("RET sync");
			for (i = 0; i < nb; i++) {
				vrt_log("FREE n%d", batch[i]);
				pool_free[batch[i]] = 1;
			}
		}
		if (last && !nretired) break;
		vrt_sleep(5 + vrt_rand() % 40);
	}
	return NULL;
}
#endif

int main(int argc, char **argv)
{
	int i, tid = 0;
	const char *trace_path = NULL;
	struct or_cfg oc;
	for (i = 1; i < argc; i++)
		if (!strcmp(argv[i], "--trace") && i + 1 < argc) trace_path = argv[i + 1];
	argc = vrt_init(argc, argv);
	for (i = 1; i < argc; i++) {
		if (!strcmp(argv[i], "--scheme") && i + 1 < argc) {
			i++;
			scheme = !strcmp(argv[i], "single") ? SCH_SINGLE : !strcmp(argv[i], "rcu") ? SCH_RCU : SCH_MUTEX;
		}
		else if (!strcmp(argv[i], "--pushers") && i + 1 < argc) npushers = atoi(argv[++i]);
		else if (!strcmp(argv[i], "--poppers") && i + 1 < argc) npoppers = atoi(argv[++i]);
		else if (!strcmp(argv[i], "--ops") && i + 1 < argc) nops = atoi(argv[++i]);
		else if (!strcmp(argv[i], "--nodes") && i + 1 < argc) nnodes = atoi(argv[++i]);
		else if (!strcmp(argv[i], "--c17")) c17 = 1;
	}
#ifdef WITH_RCU
	scheme = SCH_RCU;
#else
	if (scheme == SCH_RCU) { fprintf(stderr, "built without WITH_RCU\n"); return 9; }
#endif
	if (nnodes > MAXN) nnodes = MAXN;
	if (scheme == SCH_SINGLE) npoppers = 1;
	if (npoppers < 1) npoppers = 1;
	cds_wfs_init(&stk);
	vrt_name(&stk.head, sizeof(stk.head), "head");
	vrt_name(&stk.lock, sizeof(stk.lock), "lock");
	for (i = 0; i < OR_MAXT; i++) c17_kind[i] = -1;
	for (i = 0; i < nnodes; i++) {
		vrt_name(&nodes[i].n, sizeof(nodes[i].n), "n%d", i);
		pool_free[i] = 1;
	}
#ifdef WITH_RCU
	vrt_name(&rcu_gp.ctr, sizeof(rcu_gp.ctr), "gp.ctr");
	vrt_name(&rcu_gp.futex, sizeof(rcu_gp.futex), "gp.futex");
	vrt_name(&rcu_gp_lock, sizeof(rcu_gp_lock), "gp_lock");
	vrt_name(&rcu_registry_lock, sizeof(rcu_registry_lock), "registry_lock");
	vrt_name(&gp_waiters.stack.head, sizeof(void *), "waiters.head");
#endif
	drainer_tid = 1;
	reclaimer_tid = 1 + npoppers + npushers;
	running_others = npushers + npoppers - 1;
	vrt_raw("CFG stack=wfs scheme=%s consumer=%d end=%lu nodes=%d legacymb=%d",
		scheme == SCH_SINGLE ? "single" : scheme == SCH_RCU ? "rcu" : "mutex",
		drainer_tid, (unsigned long)CDS_WFS_END, nnodes,
#ifdef CONFIG_RCU_EMIT_LEGACY_MB
		1
#else
		0
#endif
		);
	for (i = 0; i < npoppers; i++)
		tid = vrt_spawn("consumer", consumer, (void *)(long)i);
	for (i = 0; i < npushers; i++)
		tid = vrt_spawn("pusher", pusher, NULL);
#ifdef WITH_RCU
	tid = vrt_spawn("reclaimer", reclaimer, NULL);
	if (tid != reclaimer_tid) { fprintf(stderr, "internal: reclaimer tid\n"); return 9; }
#endif
	if (c17) tid = vrt_spawn("freezer", c17_freezer, NULL);
	(void)tid;
	vrt_finish();
	if (c17)
		fprintf(stderr, "SOLO self=%lu mid=%lu max push=%lu/%lu pop_all=%lu/%lu pop_nb=%lu/%lu next_nb=%lu/%lu empty=%lu/%lu\n",
			c17_runs[0], c17_runs[1], c17_max[0], c17_midmax[0], c17_max[1], c17_midmax[1], c17_max[2], c17_midmax[2],
			c17_max[3], c17_midmax[3], c17_max[4], c17_midmax[4]);
	if (trace_path) {
		memset(&oc, 0, sizeof(oc));
		oc.end_tok = "1"; oc.push_is_cas = 0; oc.scheme = scheme; oc.consumer = drainer_tid; oc.nnodes = nnodes;
		oracle_check(trace_path, oc);
		fprintf(stderr, "ORSTAT pushes=%lu pops=%lu nullpops=%lu popalls=%lu viapopall=%lu wouldblock=%lu next=%lu empties=%lu\n",
			or_stats[0], or_stats[1], or_stats[2], or_stats[3], or_stats[4], or_stats[5], or_stats[6], or_stats[7]);
	}
	return vrt_failed ? 3 : 0;
}
