/*
 * C11 / C17 tie for the lock-free stacks: the REAL src/lfstack.c + include/urcu/static/lfstack.h
 * (or, with -DLEGACY, src/rculfstack.c + include/urcu/static/rculfstack.h) compiled under the
 * macro shim.  With -DWITH_RCU the REAL src/urcu.c (memb flavor, -DRCU_MEMBARRIER) is compiled in
 * too: poppers run inside rcu_read_lock()/rcu_read_unlock() sections and popped nodes are recycled
 * by a reclaimer thread only after synchronize_rcu() (scheme "rcu").
 *
 * build: gcc lfs.c vrt.c                                  schemes mutex | single
 *        gcc -DWITH_RCU -DRCU_MEMBARRIER [-DLEGACY] lfs.c vrt.c vrt_compat_futex.c compat_arch.c
 * run:   lfs --seed N --scheme mutex|single|rcu --pushers P --poppers Q --ops N --nodes M [--c17]
 *            --trace FILE
 *
 * The driver owns the locations `head`, `lock`, `n<k>`; everything the real flavor does between
 * the scenario's CALL/RET markers of rlock / runlock / sync / register / unregister is skipped by
 * the stack driver (it is checked by C01's driver), only the markers are mapped to the abstract
 * grace-period steps of the L2 model: section begins at RET rlock, ends at CALL runlock; the grace
 * period starts at CALL sync and ends at RET sync - where the model's GpSpec guard must hold.
 *
 * Oracles: stack_oracle.h on the recorded history; C17 solo runs; runtime deadlock / livelock.
 */
#include "vrt_shim.h"
#ifdef LFS_TSAN
#include "stack_tsan.h"
#endif
#ifdef WITH_RCU
#include "urcu.c"
#endif
#ifdef LEGACY
#include "rculfstack.c"
typedef struct cds_lfs_node_rcu lnode_t;
typedef struct cds_lfs_stack_rcu lstack_t;
#else
#include "lfstack.c"
typedef struct cds_lfs_node lnode_t;
typedef struct cds_lfs_stack lstack_t;
#endif

/* own scheduling points (all other threads frozen): push = (MB CAS) x 2; __pop = LD LD CAS MB from
 * the start, LD LD CAS LD LD CAS MB from the middle; __pop_all = XCHG MB; empty = LD */
enum { K_PUSH, K_POPALL, K_POP, K_EMPTY };
static const char *kname[] = { "push", "pop_all", "pop", "empty" };
static const unsigned long kbound[] = { 4, 2, 7, 1 };
static const int kwaitfree[] = { 0, 1, 0, 1 };
#define STACK_C17
#include "stack_oracle.h"

#define MAXN 48
static lstack_t stk;
static struct lnode { lnode_t n; } nodes[MAXN];
static int pool_free[MAXN];
static int nnodes = 8, npushers = 2, npoppers = 1, nops = 12, scheme = SCH_MUTEX;
static int running_others, drainer_tid, reclaimer_tid;
static int retired[MAXN], nretired;	/* handed to the reclaimer */
static int all_done;

static int nid(void *n) { return (int)((struct lnode *)n - nodes); }

static const char *ntok(void *p)
{
	static __thread char b[4][24];
	static __thread int k;
	char *s = b[k++ & 3];
	if (p == NULL) return "0";
	snprintf(s, 24, "&n%d", nid(p));
	return s;
}

static int alloc_node(void)
{
	int i, c = 0, pick;
	for (i = 0; i < nnodes; i++) c += pool_free[i];
	if (!c) return -1;
	pick = vrt_rand() % c;
	for (i = 0; i < nnodes; i++)
		if (pool_free[i] && pick-- == 0) { pool_free[i] = 0; vrt_log("ALLOC n%d", i); return i; }
	return -1;
}

/* the popper is done with the node: recycle at once (mutex, single) or after a grace period */
static void release_node(void *n)
{
	if (scheme == SCH_RCU) {
		vrt_log("RETIRE n%d %d", nid(n), reclaimer_tid);
		retired[nretired++] = nid(n);
	} else {
		vrt_log("FREE n%d", nid(n));
		pool_free[nid(n)] = 1;
	}
}

static void do_push(void)
{
	int k = alloc_node(), r;
	if (k < 0) { vrt_point(); return; }
#ifdef LEGACY
	cds_lfs_node_init_rcu(&nodes[k].n);
#else
	cds_lfs_node_init(&nodes[k].n);
#endif
	c17_op_begin(K_PUSH);
	vrt_log("CALL push n%d", k);
#ifdef LEGACY
	r = cds_lfs_push_rcu(&stk, &nodes[k].n);
#else
	r = cds_lfs_push(&stk, &nodes[k].n);
#endif
	vrt_log("RET push %d", r);
	c17_op_end(K_PUSH);
}

#ifdef WITH_RCU
static void rlock(void) { vrt_log("CALL rlock"); rcu_read_lock(); vrt_log("RET rlock"); }
static void runlock(void) { vrt_log("CALL runlock"); rcu_read_unlock(); vrt_log("RET runlock"); }
#endif

/* locked: 1 = cds_lfs_pop_blocking (takes the internal mutex), 0 = __cds_lfs_pop / cds_lfs_pop_rcu */
static void *do_pop(int locked)
{
	lnode_t *n;
	if (!locked) c17_op_begin(K_POP);
	vrt_log("CALL pop locked=%d", locked);
#ifdef LEGACY
	n = cds_lfs_pop_rcu(&stk);
#else
	n = locked ? cds_lfs_pop_blocking(&stk) : __cds_lfs_pop(&stk);
#endif
	vrt_log("RET pop %s -", ntok(n));
	if (!locked) c17_op_end(K_POP);
	return n;
}

#ifndef LEGACY
static void do_pop_all(int locked)
{
	struct cds_lfs_head *h;
	struct cds_lfs_node *node, *nx;
	if (!locked) c17_op_begin(K_POPALL);
	vrt_log("CALL pop_all locked=%d", locked);
	h = locked ? cds_lfs_pop_all_blocking(&stk) : __cds_lfs_pop_all(&stk);
	vrt_log("RET pop_all %s", ntok(h));
	if (!locked) c17_op_end(K_POPALL);
	if (!h) return;
	/* cds_lfs_for_each_safe: plain loads of node->next on the now private list */
	cds_lfs_for_each_safe(h, node, nx) {
		vrt_point();
		vrt_log("NEXT n%d %s", nid(node), ntok(nx));
		release_node(node);
	}
}

static void do_empty(void)
{
	bool e;
	c17_op_begin(K_EMPTY);
	vrt_log("CALL empty");
	e = cds_lfs_empty(&stk);
	vrt_log("RET empty %d", e);
	c17_op_end(K_EMPTY);
}

static void xlock(void) { vrt_log("CALL lock"); cds_lfs_pop_lock(&stk); vrt_log("RET lock"); }
static void xunlock(void) { vrt_log("CALL unlock"); cds_lfs_pop_unlock(&stk); vrt_log("RET unlock"); }
#endif

static void consumer_op(void)
{
	unsigned c = vrt_rand() % 100;
	void *n;
	if (scheme == SCH_RCU) {
#ifdef WITH_RCU
		if (c < 55) {
			int k, m = 1 + vrt_rand() % 3;
			void *got[3];
			rlock();
			for (k = 0; k < m; k++) {
				got[k] = do_pop(0);
				if (vrt_rand() % 4 == 0) vrt_sleep(1 + vrt_rand() % 30);	/* long section */
			}
			runlock();
			for (k = 0; k < m; k++)
				if (got[k]) release_node(got[k]);
		}
#ifndef LEGACY
		else if (c < 68) do_pop_all(0);
		else if (c < 75) do_empty();
#endif
		else if (c < 90) do_push();
		else vrt_sleep(1 + vrt_rand() % 20);
#endif
		return;
	}
#ifndef LEGACY
	if (scheme == SCH_SINGLE) {
		if (c < 40) { if ((n = do_pop(0))) release_node(n); }
		else if (c < 60) do_pop_all(0);
		else if (c < 70) do_empty();
		else if (c < 85) do_push();
		else vrt_sleep(1 + vrt_rand() % 20);
	} else {
		if (c < 25) { if ((n = do_pop(1))) release_node(n); }
		else if (c < 45) {
			int k, m = 1 + vrt_rand() % 3;
			xlock();
			for (k = 0; k < m; k++) {
				if (vrt_rand() % 4 == 0) do_pop_all(0);
				else if ((n = do_pop(0))) release_node(n);
			}
			xunlock();
		} else if (c < 62) do_pop_all(1);
		else if (c < 72) do_empty();
		else if (c < 85) do_push();
		else vrt_sleep(1 + vrt_rand() % 20);
	}
#endif
}

static void *pusher(void *arg)
{
	int i;
	(void)arg;
	for (i = 0; i < nops; i++) {
		if (vrt_rand() % 5 == 0) vrt_sleep(1 + vrt_rand() % 10);
		do_push();
	}
	running_others--;
	return NULL;
}

static void *consumer(void *arg)
{
	int i;
	void *n;
	(void)arg;
#ifdef WITH_RCU
	vrt_log("CALL register"); rcu_register_thread(); vrt_log("RET register");
#endif
	for (i = 0; i < nops; i++)
		consumer_op();
	if (vrt_self() == drainer_tid) {
		while (running_others > 0)
			vrt_sleep(20);
		/* final drain: nothing may be lost */
		for (;;) {
#ifdef WITH_RCU
			if (scheme == SCH_RCU) { rlock(); n = do_pop(0); runlock(); } else
#endif
			n = do_pop(scheme == SCH_MUTEX);
			if (!n) break;
			release_node(n);
		}
#ifndef LEGACY
		do_pop_all(scheme == SCH_MUTEX);
		do_empty();
#endif
		c17_stop = 1;
		all_done = 1;
	} else
		running_others--;
#ifdef WITH_RCU
	vrt_log("CALL unregister"); rcu_unregister_thread(); vrt_log("RET unregister");
#endif
	return NULL;
}

#ifdef WITH_RCU
static void *reclaimer(void *arg)
{
	int batch[MAXN], nb, i, last = 0;
	(void)arg;
	for (;;) {
		if (all_done) last = 1;
		nb = nretired;
		memcpy(batch, retired, nb * sizeof(int));
		nretired = 0;
		if (nb) {
			vrt_log("CALL sync");
			synchronize_rcu();
			vrt_log("RET sync");
			for (i = 0; i < nb; i++) {
				vrt_log("FREE n%d", batch[i]);
				pool_free[batch[i]] = 1;
			}
		}
		if (last && !nretired) break;
		vrt_sleep(5 + vrt_rand() % 40);
	}
	return NULL;
}
#endif

int main(int argc, char **argv)
{
	int i, tid = 0;
	const char *trace_path = NULL;
	struct or_cfg oc;
	for (i = 1; i < argc; i++)
		if (!strcmp(argv[i], "--trace") && i + 1 < argc) trace_path = argv[i + 1];
	argc = vrt_init(argc, argv);
	for (i = 1; i < argc; i++) {
		if (!strcmp(argv[i], "--scheme") && i + 1 < argc) {
			i++;
			scheme = !strcmp(argv[i], "single") ? SCH_SINGLE : !strcmp(argv[i], "rcu") ? SCH_RCU : SCH_MUTEX;
		} else if (!strcmp(argv[i], "--pushers") && i + 1 < argc) npushers = atoi(argv[++i]);
		else if (!strcmp(argv[i], "--poppers") && i + 1 < argc) npoppers = atoi(argv[++i]);
		else if (!strcmp(argv[i], "--ops") && i + 1 < argc) nops = atoi(argv[++i]);
		else if (!strcmp(argv[i], "--nodes") && i + 1 < argc) nnodes = atoi(argv[++i]);
		else if (!strcmp(argv[i], "--c17")) c17 = 1;
	}
#ifdef WITH_RCU
	scheme = SCH_RCU;
#else
	if (scheme == SCH_RCU) { fprintf(stderr, "built without WITH_RCU\n"); return 9; }
#endif
	if (nnodes > MAXN) nnodes = MAXN;
	if (scheme == SCH_SINGLE) npoppers = 1;
	if (npoppers < 1) npoppers = 1;
#ifdef LEGACY
	cds_lfs_init_rcu(&stk);
#else
	cds_lfs_init(&stk);
	vrt_name(&stk.lock, sizeof(stk.lock), "lock");
#endif
	vrt_name(&stk.head, sizeof(stk.head), "head");
	for (i = 0; i < OR_MAXT; i++) c17_kind[i] = -1;
	for (i = 0; i < nnodes; i++) {
		vrt_name(&nodes[i].n, sizeof(nodes[i].n), "n%d", i);
		pool_free[i] = 1;
	}
#ifdef WITH_RCU
	vrt_name(&rcu_gp.ctr, sizeof(rcu_gp.ctr), "gp.ctr");
	vrt_name(&rcu_gp.futex, sizeof(rcu_gp.futex), "gp.futex");
	vrt_name(&rcu_gp_lock, sizeof(rcu_gp_lock), "gp_lock");
	vrt_name(&rcu_registry_lock, sizeof(rcu_registry_lock), "registry_lock");
	vrt_name(&gp_waiters.stack.head, sizeof(void *), "waiters.head");
#endif
	drainer_tid = 1;
	reclaimer_tid = 1 + npoppers + npushers;
	running_others = npushers + npoppers - 1;
	vrt_raw("CFG stack=%s scheme=%s consumer=%d nodes=%d legacymb=%d",
#ifdef LEGACY
		"rculfstack",
#else
		"lfs",
#endif
		scheme == SCH_SINGLE ? "single" : scheme == SCH_RCU ? "rcu" : "mutex", drainer_tid, nnodes,
#ifdef CONFIG_RCU_EMIT_LEGACY_MB
		1
#else
		0
#endif
		);
	for (i = 0; i < npoppers; i++)
		tid = vrt_spawn("consumer", consumer, NULL);
	for (i = 0; i < npushers; i++)
		tid = vrt_spawn("pusher", pusher, NULL);
#ifdef WITH_RCU
	tid = vrt_spawn("reclaimer", reclaimer, NULL);
	if (tid != reclaimer_tid) { fprintf(stderr, "internal: reclaimer tid\n"); return 9; }
#endif
	if (c17) tid = vrt_spawn("freezer", c17_freezer, NULL);
	(void)tid;
	vrt_finish();
	if (c17)
		fprintf(stderr, "SOLO self=%lu mid=%lu max push=%lu/%lu pop_all=%lu/%lu pop=%lu/%lu empty=%lu/%lu\n",
			c17_runs[0], c17_runs[1], c17_max[0], c17_midmax[0], c17_max[1], c17_midmax[1], c17_max[2], c17_midmax[2],
			c17_max[3], c17_midmax[3]);
	if (trace_path) {
		memset(&oc, 0, sizeof(oc));
		oc.end_tok = "0"; oc.push_is_cas = 1; oc.scheme = scheme; oc.consumer = drainer_tid; oc.nnodes = nnodes;
		oracle_check(trace_path, oc);
		fprintf(stderr, "ORSTAT pushes=%lu pops=%lu nullpops=%lu popalls=%lu viapopall=%lu wouldblock=%lu next=%lu empties=%lu\n",
			or_stats[0], or_stats[1], or_stats[2], or_stats[3], or_stats[4], or_stats[5], or_stats[6], or_stats[7]);
	}
	return vrt_failed ? 3 : 0;
}
