/*
 * Independent implementation oracle for the stack scenarios (wfs.c, lfs.c): C11.
 *
 * Runs AFTER the scenario, on the recorded trace file (the history), with no knowledge of the
 * Lean model.  The harness execution is sequentially consistent (one thread at a time), so the
 * order of the successful RMW events on `head` is the linearisation order.  Checked:
 *
 *   lifo      every load of `head` returns the abstract top; a push replaces exactly the abstract
 *             top; a successful pop cmpxchg removes the top and installs the second node (or the end
 *             marker); pop_all exchanges the top for the end marker and hands out exactly the
 *             abstract content, iteration follows that order; node `next` loads return the
 *             abstract successor (or NULL while the push is incomplete, wfstack only);
 *   ret       push returns "was non-empty", pop returns the removed node / NULL only on an empty
 *             stack, LAST state iff the stack became empty, empty() = abstract emptiness at its
 *             load, WOULDBLOCK only from non-blocking calls that saw an incomplete push or lost a
 *             race;
 *   once      node life cycle: FREE -> OWNED -> IN -> (POPPED | LIMBO -> POPPED) [-> RETIRED] -> FREE:
 *             every pushed node is handed out exactly once; nothing is left behind at the end;
 *   recycled  access monitor: no thread touches a FREE node or a node privately owned by another
 *             thread; a node is never re-pushed while RETIRED (before its grace period);
 *   scheme    pops / pop_alls are issued by the lock holder (mutex), the consumer (single) or
 *             inside a read-side section (rcu) - a check of the scenario itself.
 */
#ifndef STACK_ORACLE_H
#define STACK_ORACLE_H
#include <stdio.h>
#include <string.h>
#include <stdlib.h>

#define OR_MAXN 64
#define OR_MAXT 64

enum { NS_FREE, NS_OWNED, NS_IN, NS_LIMBO, NS_RETIRED, NS_POPPED };
enum { OP_NONE, OP_PUSH, OP_POP, OP_POPALL, OP_NEXT, OP_EMPTY };
enum { SCH_MUTEX, SCH_SINGLE, SCH_RCU };

struct or_cfg {
	const char *end_tok;	/* "1" wfstack (CDS_WFS_END), "0" lfstack (NULL) */
	int push_is_cas;	/* lfstack: push linearises at a successful cmpxchg */
	int scheme, consumer;
	int nnodes;
};

struct or_node { int st, owner, next_stored; };
struct or_thr {
	int op, arg, blocking, lin, saw_null, cas_failed, in_cs;
	char exp[24], push_old[24];
	int exp_state;		/* -1: no state */
	int list[OR_MAXN], nlist, pos;
};

static struct or_node or_n[OR_MAXN];
static struct or_thr or_t[OR_MAXT];
static int or_A[OR_MAXN], or_na;	/* abstract stack, top = or_A[or_na-1] */
static int or_lock_owner = -1;
static struct or_cfg or_c;
static long or_line;
static int or_fails;
static unsigned long or_stats[8];	/* pushes, pops, null pops, pop_alls, nodes via pop_all, wouldblock, next, empties */

#define OR_FAIL(kind, ...) do { if (or_fails++ < 5) { char _b[400]; snprintf(_b, sizeof(_b), __VA_ARGS__); \
	vrt_fail(kind, "trace line %ld: %s", or_line, _b); } } while (0)

static int or_node_of(const char *tok)	/* "&n3" or "n3" -> 3 */
{
	if (tok[0] == '&') tok++;
	if (tok[0] != 'n' || tok[1] < '0' || tok[1] > '9') return -1;
	return atoi(tok + 1);
}

static void or_tok(char *b, int k)	/* value token of node k, or end marker for k < 0 */
{
	if (k < 0) snprintf(b, 24, "%s", or_c.end_tok);
	else snprintf(b, 24, "&n%d", k);
}

static void or_top(char *b) { or_tok(b, or_na ? or_A[or_na - 1] : -1); }

static int or_right(int t, const char *what)
{
	if (or_c.scheme == SCH_MUTEX && or_lock_owner != t) { OR_FAIL("scheme", "T%d %s without the pop lock", t, what); return 0; }
	if (or_c.scheme == SCH_SINGLE && t != or_c.consumer) { OR_FAIL("scheme", "T%d %s but the consumer is T%d", t, what, or_c.consumer); return 0; }
	return 1;
}

/* successor token of node k as memory should show it */
static void or_succ(char *b, int k, int *known)
{
	int i, t;
	*known = 1;
	if (or_n[k].st == NS_IN) {
		for (i = 0; i < or_na; i++)
			if (or_A[i] == k) { or_tok(b, i ? or_A[i - 1] : -1); return; }
	} else if (or_n[k].st == NS_LIMBO) {
		t = or_n[k].owner;
		for (i = 0; i < or_t[t].nlist; i++)
			if (or_t[t].list[i] == k) { or_tok(b, i + 1 < or_t[t].nlist ? or_t[t].list[i + 1] : -1); return; }
	}
	*known = 0;
}

static void or_event(int t, int argc, char **w)
{
	struct or_thr *th = &or_t[t];
	char b[24], b2[24];
	const char *op = w[0];
	int k, known;

	if (!strcmp(op, "ALLOC")) {
		k = or_node_of(w[1]);
		if (or_n[k].st != NS_FREE) OR_FAIL("once", "ALLOC n%d in state %d", k, or_n[k].st);
		or_n[k].st = NS_OWNED; or_n[k].owner = t;
	} else if (!strcmp(op, "FREE")) {
		k = or_node_of(w[1]);
		if (!((or_n[k].st == NS_OWNED || or_n[k].st == NS_RETIRED || (or_n[k].st == NS_POPPED && or_c.scheme != SCH_RCU)) && or_n[k].owner == t))
			OR_FAIL("once", "T%d frees n%d in state %d owner T%d", t, k, or_n[k].st, or_n[k].owner);
		or_n[k].st = NS_FREE;
	} else if (!strcmp(op, "RETIRE")) {
		k = or_node_of(w[1]);
		if (!(or_n[k].st == NS_POPPED && or_n[k].owner == t)) OR_FAIL("once", "T%d retires n%d in state %d", t, k, or_n[k].st);
		or_n[k].st = NS_RETIRED;
		or_n[k].owner = argc > 2 ? atoi(w[2]) : t;	/* handed to the reclaimer */
	} else if (!strcmp(op, "INIT")) {
		k = or_node_of(w[1]);
		if (!(or_n[k].st == NS_OWNED && or_n[k].owner == t)) OR_FAIL("recycled", "T%d initialises n%d it does not own", t, k);
		or_n[k].next_stored = 0;
	} else if (!strcmp(op, "NEXT")) {
		/* lfstack iteration (plain loads): node, successor read */
		k = or_node_of(w[1]);
		or_stats[6]++;
		if (!(or_n[k].st == NS_LIMBO && or_n[k].owner == t && th->pos < th->nlist && th->list[th->pos] == k))
			OR_FAIL("lifo", "T%d iterates over n%d which is not its current popped node", t, k);
		else {
			or_tok(b, th->pos + 1 < th->nlist ? th->list[th->pos + 1] : -1);
			if (strcmp(w[2], b)) OR_FAIL("lifo", "iteration after n%d continues with %s, popped list continues with %s", k, w[2], b);
			or_n[k].st = NS_POPPED; or_n[k].owner = t;
			th->pos++;
		}
	} else if (!strcmp(op, "CALL")) {
		th->lin = th->saw_null = th->cas_failed = 0;
		th->exp[0] = 0; th->exp_state = -1;
		if (!strcmp(w[1], "push")) {
			th->op = OP_PUSH; th->arg = k = or_node_of(w[2]);
			if (!(or_n[k].st == NS_OWNED && or_n[k].owner == t)) OR_FAIL("once", "T%d pushes n%d in state %d", t, k, or_n[k].st);
		} else if (!strcmp(w[1], "pop")) {
			th->op = OP_POP; th->blocking = strstr(w[2], "=1") != NULL;
		} else if (!strcmp(w[1], "pop_all")) th->op = OP_POPALL;
		else if (!strcmp(w[1], "next")) {
			th->op = OP_NEXT; th->arg = k = or_node_of(w[2]); th->blocking = strstr(w[3], "=1") != NULL;
			if (!(or_n[k].st == NS_LIMBO && or_n[k].owner == t && th->pos < th->nlist && th->list[th->pos] == k))
				OR_FAIL("lifo", "T%d iterates from n%d which is not its current popped node", t, k);
		} else if (!strcmp(w[1], "empty")) th->op = OP_EMPTY;
		else if (!strcmp(w[1], "runlock")) { th->op = OP_NONE; th->in_cs = 0; }
		else th->op = OP_NONE;
	} else if (!strcmp(op, "RET")) {
		if (!strcmp(w[1], "rlock")) th->in_cs = 1;
		if (!strcmp(w[1], "push")) {
			if (!th->lin) OR_FAIL("lifo", "push of n%d returned without a successful RMW on head", th->arg);
			else if (strcmp(w[2], strcmp(th->push_old, or_c.end_tok) ? "1" : "0"))
				OR_FAIL("ret", "push of n%d returned %s but replaced head %s", th->arg, w[2], th->push_old);
		} else if (!strcmp(w[1], "pop")) {
			if (!strcmp(w[2], "-1")) {
				or_stats[5]++;
				if (th->lin) OR_FAIL("ret", "pop returned WOULDBLOCK after taking a node");
				if (th->blocking) OR_FAIL("ret", "blocking pop returned WOULDBLOCK");
				if (!th->saw_null && !th->cas_failed) OR_FAIL("ret", "WOULDBLOCK without an incomplete push or a lost race");
			} else {
				if (!th->lin) OR_FAIL("lifo", "pop returned %s without a linearisation point", w[2]);
				else if (strcmp(w[2], th->exp)) OR_FAIL("ret", "pop returned %s, linearised on %s", w[2], th->exp);
				else if (argc > 3 && strcmp(w[3], "-") && th->exp_state >= 0 && atoi(w[3]) != th->exp_state)
					OR_FAIL("ret", "pop of %s reported state %s, expected %d", w[2], w[3], th->exp_state);
				if ((k = or_node_of(w[2])) >= 0) { or_n[k].st = NS_POPPED; or_n[k].owner = t; }
			}
		} else if (!strcmp(w[1], "pop_all")) {
			if (!th->lin) OR_FAIL("lifo", "pop_all returned without exchanging head");
			else if (strcmp(w[2], th->exp)) OR_FAIL("ret", "pop_all returned %s, exchanged %s", w[2], th->exp);
		} else if (!strcmp(w[1], "next")) {
			k = th->arg;
			or_stats[6]++;
			if (!strcmp(w[2], "-1")) {
				or_stats[5]++;
				if (th->blocking) OR_FAIL("ret", "blocking next returned WOULDBLOCK");
				if (!th->saw_null) OR_FAIL("ret", "next returned WOULDBLOCK although the node's next was set");
			} else {
				or_tok(b, th->pos + 1 < th->nlist ? th->list[th->pos + 1] : -1);
				if (th->pos + 1 >= th->nlist) snprintf(b, sizeof(b), "0");
				if (strcmp(w[2], b)) OR_FAIL("lifo", "iteration after n%d returned %s, popped list continues with %s", k, w[2], b);
				or_n[k].st = NS_POPPED; or_n[k].owner = t;
				th->pos++;
			}
		} else if (!strcmp(w[1], "empty")) {
			if (strcmp(w[2], th->exp)) OR_FAIL("ret", "empty() returned %s, abstract stack said %s at its load", w[2], th->exp);
		}
		th->op = OP_NONE;
	} else if (!strcmp(op, "LOCK") && !strcmp(w[1], "lock")) {
		or_lock_owner = t;
	} else if (!strcmp(op, "UNLOCK") && !strcmp(w[1], "lock")) {
		or_lock_owner = -1;
	} else if (!strcmp(op, "LD") && !strcmp(w[1], "head")) {
		or_top(b);
		if (strcmp(w[2], b)) OR_FAIL("lifo", "load of head returned %s, abstract top is %s", w[2], b);
		if (th->op == OP_EMPTY) { snprintf(th->exp, sizeof(th->exp), "%d", or_na == 0); or_stats[7]++; }
		if (th->op == OP_POP) {
			if (or_c.scheme == SCH_RCU) { if (!th->in_cs) OR_FAIL("scheme", "T%d pops outside a read-side section", t); }
			else or_right(t, "pops");
			if (!strcmp(w[2], or_c.end_tok)) {
				if (or_na) OR_FAIL("lifo", "pop saw an empty head, abstract stack has %d nodes", or_na);
				th->lin = 1; snprintf(th->exp, sizeof(th->exp), "0"); or_stats[2]++;
			}
		}
	} else if ((!strcmp(op, "LD") || !strcmp(op, "PLD")) && (k = or_node_of(w[1])) >= 0) {
		struct or_node *n = &or_n[k];
		if (n->st == NS_FREE || (n->st == NS_OWNED && n->owner != t) ||
		    (n->st == NS_POPPED && n->owner != t && or_c.scheme != SCH_RCU))
			OR_FAIL("recycled", "T%d reads n%d.next while the node is %s", t, k, n->st == NS_FREE ? "free" : "privately owned by another thread");
		or_succ(b, k, &known);
		if (known) {
			if (!or_c.push_is_cas && !n->next_stored) snprintf(b, sizeof(b), "0");
			if (strcmp(w[2], b)) OR_FAIL("lifo", "n%d.next read as %s, abstract successor is %s", k, w[2], b);
		}
		if (!strcmp(w[2], "0") && !or_c.push_is_cas) th->saw_null = 1;
	} else if ((!strcmp(op, "ST") || !strcmp(op, "PST")) && (k = or_node_of(w[1])) >= 0) {
		struct or_node *n = &or_n[k];
		if (or_c.push_is_cas) {
			/* lfstack: node->next is written only by the owner before publication */
			if (!(n->st == NS_OWNED && n->owner == t)) OR_FAIL("recycled", "T%d writes n%d.next without owning the node", t, k);
		} else if (!strcmp(op, "PST") && !strcmp(w[2], "0")) {
			if (!(n->st == NS_OWNED && n->owner == t)) OR_FAIL("recycled", "T%d initialises n%d.next without owning the node", t, k);
		} else {
			if (!(th->op == OP_PUSH && th->arg == k && th->lin)) OR_FAIL("recycled", "T%d stores n%d.next outside its push of that node", t, k);
			else if (strcmp(w[2], th->push_old)) OR_FAIL("lifo", "push of n%d stores next=%s but replaced head %s", k, w[2], th->push_old);
			if (n->next_stored) OR_FAIL("lifo", "second next store to n%d", k);
			n->next_stored = 1;
		}
	} else if (!strcmp(op, "XCHG") && !strcmp(w[1], "head")) {
		or_top(b);
		if (strcmp(w[3], b)) OR_FAIL("lifo", "xchg on head replaced %s, abstract top is %s", w[3], b);
		if (strcmp(w[2], or_c.end_tok)) {
			/* wfstack push */
			k = or_node_of(w[2]);
			if (or_c.push_is_cas || th->op != OP_PUSH || th->arg != k) OR_FAIL("lifo", "unexpected xchg of head to %s", w[2]);
			else {
				if (or_n[k].st != NS_OWNED) OR_FAIL("once", "n%d pushed while in state %d", k, or_n[k].st);
				or_A[or_na++] = k; or_n[k].st = NS_IN; th->lin = 1;
				snprintf(th->push_old, sizeof(th->push_old), "%s", w[3]);
				or_stats[0]++;
			}
		} else {
			int i;
			if (th->op != OP_POPALL) OR_FAIL("lifo", "xchg of head to the end marker outside pop_all");
			if (or_c.scheme != SCH_RCU) or_right(t, "pop_alls");
			if (th->pos < th->nlist) OR_FAIL("once", "T%d pop_all while its previous list still holds %d nodes", t, th->nlist - th->pos);
			th->nlist = th->pos = 0;
			for (i = or_na - 1; i >= 0; i--) { k = or_A[i]; th->list[th->nlist++] = k; or_n[k].st = NS_LIMBO; or_n[k].owner = t; }
			or_stats[3]++; or_stats[4] += or_na;
			or_na = 0; th->lin = 1;
			snprintf(th->exp, sizeof(th->exp), "%s", strcmp(w[3], or_c.end_tok) ? w[3] : "0");
		}
	} else if (!strcmp(op, "CAS") && !strcmp(w[1], "head")) {
		int ok = !strcmp(w[2], w[4]);
		or_top(b);
		if (strcmp(w[4], b)) OR_FAIL("lifo", "cmpxchg on head read %s, abstract top is %s", w[4], b);
		if (th->op == OP_PUSH && or_c.push_is_cas) {
			k = th->arg;
			if (or_node_of(w[3]) != k) OR_FAIL("lifo", "push of n%d installs %s", k, w[3]);
			if (ok) {
				if (or_n[k].st != NS_OWNED) OR_FAIL("once", "n%d pushed while in state %d", k, or_n[k].st);
				or_A[or_na++] = k; or_n[k].st = NS_IN; th->lin = 1;
				snprintf(th->push_old, sizeof(th->push_old), "%s", w[4]);
				or_stats[0]++;
			}
		} else if (th->op == OP_POP) {
			if (!ok) { th->cas_failed = 1; return; }
			if (!or_na) { OR_FAIL("lifo", "successful pop cmpxchg on an empty abstract stack"); return; }
			k = or_A[or_na - 1];
			or_tok(b2, or_na > 1 ? or_A[or_na - 2] : -1);
			if (strcmp(w[3], b2))
				OR_FAIL("lifo", "pop of n%d installs head %s, the second node is %s (stale next: ABA)", k, w[3], b2);
			or_na--; th->lin = 1; th->exp_state = or_na == 0;
			or_tok(th->exp, k);
			or_n[k].st = NS_POPPED; or_n[k].owner = t;
			or_stats[1]++;
		} else OR_FAIL("lifo", "cmpxchg on head outside push/pop");
	}
}

/* returns number of failures; summary printed as a trace-style comment on stderr by the caller */
static int oracle_check(const char *path, struct or_cfg cfg)
{
	FILE *f = fopen(path, "r");
	char line[512], *w[16];
	int i, n, t;
	if (!f) { vrt_fail("oracle", "cannot reopen trace %s", path); return 1; }
	or_c = cfg;
	for (i = 0; i < OR_MAXN; i++) { or_n[i].st = NS_FREE; or_n[i].next_stored = 0; }
	while (fgets(line, sizeof(line), f)) {
		char *p = line, *tok;
		or_line++;
		if (line[0] != 'T') continue;
		n = 0;
		while (n < 16 && (tok = strsep(&p, " \n")) != NULL)
			if (*tok) w[n++] = tok;
		if (n < 2) continue;
		t = atoi(w[0] + 1);
		if (t < 0 || t >= OR_MAXT) continue;
		for (i = n; i < 16; i++) w[i] = "";
		or_event(t, n - 1, w + 1);
	}
	fclose(f);
	if (or_na) OR_FAIL("once", "%d nodes left in the abstract stack after the final drain", or_na);
	for (i = 0; i < cfg.nnodes; i++)
		if (or_n[i].st == NS_IN || or_n[i].st == NS_LIMBO)
			OR_FAIL("once", "n%d lost: still %s at the end", i, or_n[i].st == NS_IN ? "in the stack" : "in an unfinished popped list");
	return or_fails;
}

/* concrete "solo" alarms fire only well beyond the model's bound: a harmless extra access must not look like a progress
 * failure (spin hints / polls are always an alarm; exact own-step counts are compared by the driver = divergence only) */
#define SOLO_SLACK(b) (4 * (b) + 16)

/* ------------------------------------------------------------------------------------------------
 * C17: solo runs.  The scenario defines, before including this file: STACK_C17, an enum of
 * operation kinds, `kname[]`, `kbound[]` (own scheduling points of one complete operation started
 * with the others frozen; also the bound of what remains from any point inside it) and
 * `kwaitfree[]` (the bound holds under arbitrary interference).
 * (a) self-solo: before an operation the thread freezes every other thread wherever it is, runs
 *     the operation alone, counts its own steps and spin hints, unfreezes;
 * (b) mid-operation solo: a freezer thread picks a victim that is *inside* a wait-free / lock-free /
 *     non-blocking operation, freezes everybody else and lets the victim finish alone; the victim's
 *     steps from the freeze to its return are bounded through the global step counter;
 * (c) wait-free and non-blocking operations keep their bound under any interference and never
 *     execute a spin hint: checked on every call.
 * ---------------------------------------------------------------------------------------------- */
#ifdef STACK_C17
static int c17;
static int c17_kind[OR_MAXT], c17_self[OR_MAXT];
static unsigned long c17_s0[OR_MAXT], c17_r0[OR_MAXT];
static int c17_mid_active, c17_mid_target, c17_stop;
static unsigned long c17_mid_g0;
static unsigned long c17_runs[2], c17_max[16], c17_midmax[16];

static void c17_freeze_others(int keep)
{
	int i;
	for (i = 1; i < vrt_nthreads(); i++)
		if (i != vrt_self() && i != keep && !vrt_done(i)) vrt_freeze(i, 1);
}

static void c17_unfreeze_all(void)
{
	int i;
	for (i = 1; i < vrt_nthreads(); i++) vrt_freeze(i, 0);
}

static void c17_op_begin(int kind)
{
	int me = vrt_self();
	c17_self[me] = 0;
	if (c17 && !c17_mid_active && vrt_rand() % 4 == 0) { c17_freeze_others(-1); c17_self[me] = 1; }
	c17_s0[me] = vrt_mysteps(); c17_r0[me] = vrt_myrelax();
	c17_kind[me] = kind;
}

static void c17_op_end(int kind)
{
	int me = vrt_self();
	unsigned long ds = vrt_mysteps() - c17_s0[me], dr = vrt_myrelax() - c17_r0[me];
	c17_kind[me] = -1;
	if (dr)
		vrt_fail("solo", "%s executed %lu spin hints / polls: it waited for another thread", kname[kind], dr);
	if (kwaitfree[kind] && ds > SOLO_SLACK(kbound[kind]))
		vrt_fail("solo", "wait-free %s took %lu own steps, bound %lu", kname[kind], ds, kbound[kind]);
	if (c17_self[me]) {
		vrt_log("SOLO %s steps=%lu relax=%lu", kname[kind], ds, dr);
		c17_runs[0]++;
		if (ds > c17_max[kind]) c17_max[kind] = ds;
		if (ds > SOLO_SLACK(kbound[kind]))
			vrt_fail("solo", "%s run solo (all other threads frozen) took %lu own steps, bound %lu", kname[kind], ds, kbound[kind]);
		c17_unfreeze_all();
		c17_self[me] = 0;
	}
	if (c17_mid_active && c17_mid_target == me) {
		unsigned long g = vrt_steps() - c17_mid_g0;
		vrt_log("SOLOMID %s steps=%lu", kname[kind], g);
		c17_runs[1]++;
		if (g > c17_midmax[kind]) c17_midmax[kind] = g;
		if (g > SOLO_SLACK(kbound[kind]))
			vrt_fail("solo", "%s, all others frozen in the middle of it, needed %lu more steps, bound %lu", kname[kind], g, kbound[kind]);
		c17_mid_active = 0;
		c17_unfreeze_all();
	}
}

static void *c17_freezer(void *arg)
{
	(void)arg;
	while (!c17_stop) {
		int cand[OR_MAXT], nc = 0, i;
		vrt_sleep(3 + vrt_rand() % 25);
		for (i = 1; i < vrt_nthreads(); i++)
			if (i != vrt_self() && !vrt_done(i) && c17_kind[i] >= 0 && !c17_self[i]) cand[nc++] = i;
		if (!nc || c17_stop) continue;
		c17_mid_target = cand[vrt_rand() % nc];
		c17_freeze_others(c17_mid_target);
		c17_mid_g0 = vrt_steps();
		c17_mid_active = 1;
		while (c17_mid_active && !c17_stop)
			vrt_sleep(400);
	}
	return NULL;
}
#endif
#endif
