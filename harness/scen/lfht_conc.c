/*
 * C05/C06/C07/C17(lfht) tie: the REAL src/rculfhash.c runs below under the macro shim — every
 * uatomic_* / rcu_dereference / cmpxchg / or / xchg on node->next, ht->size, resize_target,
 * resize_initiated, the split counters … is one event line and one scheduling point of the
 * deterministic cooperative runtime (harness/rt/vrt.c).  Nothing in /repo is changed.
 *
 * One source file, three translation units (static helpers of the library sources clash otherwise):
 *   -DTU_FLAVOR : vrt_shim.h + src/urcu.c           (memb flavor: read-side sections, synchronize_rcu)
 *   -DTU_WQ     : vrt_shim.h + src/workqueue.c      (the lazy-resize worker becomes a cooperative thread)
 *   (default)   : vrt_shim.h + src/rculfhash.c + the scenario
 * linked with the unshimmed rculfhash-mm-*.c (plain accesses only), compat_arch.c, vrt.c, vrt_compat_futex.c.
 *
 * Independent oracles (plain C, no model; "ORACLE <kind>: …" on stderr, exit 3):
 *   owner      (C07) at most one del/replace/add_replace obtains a node; exactly one at the end of the run
 *                    for every node some removal call targeted
 *   resident   (C05) a key / node that is continuously present for the whole duration of a lookup, a
 *                    lookup+next_duplicate walk or a first/next traversal is returned by it
 *   dupkey     (C06) no walk returns two nodes of a unique-only key; add_unique/add_replace results
 *   replabsent (C06) a lookup misses a continuously present key while a replace / add_replace of that key is in progress
 *   replowner  (C06) a replaced node is handed to two callers (reported in addition to owner)
 *   lin        (C05) Wing–Gong linearizability search against a reference multimap (--small; histories <= 24 ops,
 *                    closed when the workers are joined; budgeted search: inconclusive is reported, never a failure)
 *   gp         (C07) the real synchronize_rcu() returned while a section begun before the call is still open
 *   quarantine (C07) removed nodes and freed bucket tables are poisoned and kept: a later access faults
 *   abort      (all) an assertion of the library itself fails (urcu_posix_assert is compiled in)
 *   progress   (C17) with all other threads frozen a lookup/traversal executes no spin hint and every
 *                    update finishes within a step bound (runtime: DEADLOCK exit 4, BUDGET exit 5)
 *
 * Options (besides the runtime's --seed / --strategy rand|pct|sweep / --pswitch / --preempt-at N --preempt-tid T / --trace):
 *   --threads N --ops N --keys N (<= 8; the upper half is unique-only) --hashmode 0|1|2|3 --init N --minalloc N --max N
 *   --flags F (1 auto-resize, 2 accounting) --mm 0|1|2 (order|chunk|mmap) --resizes N --rtargets a,b,c --prefill N
 *   --pre SCRIPT --script "1:…;2:…" (directed programs, see run_script) --small (history for lin) --solo (C17 freeze runs)
 *   --big (whole tables named, for the partitioned resize on >= 16384 buckets) --marks (sweep windows "#@ in/out")
 */
#ifdef TU_FLAVOR
#include "vrt_shim.h"
#include "urcu.c"
#elif defined(TU_WQ)
#include "vrt_shim.h"
#include "workqueue.c"
#else
#define _LGPL_SOURCE	/* static inline rcu_dereference & co: their uatomic accesses are shimmed too */
#include "vrt_shim.h"
#include <urcu/urcu-memb.h>
#include "rculfhash.c"
#include <stdbool.h>
#include <signal.h>

#define MAXT 8
#define MAXNODE 4096
#define MAXKEY 8

struct knode {
	struct cds_lfht_node node;	/* first: &knode == &knode.node */
	unsigned long key, hash;
	int id;
	int state;		/* 0 free, 1 being added, 2 sure-in, 3 targeted by a removal call, 4 owned (removed) */
	long in_since;		/* harness time it became sure-in */
	int winners, del_calls;
	int owner_tid;
	const char *owner_how;
	int tainted;		/* targeted by a removal call while its own add / replace was still in flight */
};

static struct cds_lfht *ht;
static struct knode *pool;
static int npool;
static long htime = 1;		/* harness logical time: advanced at every CALL/RET */

static int nthreads = 2, nops = 12, nkeys = 4, hashmode, init_size = 1, min_alloc = 1, max_size = 16;
static int ht_flags, mm_kind, nresize = 2, small_hist, solo_mode, big;
static const char *mm_names[] = { "order", "chunk", "mmap" };

/* ---- keys / hashes ---------------------------------------------------------------------------- */
static unsigned long hash_of(unsigned long key)
{
	static const unsigned long special[MAXKEY] = { 0UL, ~0UL, 1UL, 1UL << 63, 2UL, (1UL << 63) | 1UL, ~0UL >> 1, 3UL };
	switch (hashmode) {
	case 0: return 5UL;					/* all keys collide completely */
	case 1: return 3UL | (key << 61);			/* differ only in the high bits */
	case 2: return special[key % MAXKEY];			/* 0, ~0, single bits */
	default: return (key / 2) * 0x9e5UL % 13UL;		/* pairs of colliding keys over several buckets */
	}
}
static int unique_only(unsigned long key) { return key >= (unsigned long)(nkeys + 1) / 2; }

static int match_key(struct cds_lfht_node *n, const void *key)
{
	return caa_container_of(n, struct knode, node)->key == *(const unsigned long *)key;
}

static struct knode *knode_of(struct cds_lfht_node *n)
{
	return n ? caa_container_of(n, struct knode, node) : NULL;
}

static struct knode *new_node(unsigned long key)
{
	struct knode *k;
	if (npool >= MAXNODE) { fprintf(stderr, "harness: node pool exhausted\n"); _exit(9); }
	k = &pool[npool];
	k->id = npool++;
	k->key = key;
	k->hash = hash_of(key);
	k->state = 1;
	cds_lfht_node_init(&k->node);
	vrt_name(&k->node, sizeof(k->node), "node%d", k->id);
	return k;
}

/* ---- recording allocator: poison + quarantine --------------------------------------------------- */
struct region { char *p; size_t bytes; int live; };
static struct region regs[4096];
static int nreg, nwork;
static int in_tbl_alloc;

static void reg_add(void *p, size_t bytes)
{
	if (nreg >= 4096) { fprintf(stderr, "harness: region table full\n"); _exit(9); }
	regs[nreg].p = p; regs[nreg].bytes = bytes; regs[nreg].live = 1; nreg++;
}
static void *r_malloc(void *st, size_t size)
{
	void *p = malloc(size);
	(void)st;
	reg_add(p, size);
	vrt_name(p, size, "work%d", nwork++);	/* resize_work items */
	return p;
}
static void *r_calloc(void *st, size_t nmemb, size_t size)
{
	void *p = calloc(nmemb, size);
	(void)st;
	reg_add(p, nmemb * size);
	if (!in_tbl_alloc && ht)
		vrt_name(p, nmemb * size, "aux%d", nwork++);	/* partition work arrays */
	return p;
}
static void *r_realloc(void *st, void *ptr, size_t size) { (void)st; (void)ptr; (void)size; fprintf(stderr, "harness: realloc\n"); _exit(9); return NULL; }
static void *r_aligned(void *st, size_t al, size_t size)
{
	void *p = NULL;
	(void)st;
	if (posix_memalign(&p, al, size)) return NULL;
	reg_add(p, size);
	return p;
}
static void r_free(void *st, void *ptr)
{
	int i;
	(void)st;
	if (!ptr) return;
	for (i = nreg - 1; i >= 0; i--)
		if (regs[i].p == (char *)ptr) break;
	if (i < 0 || !regs[i].live) { vrt_fail("quarantine", "free of an unknown or already freed block"); return; }
	regs[i].live = 0;
	memset(ptr, 0x42, regs[i].bytes);	/* kept forever: a late access follows 0x4242… and faults */
}
static struct cds_lfht_alloc rec_alloc = { .malloc = r_malloc, .calloc = r_calloc, .realloc = r_realloc,
	.aligned_alloc = r_aligned, .free = r_free, .state = NULL };

/* ---- wrapping mm plug-in: names every bucket node, logs table allocation / free ------------------ */
static const struct cds_lfht_mm_type *real_mm[3] = { &cds_lfht_mm_order, &cds_lfht_mm_chunk, &cds_lfht_mm_mmap };
static struct cds_lfht_mm_type wrap_mm;
static int tbl_gen[65];

static void w_alloc_tbl(struct cds_lfht *h, unsigned long order)
{
	unsigned long lo = order ? 1UL << (order - 1) : 0, hi = order ? 1UL << order : 1, i;
	in_tbl_alloc = 1;
	real_mm[mm_kind]->alloc_bucket_table(h, order);
	in_tbl_alloc = 0;
	if (order == 0 && h->min_nr_alloc_buckets > 1)
		hi = 1;		/* the nodes of the merged low orders are named when their order is "allocated" */
	if (big) {
		if (order == 0)
			vrt_name(h->tbl_order[0], h->min_nr_alloc_buckets * sizeof(struct cds_lfht_node), "t0_%d", tbl_gen[0]);
		else if (order > h->min_alloc_buckets_order)
			vrt_name(h->tbl_order[order], (hi - lo) * sizeof(struct cds_lfht_node), "t%lu_%d", order, tbl_gen[order]);
	} else {
		for (i = lo; i < hi; i++)
			vrt_name(h->bucket_at(h, i), sizeof(struct cds_lfht_node), "b%lu_%d", i, tbl_gen[order]);
	}
	vrt_log("TBL_ALLOC %lu %d", order, tbl_gen[order]);
}
static void w_free_tbl(struct cds_lfht *h, unsigned long order)
{
	vrt_log("TBL_FREE %lu %d", order, tbl_gen[order]);
	tbl_gen[order]++;
	real_mm[mm_kind]->free_bucket_table(h, order);
}
static struct cds_lfht *w_alloc_ht(unsigned long mn, unsigned long mx, const struct cds_lfht_alloc *al)
{
	struct cds_lfht *h = real_mm[mm_kind]->alloc_cds_lfht(mn, mx, al);
	h->mm = &wrap_mm;
	return h;
}
static void init_wrap_mm(void)
{
	wrap_mm.alloc_cds_lfht = w_alloc_ht;
	wrap_mm.alloc_bucket_table = w_alloc_tbl;
	wrap_mm.free_bucket_table = w_free_tbl;
	wrap_mm.bucket_at = real_mm[mm_kind]->bucket_at;
}

/* ---- wrapping flavor: the flavor's own events are bracketed so that the driver can skip them ------- */
static __thread int t_reg, t_depth;
static long cs_since[VRT_MAXT];		/* harness time the outermost section of thread t began, 0 = none */
static void f_read_lock(void)
{
	vrt_log("FLV_BEGIN read_lock");
	urcu_memb_read_lock();
	vrt_log("FLV_END read_lock");
	if (t_depth++ == 0) cs_since[vrt_self()] = htime++;
}
static void f_read_unlock(void)
{
	if (--t_depth == 0) cs_since[vrt_self()] = 0;
	vrt_log("FLV_BEGIN read_unlock");
	urcu_memb_read_unlock();
	vrt_log("FLV_END read_unlock");
}
static void f_sync(void)
{
	long call = htime++;
	int t;
	vrt_log("FLV_BEGIN sync");
	urcu_memb_synchronize_rcu();
	vrt_log("FLV_END sync");
	for (t = 0; t < VRT_MAXT; t++)
		if (cs_since[t] && cs_since[t] < call)
			vrt_fail("gp", "synchronize_rcu returned while T%d is inside a section begun before the call", t);
}
static void f_register(void)
{
	vrt_log("FLV_BEGIN register");
	if (!t_reg) {
		urcu_memb_register_thread();
		t_reg = 1;
	}
	vrt_log("FLV_END register");
}
static void f_unregister(void)
{
	vrt_log("FLV_BEGIN unregister");
	if (t_reg) { urcu_memb_unregister_thread(); t_reg = 0; }
	vrt_log("FLV_END unregister");
}
static void f_atfork(struct urcu_atfork *a) { (void)a; }
static struct rcu_flavor_struct wflavor;
static void init_flavor(void)
{
	wflavor = urcu_memb_flavor;
	wflavor.read_lock = f_read_lock;
	wflavor.read_unlock = f_read_unlock;
	wflavor.update_synchronize_rcu = f_sync;
	wflavor.register_thread = f_register;
	wflavor.unregister_thread = f_unregister;
	wflavor.register_rculfhash_atfork = f_atfork;
	wflavor.unregister_rculfhash_atfork = f_atfork;
}

/* ---- fatal signals = quarantine oracle -------------------------------------------------------------- */
static void on_segv(int sig)
{
	static const char m[] = "ORACLE quarantine: fatal signal — the library followed a pointer into freed (poisoned) memory or NULL\n";
	(void)sig;
	(void)!write(2, m, sizeof(m) - 1);
	_exit(3);
}

static void on_abort(int sig)
{
	static const char m[] = "ORACLE abort: the library aborted (urcu_posix_assert / abort() in the real code, message above)\n";
	(void)sig;
	(void)!write(2, m, sizeof(m) - 1);
	_exit(3);
}

/* ---- monitors (harness code between two shimmed primitives is atomic: one thread runs at a time) ---- */
static int sure[MAXKEY];		/* nodes of the key that are certainly in the table */
static long lastzero[MAXKEY];		/* last time the key was possibly absent */
static int ar_inflight[MAXKEY];		/* add_replace calls in progress on the key (their target is unknown) */
static int repl_inflight[MAXKEY];	/* replace / add_replace calls in progress on the key */
static long repl_last[MAXKEY];		/* … and when the last one returned */
static long ar_last[MAXKEY];
static long touched_at[MAXNODE];	/* first removal call that targeted the node */
static int taint[MAXKEY];		/* in-flight adds / replaces on the key whose NEW node is already targeted by a removal:
					   the node they replaced is still counted in sure[] but the key may be gone */

static void key_unsure(unsigned long k) { lastzero[k] = htime++; }
static int key_sure_since(unsigned long k, long call) { return sure[k] > 0 && lastzero[k] < call && !taint[k]; }
static void node_taint(struct knode *n) { if (!n->tainted) { n->tainted = 1; taint[n->key]++; } }
static void node_in(struct knode *n)
{
	if (n->tainted) { n->tainted = 0; taint[n->key]--; }
	if (n->state != 1 || touched_at[n->id]) {	/* already targeted by a removal: stay conservative */
		key_unsure(n->key);
		if (n->state == 1) n->state = 3;
		return;
	}
	n->state = 2;
	n->in_since = htime++;
	if (sure[n->key]++ == 0)
		lastzero[n->key] = n->in_since;	/* until now the key was possibly absent */
}
static void node_target(struct knode *n)	/* a removal call that names n starts */
{
	if (!touched_at[n->id]) touched_at[n->id] = htime++;
	if (n->state == 2) {
		n->state = 3;
		if (--sure[n->key] == 0) key_unsure(n->key);
	} else if (n->state == 1) {
		key_unsure(n->key);
		node_taint(n);
	}
}
static void node_won(struct knode *n, const char *how)
{
	if (!touched_at[n->id]) touched_at[n->id] = htime++;
	if (n->state == 2) { n->state = 3; if (--sure[n->key] == 0) key_unsure(n->key); }
	else if (n->state == 1) { key_unsure(n->key); node_taint(n); }
	if (++n->winners > 1)
		vrt_fail("owner", "node%d obtained by two callers (second: T%d via %s, first: T%d via %s)", n->id, vrt_self(), how, n->owner_tid, n->owner_how);
	if (n->winners > 1 && (how[0] != 'd' || n->owner_how[0] != 'd'))
		vrt_fail("replowner", "replaced node%d handed to two callers (%s by T%d, %s by T%d)", n->id, n->owner_how, n->owner_tid, how, vrt_self());
	n->owner_how = how;
	n->owner_tid = vrt_self();
	n->state = 4;
}
/* node-level residency: in the table and untouched during [start, now] */
static int node_resident(struct knode *n, long start)
{
	return n->state == 2 && n->in_since < start && !touched_at[n->id] &&
		!ar_inflight[n->key] && ar_last[n->key] < start;
}

/* ---- history for the linearizability search ----------------------------------------------------------- */
enum { H_ADD, H_ADDU, H_ADDR, H_REPL, H_DEL, H_LOOKUP };
struct hop { int type, tid, node, arg2, ret; unsigned long key; long call, retn; };
#define MAXHIST 64
static struct hop hist[MAXHIST];
static int nhist, hist_closed;	/* the history ends when the workers are joined (the final state is checked by final_checks) */
static int h_begin(int type, unsigned long key, int node, int arg2)
{
	int i = nhist;
	if (!small_hist || hist_closed || nhist >= MAXHIST) return -1;
	nhist++;
	hist[i].type = type; hist[i].tid = vrt_self(); hist[i].key = key; hist[i].node = node; hist[i].arg2 = arg2;
	hist[i].call = htime++; hist[i].retn = 0;
	return i;
}
static void h_end(int i, int ret) { if (i >= 0) { hist[i].ret = ret; hist[i].retn = htime++; } }

/* ---- quarantine of removed nodes ----------------------------------------------------------------------- */
static __thread struct knode *mine[256];
static __thread int nmine;
static void reclaim_mine(void)
{
	int i;
	if (!nmine) return;
	wflavor.update_synchronize_rcu();
	for (i = 0; i < nmine; i++) {
		vrt_log("FREE node%d", mine[i]->id);
		memset(&mine[i]->node, 0x42, sizeof(mine[i]->node));	/* poisoned and kept, never reused */
	}
	nmine = 0;
}
static void own(struct knode *n) { if (nmine < 256) mine[nmine++] = n; }

/* ---- C17: solo accounting around every library call ------------------------------------------------------ */
static __thread int soloing;
static __thread unsigned long solo_s0, solo_r0, solo_steps, solo_relax;
static int sweep_marks;		/* --marks: "#@ in/out T<tid> <global step>" around every library call (sweep windows of the check) */
static void lib_enter(void)
{
	if (sweep_marks) vrt_raw("#@ in T%d %lu", vrt_self(), vrt_steps());
	if (soloing) { solo_s0 = vrt_mysteps(); solo_r0 = vrt_myrelax(); }
}
static void lib_leave(void)
{
	if (sweep_marks) vrt_raw("#@ out T%d %lu", vrt_self(), vrt_steps());
	if (soloing) { solo_steps += vrt_mysteps() - solo_s0; solo_relax += vrt_myrelax() - solo_r0; }
}

/* ---- operations (each runs inside a read-side section of the calling thread) ------------------------------- */
static __thread struct cds_lfht_iter it;
static long won_at[MAXNODE];
#define NM(p) vrt_val((unsigned long)(p))

static void check_found(const char *what, unsigned long k, struct knode *r, long call)
{
	if (r->key != k)
		vrt_fail("dupkey", "%s(key %lu) returned node%d whose key is %lu", what, k, r->id, r->key);
	if (r->state == 4 && won_at[r->id] && won_at[r->id] < call)
		vrt_fail("resident", "%s(key %lu) returned node%d, which had been removed (owner returned) before the call", what, k, r->id);
}

static struct knode *op_lookup(unsigned long k)
{
	long call = htime++;
	int h = h_begin(H_LOOKUP, k, -1, -1);
	struct knode *r;
	vrt_log("CALL lookup %lu %lu", hash_of(k), k);
	lib_enter();
	cds_lfht_lookup(ht, hash_of(k), match_key, &k, &it);
	lib_leave();
	vrt_log("RET lookup %s %s", NM(it.node), NM(it.next));
	r = knode_of(it.node);
	if (r)
		check_found("lookup", k, r, call);
	else if (key_sure_since(k, call))
		vrt_fail(repl_inflight[k] || repl_last[k] > call ? "replabsent" : "resident",
			 "lookup(key %lu) found nothing although the key was continuously present during the call%s", k,
			 repl_inflight[k] || repl_last[k] > call ? " (a replacement of that key was in progress)" : "");
	h_end(h, r ? r->id : -1);
	return r;
}

static void op_add(unsigned long k)
{
	struct knode *n = new_node(k);
	int h = h_begin(H_ADD, k, n->id, -1);
	vrt_log("CALL add node%d %lu %lu", n->id, n->hash, k);
	lib_enter();
	cds_lfht_add(ht, n->hash, &n->node);
	lib_leave();
	vrt_log("RET add");
	node_in(n);
	h_end(h, 0);
}

static void op_add_unique(unsigned long k)
{
	struct knode *n = new_node(k), *r;
	long call = htime++;
	int h = h_begin(H_ADDU, k, n->id, -1);
	vrt_log("CALL add_unique node%d %lu %lu", n->id, n->hash, k);
	lib_enter();
	r = knode_of(cds_lfht_add_unique(ht, n->hash, match_key, &k, &n->node));
	lib_leave();
	vrt_log("RET add_unique %s", NM(r));
	if (r == n) {
		if (key_sure_since(k, call))
			vrt_fail("dupkey", "add_unique(key %lu) inserted node%d although the key was continuously present during the call", k, n->id);
		node_in(n);
	} else {
		n->state = 0;
		check_found("add_unique", k, r, call);
	}
	h_end(h, r->id);
}

static void op_add_replace(unsigned long k)
{
	struct knode *n = new_node(k), *r;
	long call = htime++;
	int h = h_begin(H_ADDR, k, n->id, -1);
	ar_inflight[k]++;
	repl_inflight[k]++;
	vrt_log("CALL add_replace node%d %lu %lu", n->id, n->hash, k);
	lib_enter();
	r = knode_of(cds_lfht_add_replace(ht, n->hash, match_key, &k, &n->node));
	lib_leave();
	vrt_log("RET add_replace %s", NM(r));
	ar_inflight[k]--;
	repl_inflight[k]--;
	repl_last[k] = htime++;
	ar_last[k] = htime++;
	if (!r && key_sure_since(k, call))
		vrt_fail("dupkey", "add_replace(key %lu) inserted node%d without replacing although the key was continuously present", k, n->id);
	node_in(n);
	if (r) {
		check_found("add_replace", k, r, call);
		node_won(r, "add_replace");
		won_at[r->id] = htime++;
		own(r);
	}
	h_end(h, r ? r->id : -1);
}

/* replace / del act on the node of the thread's iterator (found by a lookup in the same section) */
static void op_replace(unsigned long k)
{
	struct knode *old = knode_of(it.node), *n = new_node(k);
	int h = h_begin(H_REPL, k, n->id, old->id), ret;
	if (!touched_at[old->id]) touched_at[old->id] = htime++;
	repl_inflight[k]++;
	vrt_log("CALL replace node%d %lu %lu", n->id, n->hash, k);
	lib_enter();
	ret = cds_lfht_replace(ht, &it, n->hash, match_key, &k, &n->node);
	lib_leave();
	vrt_log("RET replace %d", ret);
	repl_inflight[k]--;
	repl_last[k] = htime++;
	if (ret == 0) {
		node_in(n);
		node_won(old, "replace");
		won_at[old->id] = htime++;
		own(old);
	} else {
		n->state = 0;
		if (ret != -ENOENT)
			vrt_fail("owner", "replace of node%d returned %d", old->id, ret);
	}
	h_end(h, ret);
}

/* error paths of the API glue: replace with a non-matching key / hash (-EINVAL, no shared access), replace and del of a
 * NULL node (-ENOENT) */
static void op_replace_mismatch(unsigned long k)
{
	struct knode *old = knode_of(it.node), *n;
	int ret;
	if (k == old->key) k = (k + 1) % MAXKEY;
	n = new_node(k);
	vrt_log("CALL replace node%d %lu %lu", n->id, n->hash, k);
	lib_enter();
	ret = cds_lfht_replace(ht, &it, n->hash, match_key, &k, &n->node);
	lib_leave();
	vrt_log("RET replace %d", ret);
	n->state = 0;
	if (ret != -EINVAL)
		vrt_fail("owner", "replace of node%d (key %lu) by a node of key %lu returned %d, expected -EINVAL", old->id, old->key, k, ret);
}
static void op_null(int del)
{
	int ret;
	it.node = it.next = NULL;
	if (del) {
		vrt_log("CALL del");
		lib_enter();
		ret = cds_lfht_del(ht, NULL);
		lib_leave();
		vrt_log("RET del %d", ret);
	} else {
		unsigned long k = 0;
		struct knode *n = new_node(k);
		vrt_log("CALL replace node%d %lu %lu", n->id, n->hash, k);
		lib_enter();
		ret = cds_lfht_replace(ht, &it, n->hash, match_key, &k, &n->node);
		lib_leave();
		vrt_log("RET replace %d", ret);
		n->state = 0;
	}
	if (ret != -ENOENT)
		vrt_fail("owner", "%s of a NULL node returned %d, expected -ENOENT", del ? "del" : "replace", ret);
}

static void op_del(void)
{
	struct knode *old = knode_of(it.node);
	int h = h_begin(H_DEL, old->key, old->id, -1), ret;
	node_target(old);
	old->del_calls++;
	vrt_log("CALL del");
	lib_enter();
	ret = cds_lfht_del(ht, &old->node);
	lib_leave();
	vrt_log("RET del %d", ret);
	if (ret == 0) {
		node_won(old, "del");
		won_at[old->id] = htime++;
		own(old);
	} else if (ret != -ENOENT)
		vrt_fail("owner", "del of node%d returned %d", old->id, ret);
	h_end(h, ret);
}

/* lookup + next_duplicate walk over one key */
static void op_dupwalk(unsigned long k)
{
	long start = htime++;
	int seen[64], ns = 0, i, j;
	struct knode *r = op_lookup(k);
	while (r) {
		for (j = 0; j < ns; j++)
			if (seen[j] == r->id)
				vrt_fail("dupkey", "duplicate walk over key %lu returned node%d twice", k, r->id);
		if (ns < 64) seen[ns++] = r->id;
		vrt_log("CALL next_dup %lu", k);
		lib_enter();
		cds_lfht_next_duplicate(ht, match_key, &k, &it);
		lib_leave();
		vrt_log("RET next_dup %s %s", NM(it.node), NM(it.next));
		r = knode_of(it.node);
		if (r) check_found("next_duplicate", k, r, start);
	}
	if (unique_only(k) && ns > 1)
		vrt_fail("dupkey", "walk over unique-only key %lu returned %d nodes (node%d, node%d, …)", k, ns, seen[0], seen[1]);
	for (i = 0; i < npool; i++) {
		if (pool[i].key != k || !node_resident(&pool[i], start)) continue;
		for (j = 0; j < ns; j++) if (seen[j] == i) break;
		if (j == ns)
			vrt_fail("resident", "walk over key %lu missed node%d, which stayed in the table during the whole walk", k, i);
	}
}

/* first/next traversal of the whole table */
static void op_traverse(void)
{
	long start = htime++;
	static __thread int seen[MAXNODE];
	int ns = 0, i, j, perkey[MAXKEY] = { 0 };
	unsigned long last_rev = 0;
	struct knode *r;
	vrt_log("CALL first");
	lib_enter();
	cds_lfht_first(ht, &it);
	lib_leave();
	vrt_log("RET first %s %s", NM(it.node), NM(it.next));
	while ((r = knode_of(it.node))) {
		if (r->node.reverse_hash < last_rev)
			vrt_fail("resident", "traversal went backwards in split order at node%d", r->id);
		last_rev = r->node.reverse_hash;
		for (j = 0; j < ns; j++)
			if (seen[j] == r->id) vrt_fail("dupkey", "traversal returned node%d twice", r->id);
		seen[ns++] = r->id;
		if (unique_only(r->key) && ++perkey[r->key] > 1)
			vrt_fail("dupkey", "traversal returned two nodes of unique-only key %lu (second: node%d)", r->key, r->id);
		vrt_log("CALL next");
		lib_enter();
		cds_lfht_next(ht, &it);
		lib_leave();
		vrt_log("RET next %s %s", NM(it.node), NM(it.next));
	}
	for (i = 0; i < npool; i++) {
		if (!node_resident(&pool[i], start)) continue;
		for (j = 0; j < ns; j++) if (seen[j] == i) break;
		if (j == ns)
			vrt_fail("resident", "traversal missed node%d (key %lu), which stayed in the table during the whole traversal", i, pool[i].key);
	}
}

/* single iterator steps for the directed scripts: the iterator (node, next) stays valid inside the section */
static void op_first(void)
{
	vrt_log("CALL first");
	lib_enter();
	cds_lfht_first(ht, &it);
	lib_leave();
	vrt_log("RET first %s %s", NM(it.node), NM(it.next));
}
static void op_next(void)
{
	vrt_log("CALL next");
	lib_enter();
	cds_lfht_next(ht, &it);
	lib_leave();
	vrt_log("RET next %s %s", NM(it.node), NM(it.next));
}

/* ---- C17 freeze helpers -------------------------------------------------------------------------------------- */
static void freeze_others(int on)
{
	int t;
	for (t = 1; t < vrt_nthreads(); t++)
		if (t != vrt_self()) vrt_freeze(t, on);
}
/* raw walk (no events): chain length and number of flagged-but-still-linked nodes */
static void raw_chain(unsigned long *len, unsigned long *flagged)
{
	struct cds_lfht_node *n = ht->bucket_at(ht, 0);
	*len = *flagged = 0;
	while (n && *len < 100000) {
		unsigned long w = (unsigned long)n->next;
		(*len)++;
		if (w & REMOVED_FLAG) (*flagged)++;
		n = (struct cds_lfht_node *)(w & ~FLAGS_MASK);
	}
}
static unsigned long solo_len, solo_flagged;
static void solo_begin(void)
{
	freeze_others(1);
	raw_chain(&solo_len, &solo_flagged);
	solo_steps = solo_relax = 0;
	soloing = 1;
}
static void solo_end(const char *what, int reader, int calls)
{
	unsigned long bound = reader ? (unsigned long)calls * 4 + 2 * solo_len + 8
				     : (solo_flagged + 3) * (2 * solo_len + 8) + 64;
	soloing = 0;
	vrt_raw("# SOLO op=%s steps=%lu relax=%lu flagged=%lu chain=%lu bound=%lu", what, solo_steps, solo_relax,
		solo_flagged, solo_len, bound);
	if (solo_relax)
		vrt_fail("progress", "%s executed %lu spin hints while every other thread was frozen (it waits instead of helping)", what, solo_relax);
	if (solo_steps > bound)
		vrt_fail("progress", "%s needed %lu own steps solo (bound %lu: chain %lu, flagged %lu)", what, solo_steps, bound, solo_len, solo_flagged);
	freeze_others(0);
}

/* ---- threads --------------------------------------------------------------------------------------------------- */
static int solo_tid_idx;	/* index of the worker that runs its operations solo (0 = none) */

static void one_op(int idx, int solo)
{
	unsigned c = vrt_rand() % 100;
	unsigned long k = vrt_rand() % nkeys;
	struct knode *r;
	int reader = 0, calls = 1;
	const char *what;
	if (solo) solo_begin();
	wflavor.read_lock();
	if (small_hist) c = c % 70;	/* single-shot operations only */
	if (c < 14 && !unique_only(k)) { what = "add"; op_add(k); }
	else if (c < 30) { what = "add_unique"; op_add_unique(k); }
	else if (c < 42) { what = "add_replace"; op_add_replace(k); }
	else if (c < 54) {
		what = "replace";
		r = op_lookup(k);
		if (r) op_replace(k);
	} else if (c < 70) {
		what = "del";
		r = op_lookup(k);
		if (r) op_del();
		else if (vrt_rand() % 8 == 0) op_null(1);
	} else if (c < 80) {
		what = "lookup"; reader = 1;
		r = op_lookup(k);
		if (r && !small_hist && vrt_rand() % 6 == 0) { reader = 0; op_replace_mismatch((k + 1) % nkeys); }
		else if (!r && !small_hist && vrt_rand() % 6 == 0) { reader = 0; op_null(0); }
	}
	else if (c < 90) { what = "dupwalk"; reader = 1; calls = 16; op_dupwalk(k); }
	else { what = "traverse"; reader = 1; calls = npool + 2; op_traverse(); }
	wflavor.read_unlock();
	if (solo) solo_end(what, reader, calls);
	(void)idx;
}

/*
 * Directed scenarios: --script "1:L3+z+D,u2;2:d3,g" gives worker 1, 2 … a fixed program instead of random operations.
 * Operations (',' separated, each in its own read-side section; '+' chains primitives inside ONE section):
 *   a<k> add   u<k> add_unique   p<k> add_replace   L<k>|l<k> lookup   R<k> replace the iterator's node by a new node of key k
 *   D del the iterator's node   r<k> = L<k>+R<k>   d<k> = L<k>+D   w<k> lookup+next_duplicate walk   t first/next traversal
 *   F first   n next (one iterator step each; with z in between the thread holds the iterator while others run)
 *   X<k> replace the iterator's node by a node of ANOTHER key (-EINVAL)   N replace / E del of a NULL node (-ENOENT)
 *   z logical sleep (lets the other threads run; inside a section it keeps the section open)   Z (alone) the same outside a section
 *   g (alone) synchronize_rcu + free the nodes this thread owns
 */
static char *scripts[MAXT + 2];
static char *pre_script, *rtargets;

static void prim(const char *p)
{
	unsigned long k = p[1] ? strtoul(p + 1, NULL, 10) % MAXKEY : 0;
	switch (p[0]) {
	case 'a': op_add(k); break;
	case 'u': op_add_unique(k); break;
	case 'p': op_add_replace(k); break;
	case 'l': case 'L': op_lookup(k); break;
	case 'R': if (it.node) op_replace(k); break;
	case 'D': if (it.node) op_del(); break;
	case 'r': if (op_lookup(k)) op_replace(k); break;
	case 'd': if (op_lookup(k)) op_del(); break;
	case 'w': op_dupwalk(k); break;
	case 't': op_traverse(); break;
	case 'F': op_first(); break;
	case 'n': if (it.node) op_next(); break;
	case 'X': if (it.node) op_replace_mismatch(k); break;
	case 'N': op_null(0); break;
	case 'E': op_null(1); break;
	case 'z': vrt_sleep(100000); break;
	default: fprintf(stderr, "harness: bad script primitive '%s'\n", p); _exit(9);
	}
}
static void run_script(const char *sc)
{
	char buf[512], *op, *sv1;
	snprintf(buf, sizeof(buf), "%s", sc);
	for (op = strtok_r(buf, ",", &sv1); op; op = strtok_r(NULL, ",", &sv1)) {
		char *pr, *sv2;
		if (op[0] == 'g') { reclaim_mine(); continue; }
		if (op[0] == 'Z') { vrt_sleep(100000); continue; }	/* outside any section */
		wflavor.read_lock();
		it.node = it.next = NULL;
		for (pr = strtok_r(op, "+", &sv2); pr; pr = strtok_r(NULL, "+", &sv2))
			prim(pr);
		wflavor.read_unlock();
	}
}

static void *worker(void *arg)
{
	int idx = (int)(long)arg, i;
	wflavor.register_thread();
	if (idx <= MAXT && scripts[idx]) {
		run_script(scripts[idx]);
		reclaim_mine();
		wflavor.unregister_thread();
		return NULL;
	}
	for (i = 0; i < nops; i++) {
		int solo = solo_mode && idx == solo_tid_idx;
		if (solo) vrt_sleep(1 + vrt_rand() % 60);
		one_op(idx, solo);
		if (vrt_rand() % 4 == 0) reclaim_mine();
	}
	reclaim_mine();
	wflavor.unregister_thread();
	return NULL;
}

static void *resizer(void *arg)
{
	int i, maxo = cds_lfht_get_count_order_ulong(max_size);
	(void)arg;
	wflavor.register_thread();
	for (i = 0; i < nresize; i++) {
		unsigned long target = 1UL << (vrt_rand() % (maxo + 1));
		if (big) target = i % 2 ? (unsigned long)max_size / 2 : (unsigned long)max_size;
		if (rtargets) {		/* --rtargets 8,1,4 */
			char *e;
			target = strtoul(rtargets, &e, 10);
			rtargets = *e ? e + 1 : e;
			if (!target) break;
		} else		/* directed runs: the schedule alone decides when the resize happens */
			vrt_sleep(vrt_rand() % 80);
		vrt_log("CALL resize %lu", target);
		lib_enter();
		cds_lfht_resize(ht, target);
		lib_leave();
		vrt_log("RET resize");
	}
	wflavor.unregister_thread();
	return NULL;
}

/* ---- Wing–Gong linearizability search against a reference multimap (small histories) ----------------------------- */
#define WG_SLOTS (1u << 20)
static unsigned char wg_memo[WG_SLOTS];	/* visited (done-mask, present-set): exact key, hashed slot */
static unsigned long wg_seen[WG_SLOTS];
static unsigned long wg_calls;		/* search budget: an exhausted search is "not checked", never a failure */
#define WG_BUDGET 4000000UL
static int key_present(unsigned long present, unsigned long k, int *which)
{
	int i;
	for (i = 0; i < npool && i < 64; i++)
		if ((present >> i & 1) && pool[i].key == k) { if (which) *which = i; return 1; }
	return 0;
}
static int wg(unsigned done, unsigned long present)
{
	int i, j;
	unsigned slot = (done * 2654435761u ^ (unsigned)(present * 0x9E3779B97F4A7C15UL >> 40)) & (WG_SLOTS - 1);
	if (done == (1u << nhist) - 1) return 1;
	if (++wg_calls > WG_BUDGET) return 1;
	if (wg_memo[slot] && wg_seen[slot] == (present ^ ((unsigned long)done << 40))) return 0;
	for (i = 0; i < nhist; i++) {
		struct hop *o = &hist[i];
		unsigned long p2 = present;
		int ok = 0;
		if (done >> i & 1) continue;
		for (j = 0; j < nhist; j++)	/* minimal: no pending op returned before o was called */
			if (!(done >> j & 1) && j != i && hist[j].retn && hist[j].retn < o->call) break;
		if (j < nhist) continue;
		switch (o->type) {
		case H_ADD: p2 |= 1UL << o->node; ok = 1; break;
		case H_ADDU:
			if (o->ret == o->node) { ok = !key_present(present, o->key, NULL); p2 |= 1UL << o->node; }
			else ok = (present >> o->ret & 1) && pool[o->ret].key == o->key;
			break;
		case H_ADDR:
			if (o->ret < 0) { ok = !key_present(present, o->key, NULL); p2 |= 1UL << o->node; }
			else { ok = (present >> o->ret & 1) && pool[o->ret].key == o->key; p2 = (present & ~(1UL << o->ret)) | 1UL << o->node; }
			break;
		case H_REPL:
			if (o->ret == 0) { ok = present >> o->arg2 & 1; p2 = (present & ~(1UL << o->arg2)) | 1UL << o->node; }
			else ok = !(present >> o->arg2 & 1);
			break;
		case H_DEL:
			if (o->ret == 0) { ok = present >> o->node & 1; p2 = present & ~(1UL << o->node); }
			else ok = !(present >> o->node & 1);
			break;
		case H_LOOKUP:
			if (o->ret < 0) ok = !key_present(present, o->key, NULL);
			else ok = (present >> o->ret & 1) && pool[o->ret].key == o->key;
			break;
		}
		if (ok && wg(done | 1u << i, p2)) return 1;
	}
	wg_memo[slot] = 1;
	wg_seen[slot] = present ^ ((unsigned long)done << 40);
	return 0;
}
static void lin_check(void)
{
	int i;
	if (!small_hist || nhist == 0 || nhist > 24 || npool > 40) return;
	for (i = 0; i < nhist; i++) if (!hist[i].retn) return;
	if (!wg(0, 0)) {
		vrt_fail("lin", "history of %d operations has no linearization against the multimap specification", nhist);
		for (i = 0; i < nhist; i++)
			fprintf(stderr, "  op%d T%d type=%d key=%lu node=%d arg2=%d ret=%d [%ld,%ld]\n", i, hist[i].tid, hist[i].type,
				hist[i].key, hist[i].node, hist[i].arg2, hist[i].ret, hist[i].call, hist[i].retn);
	}
	if (wg_calls > WG_BUDGET) { vrt_raw("# LIN-INCONCLUSIVE ops=%d", nhist); return; }
	vrt_raw("# LIN ops=%d ok=%d", nhist, !vrt_failed);
}

/* ---- main ---------------------------------------------------------------------------------------------------------- */
static const char *unknown_hook(const void *p)
{
	if (cds_lfht_workqueue && (const char *)p >= (const char *)cds_lfht_workqueue &&
	    (const char *)p < (const char *)cds_lfht_workqueue + 512) {
		vrt_name(cds_lfht_workqueue, 512, "wq");
		return "wq";
	}
	return NULL;
}

static void final_checks(void)
{
	int i, removed = 0;
	unsigned long k;
	/* quiescent: every node some removal call targeted has exactly one owner */
	for (i = 0; i < npool; i++) {
		if (pool[i].winners > 1)
			vrt_fail("owner", "node%d has %d owners", i, pool[i].winners);
		if (pool[i].del_calls && pool[i].winners != 1)
			vrt_fail("owner", "node%d: %d del calls completed but %d owner(s)", i, pool[i].del_calls, pool[i].winners);
	}
	/* the table content is exactly the nodes the monitor has in; then empty it */
	wflavor.read_lock();
	op_traverse();
	for (i = 0; i < npool; i++)
		if (pool[i].state == 3 || pool[i].state == 1)
			vrt_fail("owner", "node%d is neither in the table nor owned at the end (state %d)", i, pool[i].state);
	wflavor.read_unlock();
	for (k = 0; k < (unsigned long)nkeys; k++) {
		for (;;) {
			struct knode *r;
			wflavor.read_lock();
			r = op_lookup(k);
			if (r) { op_del(); removed++; }
			wflavor.read_unlock();
			if (!r) break;
		}
	}
	reclaim_mine();
	vrt_raw("# FINAL removed=%d nodes=%d", removed, npool);
}

int main(int argc, char **argv)
{
	int i, tids[MAXT + 2], nt = 0, prefill = 2, ret;
	argc = vrt_init(argc, argv);
	for (i = 1; i < argc; i++) {
		if (!strcmp(argv[i], "--threads") && i + 1 < argc) nthreads = atoi(argv[++i]);
		else if (!strcmp(argv[i], "--ops") && i + 1 < argc) nops = atoi(argv[++i]);
		else if (!strcmp(argv[i], "--keys") && i + 1 < argc) nkeys = atoi(argv[++i]);
		else if (!strcmp(argv[i], "--hashmode") && i + 1 < argc) hashmode = atoi(argv[++i]);
		else if (!strcmp(argv[i], "--init") && i + 1 < argc) init_size = atoi(argv[++i]);
		else if (!strcmp(argv[i], "--minalloc") && i + 1 < argc) min_alloc = atoi(argv[++i]);
		else if (!strcmp(argv[i], "--max") && i + 1 < argc) max_size = atoi(argv[++i]);
		else if (!strcmp(argv[i], "--flags") && i + 1 < argc) ht_flags = atoi(argv[++i]);
		else if (!strcmp(argv[i], "--mm") && i + 1 < argc) mm_kind = atoi(argv[++i]);
		else if (!strcmp(argv[i], "--resizes") && i + 1 < argc) nresize = atoi(argv[++i]);
		else if (!strcmp(argv[i], "--prefill") && i + 1 < argc) prefill = atoi(argv[++i]);
		else if (!strcmp(argv[i], "--script") && i + 1 < argc) {
			char *sv, *tk;
			for (tk = strtok_r(argv[++i], ";", &sv); tk; tk = strtok_r(NULL, ";", &sv)) {
				int w = atoi(tk);
				char *c = strchr(tk, ':');
				if (w >= 1 && w <= MAXT && c) scripts[w] = c + 1;
			}
		}
		else if (!strcmp(argv[i], "--pre") && i + 1 < argc) pre_script = argv[++i];
		else if (!strcmp(argv[i], "--rtargets") && i + 1 < argc) { rtargets = argv[++i]; nresize = 64; }
		else if (!strcmp(argv[i], "--small")) small_hist = 1;
		else if (!strcmp(argv[i], "--marks")) sweep_marks = 1;
		else if (!strcmp(argv[i], "--solo")) solo_mode = 1;
		else if (!strcmp(argv[i], "--big")) big = 1;
	}
	if (nthreads > MAXT) nthreads = MAXT;
	if (nkeys > MAXKEY) nkeys = MAXKEY;
	if (big) { mm_kind = 0; min_alloc = 1; }
	signal(SIGSEGV, on_segv);
	signal(SIGBUS, on_segv);
	signal(SIGABRT, on_abort);
	vrt_unknown_hook = unknown_hook;
	pool = calloc(MAXNODE, sizeof(*pool));
	init_wrap_mm();
	init_flavor();
	vrt_raw("CFG init=%d min=%d max=%d flags=%d mm=%s threads=%d keys=%d hashmode=%d small=%d solo=%d model=1 big=%d", init_size,
		min_alloc, max_size, ht_flags, mm_names[mm_kind], nthreads, nkeys, hashmode, small_hist, solo_mode, big);
	wflavor.register_thread();
	ht = _cds_lfht_new_with_alloc(init_size, min_alloc, max_size, ht_flags, &wrap_mm, &wflavor, &rec_alloc, NULL);
	if (!ht) { fprintf(stderr, "harness: cds_lfht_new failed\n"); return 9; }
	vrt_name(ht, sizeof(*ht), "ht");
	vrt_name(&ht->size, sizeof(ht->size), "ht.size");
	vrt_name(&ht->resize_target, sizeof(ht->resize_target), "ht.rtarget");
	vrt_name(&ht->resize_initiated, sizeof(ht->resize_initiated), "ht.rinit");
	vrt_name(&ht->in_progress_destroy, sizeof(ht->in_progress_destroy), "ht.destroy");
	vrt_name(&ht->count, sizeof(ht->count), "ht.count");
	vrt_name(&ht->resize_mutex, sizeof(ht->resize_mutex), "ht.rmutex");
	if (ht->split_count)
		vrt_name(ht->split_count, (split_count_mask + 1) * sizeof(struct ht_items_count), "split");
	vrt_raw("CFG cpus=%ld", nr_cpus_mask + 1);	/* partition_resize_helper: min(cpus, len >> MIN_PARTITION_PER_THREAD_ORDER) threads */
	vrt_log("NEW %lu", ht->size);
	if (pre_script) { prefill = 0; run_script(pre_script); }
	for (i = 0; i < prefill; i++) {
		wflavor.read_lock();
		if (i % 2) op_add_unique(vrt_rand() % nkeys); else op_add_unique(nkeys - 1 - i % nkeys);
		wflavor.read_unlock();
	}
	solo_tid_idx = solo_mode ? nthreads : 0;
	vrt_raw("#@ spawn %lu", vrt_steps());		/* sweep window of the check: global steps between these two marks */
	for (i = 1; i <= nthreads; i++)
		tids[nt++] = vrt_spawn("worker", worker, (void *)(long)i);
	if (nresize)
		tids[nt++] = vrt_spawn("resizer", resizer, NULL);
	for (i = 0; i < nt; i++)
		vrt_join(tids[i]);
	vrt_raw("#@ joined %lu", vrt_steps());
	hist_closed = 1;
	final_checks();
	vrt_log("CALL destroy");
	ret = cds_lfht_destroy(ht, NULL);
	if (ret)
		vrt_fail("owner", "cds_lfht_destroy of the emptied table returned %d", ret);
	cds_lfht_exit();	/* flush + stop the lazy-resize worker (the library destructor does the same) */
	wflavor.unregister_thread();
	lin_check();
	vrt_finish();
	return vrt_failed ? 3 : 0;
}
#endif
