/*
 * C01/C02/C15 tie for src/urcu-qsbr.c (QSBR flavor).  Same structure as gp.c.
 * Implicit read-side sections: from the return of register/online/quiescent_state to the next
 * call of quiescent_state/offline/unregister/synchronize_rcu (an online caller goes offline).
 */
#include "vrt_shim.h"
#include "urcu-qsbr.c"

#define MAXR 8
#define MAXU 4
static int nreaders = 2, nupdaters = 1, rops = 30, uops = 3, park, oneshot, churn = 1, selfsync = 1;
static volatile long X[MAXU], Y[MAXU];
static long in_cs_since[MAXR + MAXU + 2];
static long minX[MAXR + MAXU + 2][MAXU], maxY[MAXR + MAXU + 2][MAXU];
static long lclock = 1;

static void cs_begin(int r) { int u; in_cs_since[r] = lclock++; for (u = 0; u < MAXU; u++) { minX[r][u] = -1; maxY[r][u] = -1; } }
static void cs_end(int r) { in_cs_since[r] = 0; }

static void data_load(int r, int u, int which)
{
	long v;
	vrt_point();
	if (which == 0) { v = X[u]; vrt_log("DLD X%d %ld", u, v); if (minX[r][u] < 0 || v < minX[r][u]) minX[r][u] = v; }
	else { v = Y[u]; vrt_log("DLD Y%d %ld", u, v); if (v > maxY[r][u]) maxY[r][u] = v; }
	if (minX[r][u] >= 0 && maxY[r][u] > minX[r][u])
		vrt_fail("litmus", "reader %d: one section read X%d=%ld and Y%d=%ld", r, u, minX[r][u], u, maxY[r][u]);
}

static void do_sync(int self, int u, int k)
{
	long call_time;
	int r;
	if (!self) {
		vrt_point();
		X[u] = k;
		vrt_log("DST X%d %d", u, k);
	}
	if (self && in_cs_since[self]) cs_end(self);	/* an online caller's section ends: it goes offline */
	call_time = lclock++;
	vrt_log("CALL sync");
	synchronize_rcu();
	vrt_log("RET sync");
	for (r = 1; r <= nreaders + nupdaters; r++)
		if (r != self && in_cs_since[r] && in_cs_since[r] < call_time)
			vrt_fail("gp", "synchronize_rcu() of updater %d (call at %ld) returned while reader %d is still in a section begun at %ld",
				 u, call_time, r, in_cs_since[r]);
	if (self && rcu_read_ongoing()) cs_begin(self);
	if (!self) {
		/* only the dedicated updaters write the litmus variables (one writer per pair) */
		vrt_point();
		Y[u] = k;
		vrt_log("DST Y%d %d", u, k);
	}
}

static void *reader(void *arg)
{
	int r = (int)(long)arg, i, registered = 0, online = 0, k = 0;
	vrt_name(&URCU_TLS(urcu_qsbr_reader).ctr, sizeof(unsigned long), "reader%d.ctr", vrt_self());
	vrt_name(&URCU_TLS(urcu_qsbr_reader).waiting, sizeof(int), "reader%d.waiting", vrt_self());
	vrt_log("READER %d", r);
	if (oneshot) {
		vrt_log("CALL register"); rcu_register_thread(); vrt_log("RET register");
		registered = online = 1; cs_begin(r);
		{
			unsigned long target = RCU_QS_ACTIVE_ATTEMPTS - 3 + vrt_rand() % 5;
			if (oneshot == 2) { vrt_sleep(1000000); target = 0; }
			if (vrt_rand() % 4 == 0) target += 40;
			while (vrt_total_relax() < target && vrt_steps() < 20000)
				vrt_sleep(1 + vrt_rand() % 3);
		}
		rops = 0;
	}
	for (i = 0; i < rops; i++) {
		unsigned c = vrt_rand() % 100;
		if (!registered) {
			vrt_log("CALL register"); rcu_register_thread(); vrt_log("RET register");
			registered = online = 1; cs_begin(r);
			continue;
		}
		if (churn && c < 5) {
			if (online) cs_end(r);
			vrt_log("CALL unregister"); rcu_unregister_thread(); vrt_log("RET unregister");
			registered = online = 0;
		} else if (online && c < 35) {
			cs_end(r);
			vrt_log("CALL qs"); rcu_quiescent_state(); vrt_log("RET qs");
			cs_begin(r);
		} else if (online && c < 45) {
			cs_end(r);
			vrt_log("CALL offline"); rcu_thread_offline(); vrt_log("RET offline");
			online = 0;
		} else if (!online && c < 60) {
			vrt_log("CALL online"); rcu_thread_online(); vrt_log("RET online");
			online = 1; cs_begin(r);
		} else if (online && park && c < 52) {
			vrt_sleep(300 + vrt_rand() % 1500);
		} else if (online && selfsync && c < 56) {
			do_sync(r, 0, 1000 * r + (++k));
		} else if (online) {
			int u = vrt_rand() % nupdaters;
			if (vrt_rand() & 1) { data_load(r, u, 1); data_load(r, u, 0); } else { data_load(r, u, 0); data_load(r, u, 1); }
		} else {
			vrt_point();
		}
	}
	if (registered) {
		if (online) cs_end(r);
		vrt_log("CALL unregister"); rcu_unregister_thread(); vrt_log("RET unregister");
	}
	return NULL;
}

static void *updater(void *arg)
{
	int u = (int)(long)arg, k;
	vrt_name(&URCU_TLS(urcu_qsbr_reader).ctr, sizeof(unsigned long), "reader%d.ctr", vrt_self());
	vrt_name(&URCU_TLS(urcu_qsbr_reader).waiting, sizeof(int), "reader%d.waiting", vrt_self());
	for (k = 1; k <= uops; k++)
		do_sync(0, u, k);
	return NULL;
}

int main(int argc, char **argv)
{
	int i;
	argc = vrt_init(argc, argv);
	for (i = 1; i < argc; i++) {
		if (!strcmp(argv[i], "--readers") && i + 1 < argc) nreaders = atoi(argv[++i]);
		else if (!strcmp(argv[i], "--updaters") && i + 1 < argc) nupdaters = atoi(argv[++i]);
		else if (!strcmp(argv[i], "--rops") && i + 1 < argc) rops = atoi(argv[++i]);
		else if (!strcmp(argv[i], "--uops") && i + 1 < argc) uops = atoi(argv[++i]);
		else if (!strcmp(argv[i], "--nochurn")) churn = 0;
		else if (!strcmp(argv[i], "--park")) park = 1;
		else if (!strcmp(argv[i], "--oneshot")) oneshot = 1;
		else if (!strcmp(argv[i], "--oneshot-sweep")) oneshot = 2;
		else if (!strcmp(argv[i], "--noselfsync")) selfsync = 0;
	}
	if (nreaders > MAXR) nreaders = MAXR;
	if (nupdaters > MAXU) nupdaters = MAXU;
	if (oneshot) selfsync = 0;
	vrt_name(&rcu_gp.ctr, sizeof(rcu_gp.ctr), "gp.ctr");
	vrt_name(&rcu_gp.futex, sizeof(rcu_gp.futex), "gp.futex");
	vrt_name(&rcu_gp_lock, sizeof(rcu_gp_lock), "gp_lock");
	vrt_name(&rcu_registry_lock, sizeof(rcu_registry_lock), "registry_lock");
	vrt_name(&gp_waiters.stack.head, sizeof(void *), "waiters.head");
	vrt_raw("CFG flavor=qsbr membarrier=0 readers=%d updaters=%d", nreaders, nupdaters);
	for (i = 1; i <= nreaders; i++)
		vrt_spawn("reader", reader, (void *)(long)i);
	for (i = 0; i < nupdaters; i++)
		vrt_spawn("updater", updater, (void *)(long)i);
	vrt_finish();
	return vrt_failed ? 3 : 0;
}
