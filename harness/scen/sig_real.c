/*
 * C19, supporting exploration (not a tie): REAL asynchronous signals at instruction granularity.
 *
 * The cooperative harness (gp.c --sig) delivers synthetic signals at shim points only.  Here the real, unshimmed flavor source
 * is compiled in (-DRCU_MEMBARRIER | -DRCU_MB | bp) and SIGUSR1 is sent with pthread_kill() at random instants to threads that
 * are inside rcu_read_lock() / rcu_read_unlock() / synchronize_rcu(): the handler runs a complete nested read-side section.
 * Oracles: (balance) the reader word is unchanged by the handler, rcu_read_ongoing() likewise; (gp) an object unpublished before
 * synchronize_rcu() and poisoned after it is never seen poisoned inside a section - neither by the handler's section nor by the
 * interrupted one; (progress) every synchronize_rcu() returns (watchdog).
 * usage: sig_real <seconds> <seed>      exit 0 ok / 3 oracle
 */
#define _GNU_SOURCE
#include <pthread.h>
#include <signal.h>
#include <stdio.h>
#include <stdlib.h>
#include <string.h>
#include <unistd.h>
#include <time.h>
#include <stdint.h>
#if defined(FLAVOR_BP)
#include "urcu-bp.c"
#define READER_CTR() (URCU_TLS(urcu_bp_reader) ? URCU_TLS(urcu_bp_reader)->ctr : 0UL)
#define NESTMASK URCU_BP_GP_CTR_NEST_MASK
#else
#include "urcu.c"
#define READER_CTR() (URCU_TLS(rcu_reader).ctr)
#define NESTMASK URCU_GP_CTR_NEST_MASK
#endif

struct obj { volatile long magic; };
#define GOOD 0x600dL
#define BAD  0xdeadL
static struct obj *volatile gptr;
static volatile int stop;
static volatile long fails, handlers, handlers_in_cs, handlers_in_sync, gps;
static __thread volatile int in_sync, my_depth;

static void fail(const char *what)
{
	if (__atomic_fetch_add(&fails, 1, __ATOMIC_SEQ_CST) < 5) {
		char b[200];
		int n = snprintf(b, sizeof b, "ORACLE %s\n", what);
		(void) !write(2, b, n);
	}
}

static void handler(int sig)
{
	unsigned long before = READER_CTR(), after;
	int ongoing = rcu_read_ongoing(), k, n = 1 + (int) (before >> 7) % 2;
	struct obj *o;
	(void) sig;
	__atomic_fetch_add(&handlers, 1, __ATOMIC_RELAXED);
	if (my_depth) __atomic_fetch_add(&handlers_in_cs, 1, __ATOMIC_RELAXED);
	if (in_sync) __atomic_fetch_add(&handlers_in_sync, 1, __ATOMIC_RELAXED);
	for (k = 0; k < n; k++) rcu_read_lock();
	o = rcu_dereference(gptr);
	if (o && o->magic != GOOD) fail("gp: a signal handler's section saw an object poisoned after a grace period");
	for (k = 0; k < n; k++) rcu_read_unlock();
	after = READER_CTR();
	/* nesting restored; inside a section (nesting > 0) the whole word, i.e. also the phase snapshot, is unchanged */
	if ((before & NESTMASK) != (after & NESTMASK) || ((before & NESTMASK) && before != after)) fail("balance: handler changed the reader word");
	if (!!ongoing != !!rcu_read_ongoing()) fail("balance: rcu_read_ongoing() changed across the handler");
}

static void *reader(void *arg)
{
	uint64_t s = (uintptr_t) arg * 0x9E3779B97F4A7C15ULL + 1;
#if !defined(FLAVOR_BP)
	rcu_register_thread();
#endif
	while (!stop) {
		int d, k;
		struct obj *o;
		s ^= s << 13; s ^= s >> 7; s ^= s << 17;
		d = 1 + (int) (s % 3);
		for (k = 0; k < d; k++) { rcu_read_lock(); my_depth++; }
		o = rcu_dereference(gptr);
		if (o && o->magic != GOOD) fail("gp: an interrupted section saw an object poisoned after a grace period");
		for (k = 0; k < (int) (s >> 8) % 50; k++) __asm__ __volatile__("" ::: "memory");
		if (o && o->magic != GOOD) fail("gp: an interrupted section saw an object poisoned after a grace period (late)");
		for (k = 0; k < d; k++) { my_depth--; rcu_read_unlock(); }
	}
#if !defined(FLAVOR_BP)
	rcu_unregister_thread();
#endif
	return NULL;
}

static void *updater(void *arg)
{
	(void) arg;
#if !defined(FLAVOR_BP)
	rcu_register_thread();	/* the handler needs a registered thread; it may interrupt synchronize_rcu() itself */
#endif
	while (!stop) {
		struct obj *n = malloc(sizeof *n), *old;
		n->magic = GOOD;
		old = rcu_xchg_pointer(&gptr, n);
		in_sync = 1;
		synchronize_rcu();
		in_sync = 0;
		__atomic_fetch_add(&gps, 1, __ATOMIC_RELAXED);
		if (old) { old->magic = BAD; /* kept allocated (poison stays readable) for a while */ free(old); }
	}
#if !defined(FLAVOR_BP)
	rcu_unregister_thread();
#endif
	return NULL;
}

int main(int argc, char **argv)
{
	int secs = argc > 1 ? atoi(argv[1]) : 2, i;
	uint64_t s = (argc > 2 ? strtoull(argv[2], 0, 0) : 1) * 0x9E3779B97F4A7C15ULL + 7;
	pthread_t th[6];
	struct sigaction sa;
	struct timespec t0, t;
	long last_gps = 0, stall = 0;
	memset(&sa, 0, sizeof sa);
	sa.sa_handler = handler;	/* no SA_RESTART: futex waits see EINTR */
	sigemptyset(&sa.sa_mask);
	sigaction(SIGUSR1, &sa, NULL);
	for (i = 0; i < 4; i++) pthread_create(&th[i], NULL, reader, (void *) (uintptr_t) (i + 1));
	for (i = 4; i < 6; i++) pthread_create(&th[i], NULL, updater, NULL);
	clock_gettime(CLOCK_MONOTONIC, &t0);
	for (;;) {
		s ^= s << 13; s ^= s >> 7; s ^= s << 17;
		pthread_kill(th[s % 6], SIGUSR1);
		for (i = 0; i < (int) ((s >> 16) % 400); i++) __asm__ __volatile__("" ::: "memory");
		if ((s & 1023) == 0) {
			clock_gettime(CLOCK_MONOTONIC, &t);
			if (t.tv_sec - t0.tv_sec >= secs) break;
			if (gps == last_gps) { if (++stall > 2000000) { fail("progress: synchronize_rcu() makes no progress under signals"); break; } }
			else { last_gps = gps; stall = 0; }
		}
	}
	stop = 1;
	for (i = 0; i < 6; i++) {
		struct timespec ts; clock_gettime(CLOCK_REALTIME, &ts); ts.tv_sec += 90;
		if (pthread_timedjoin_np(th[i], NULL, &ts)) { fail("progress: a thread did not finish (hung under signals)"); break; }
	}
	printf("sig_real handlers=%ld in_section=%ld in_synchronize_rcu=%ld grace_periods=%ld fails=%ld\n",
	       handlers, handlers_in_cs, handlers_in_sync, gps, fails);
	return fails ? 3 : 0;
}
