/*
 * Tie for src/workqueue.c (+ src/workqueue.h, the wait-free queue of include/urcu/static/wfcqueue.h, and
 * compat_futex.c through harness/rt/vrt_compat_futex.c): the internal work queue that runs the hash table's lazy
 * resize / destroy work (C09) and is paused / resumed / re-created around fork() (C16).
 *
 * The REAL source is compiled below under the macro shim: every uatomic_*, barrier, futex, poll,
 * pthread_create/join of the unmodified text is an event + scheduling point; the worker thread created by the library
 * is a cooperative thread of the deterministic runtime.
 *
 * build: gcc wq.c vrt.c vrt_compat_futex.c compat_arch.c
 * run:   wq --seed N [--queuers Q] [--ops N] [--rt] [--requeue PCT] [--pausers P] [--child 1|2] [--noflush] [--oneshot K]
 *           + runtime options (--pswitch, --strategy pct|sweep, --preempt-at/-tid/-len, --faults spur=,eintr=,enosys=)
 *
 * Threads: T0 = main (creates the work queue, later flushes and destroys it), T1 = the worker (`workqueue_thread`),
 * then Q queuing threads (queue_work with works that re-queue works from the worker thread, flush_queued_work, the
 * split completion API with other calls in between) and at most one pausing thread (pause_worker / resume_worker cycles; one at a time is the API contract).
 * --child 1|2: at the end main pauses the worker, (1: another thread queues works meanwhile,) "forks" (the paused worker
 * thread is frozen for ever: it does not exist in the child; main is the child's only thread), calls
 * urcu_workqueue_create_worker, (2: lets the new worker start first,) queues more, flushes, observes the futex, destroys.  --noflush: destroy without a flush while works may still be queued.
 *
 * Independent oracles (implementation side, plain C, no model):
 *   once:    every work handed to urcu_workqueue_queue_work has run exactly once when the scenario ends (or, with
 *            --noflush, is still in the queue at the assertion of urcu_workqueue_destroy); never twice at any time;
 *   order:   a work whose queue_work() call began after another one's had returned is not started before it;
 *            works queued by one thread run in that thread's order;
 *   flush:   when flush_queued_work() / wait_completion() returns, every work whose queue_work() had returned before the
 *            flush / queue_completion call has finished;
 *   pause:   between the return of pause_worker() and the call of resume_worker() (or create_worker in the child) no
 *            work starts or finishes, PAUSED is set, and – when no enqueue is in flight – every unfinished work is in
 *            the public queue (nothing in the worker's hands);
 *   resume:  when resume_worker() returns PAUSE and PAUSED are clear;
 *   drain:   after destroy every work has run or was still in the public queue (nothing lost in the worker's hands);
 *   uaf:     nothing writes to a completion object after its last urcu_ref_put (poison check);
 *   assert:  no urcu_posix_assert of workqueue.c / wfcqueue fails (except destroy's emptiness assertion under --noflush);
 *   deadlock / budget: from the runtime (a lost wake-up leaves a flush or the join of destroy blocked for ever).
 */
#include "vrt_shim.h"
#include <stdbool.h>
#include <limits.h>
#include <urcu/assert.h>

/* ---- scenario-side interposition (this TU only; /repo untouched) ------------------------------ */
static void *scn_malloc(size_t n);
static void *scn_calloc(size_t a, size_t b);
static void scn_free(void *p);
static int scn_pthread_create(pthread_t *t, const pthread_attr_t *a, void *(*fn)(void *), void *arg);
static int scn_pthread_join(pthread_t t, void **ret);
static void scn_assert(int ok, const char *what, int line);
#define malloc(n)			scn_malloc(n)
#define calloc(a, b)			scn_calloc(a, b)
#define free(p)				scn_free(p)
#define sched_setaffinity(p, n, m)	0
#undef pthread_create
#define pthread_create(t, a, f, g)	scn_pthread_create(t, a, f, g)
#undef pthread_join
#define pthread_join(t, r)		scn_pthread_join(t, r)
/* assertions of the library are observed, not fatal (the --noflush scenario violates destroy's precondition on purpose) */
#undef urcu_posix_assert
#define urcu_posix_assert(c)		scn_assert(!!(c), #c, __LINE__)

#include "workqueue.c"

#undef malloc
#undef calloc
#undef free

#define MAXW 4096
#define MAXQ 8

struct uwork {
	struct urcu_work work;
	int id;
	int requeue;		/* number of further generations this work re-queues from the worker thread */
	int by;			/* queuing thread */
	long call_time, ret_time;
	long start_time;
	int started, finished, left;
	unsigned long magic;
};

static struct urcu_workqueue *wq;
static int wq_freed;
static struct uwork *works[MAXW];
static int nworks;
static long lclock = 1;
static int nqueuers = 2, nops = 30, use_rt, requeuepct = 25, npausers, do_child, noflush, oneshot;
static int pause_held;			/* between pause_worker() return and resume_worker() / create_worker() call */
static int in_queue_work;		/* threads inside urcu_workqueue_queue_work */
static int destroy_noflush_now;
static int n_assert_fail, n_destroy_assert_fail;
static int worker_tid = -1, old_worker_tid = -1;
static int last_started_of[VRT_MAXT];	/* per queuing thread: id of its last work that was started (order oracle) */
static int ncompl, ncwork, nflush, npause;
struct compl_rec { void *p; int freed; };
static struct compl_rec compls[1024];

static void name_wq(struct urcu_workqueue *w)
{
	vrt_name(&w->cbs_tail.p, sizeof(w->cbs_tail.p), "wq.tail");
	vrt_name(&w->cbs_head.node, sizeof(w->cbs_head.node), "wq.head");
	vrt_name(&w->flags, sizeof(w->flags), "wq.flags");
	vrt_name(&w->futex, sizeof(w->futex), "wq.futex");
	vrt_name(&w->qlen, sizeof(w->qlen), "wq.qlen");
}

static void *scn_malloc(size_t n)
{
	void *p = malloc(n);
	if (!p)
		abort();
	if (n == sizeof(struct urcu_workqueue)) {
		name_wq(p);
		vrt_log("ALLOC wq");
	}
	return p;
}

static void *scn_calloc(size_t a, size_t b)
{
	void *p = calloc(a, b);
	if (!p)
		abort();
	if (a == 1 && b == sizeof(struct urcu_workqueue_completion)) {
		struct urcu_workqueue_completion *c = p;
		int k = ++ncompl;
		if (k >= 1024) { fprintf(stderr, "wq: too many completions\n"); _exit(9); }
		compls[k].p = p;
		vrt_name(&c->barrier_count, sizeof(c->barrier_count), "compl%d.count", k);
		vrt_name(&c->futex, sizeof(c->futex), "compl%d.futex", k);
		vrt_name(&c->ref, sizeof(c->ref), "compl%d.ref", k);
		vrt_log("ALLOC compl%d", k);
	} else if (a == 1 && b == sizeof(struct urcu_workqueue_completion_work)) {
		struct urcu_workqueue_completion_work *w = p;
		int k = ++ncwork;
		vrt_name(&w->work, sizeof(w->work), "cwork%d", k);
		vrt_log("ALLOC cwork%d", k);
	}
	return p;
}

static int queue_count(struct urcu_workqueue *w, int mark);

/* objects of the library are never recycled during a run: they are poisoned instead, so that any later write is
 * detected and names stay unique */
static void scn_free(void *p)
{
	int i;
	if (!p)
		return;
	if (p == (void *)wq) {
		if (wq_freed)
			vrt_fail("uaf", "work queue freed twice");
		wq_freed = 1;
		/* what is still in the public queue at this point is lost, but not in the worker's hands */
		vrt_log("FREE wq left=%d", queue_count(wq, 1));
		return;
	}
	for (i = 1; i <= ncompl; i++)
		if (compls[i].p == p) {
			if (compls[i].freed)
				vrt_fail("uaf", "completion compl%d freed twice", i);
			compls[i].freed = 1;
			vrt_log("FREE compl%d", i);
			memset(p, 0x5a, sizeof(struct urcu_workqueue_completion));
			return;
		}
	if (vrt_is_named(p)) {
		const char *nm = vrt_loc(p);
		if (!strncmp(nm, "cwork", 5)) {
			vrt_log("FREE %s", nm);
			memset(p, 0x5a, sizeof(struct urcu_workqueue_completion_work));
			return;
		}
	}
	free(p);
}

static void poison_check(void)
{
	int i;
	size_t k;
	for (i = 1; i <= ncompl; i++)
		if (compls[i].freed)
			for (k = 0; k < sizeof(struct urcu_workqueue_completion); k++)
				if (((unsigned char *)compls[i].p)[k] != 0x5a) {
					vrt_fail("uaf", "completion compl%d written after its last urcu_ref_put (offset %zu)", i, k);
					break;
				}
}

static void scn_assert(int ok, const char *what, int line)
{
	int destroy_empty = strstr(what, "cds_wfcq_empty") != NULL;
	(void)line;
	if (destroy_empty)
		vrt_log("ASSERT destroy_empty %d", ok);
	if (ok)
		return;
	if (destroy_empty && destroy_noflush_now) {
		n_destroy_assert_fail++;
		return;
	}
	n_assert_fail++;
	vrt_fail("assert", "urcu_posix_assert(%s) failed", what);
}

static struct { pthread_t pt; int tid; } spawned[VRT_MAXT];
static int nspawned;

static int scn_pthread_create(pthread_t *t, const pthread_attr_t *a, void *(*fn)(void *), void *arg)
{
	int r;
	if (!vrt_active)
		return (pthread_create)(t, a, fn, arg);
	r = vrt_pthread_create(t, a, fn, arg);
	if (!r && nspawned < VRT_MAXT) {
		spawned[nspawned].pt = *t;
		spawned[nspawned].tid = vrt_nthreads() - 1;
		old_worker_tid = worker_tid;
		worker_tid = spawned[nspawned].tid;
		nspawned++;
	}
	return r;
}

static int scn_pthread_join(pthread_t t, void **ret)
{
	int i;
	if (!vrt_active)
		return (pthread_join)(t, ret);
	for (i = nspawned - 1; i >= 0; i--)
		if (pthread_equal(spawned[i].pt, t)) {
			vrt_point();
			vrt_log("JOIN T%d", spawned[i].tid);
			vrt_join(spawned[i].tid);
			if (ret)
				*ret = NULL;
			return 0;
		}
	return (pthread_join)(t, ret);
}

/* ---- inspection of the public queue (plain reads, no scheduling point: atomic w.r.t. the cooperative runtime) ---- */
static int queue_count(struct urcu_workqueue *w, int mark)
{
	struct cds_wfcq_node *n = w->cbs_head.node.next;
	int k = 0;
	while (n) {
		struct uwork *u = caa_container_of(n, struct uwork, work.next);
		k++;
		if (mark && vrt_is_named(n) && !strncmp(vrt_loc(n), "w", 1) && strncmp(vrt_loc(n), "wq", 2))
			u->left = 1;
		if (n == w->cbs_tail.p)
			break;
		n = n->next;
	}
	return k;
}

/* 1 iff the chain from the head reaches the tail: no enqueue (of a user work or of a flush/completion work item,
 * which this scenario does not count in in_queue_work) is between its xchg of the tail and its store of the link.
 * While one is, nodes behind the gap are in the public queue but not reachable from the head, and nothing can be
 * concluded from a walk. */
static int queue_chain_complete(struct urcu_workqueue *w)
{
	struct cds_wfcq_node *n = &w->cbs_head.node;
	while (n != w->cbs_tail.p) {
		n = n->next;
		if (!n)
			return 0;
	}
	return 1;
}

static int unfinished_user_works(void)
{
	int i, k = 0;
	for (i = 1; i <= nworks; i++)
		if (works[i]->call_time && !works[i]->finished)
			k++;
	return k;
}

/* ---- works ----------------------------------------------------------------------------------------- */
static void user_work(struct urcu_work *w);

static void do_queue(int requeue)
{
	struct uwork *u;
	int id;
	if (nworks >= MAXW - 1)
		return;
	u = malloc(sizeof(*u));
	memset(u, 0, sizeof(*u));
	id = ++nworks;
	works[id] = u;
	u->id = id;
	u->requeue = requeue;
	u->by = vrt_self();
	u->magic = 0xC0FFEE00UL + id;
	vrt_name(&u->work, sizeof(u->work), "w%d", id);
	u->call_time = lclock++;
	vrt_log("CALL queue_work %d", id);
	in_queue_work++;
	urcu_workqueue_queue_work(wq, &u->work, user_work);
	in_queue_work--;
	vrt_log("RET queue_work");
	u->ret_time = lclock++;
}

static void user_work(struct urcu_work *w)
{
	struct uwork *u = caa_container_of(w, struct uwork, work);
	int i;
	if (u->id < 1 || u->id > nworks || works[u->id] != u || u->magic != 0xC0FFEE00UL + u->id) {
		vrt_fail("once", "work function invoked with a urcu_work that was never queued (%p)", (void *)w);
		vrt_log("RUN 0");
		vrt_log("RAN 0");
		return;
	}
	vrt_log("RUN %d", u->id);
	if (u->started++)
		vrt_fail("once", "work %d run %d times", u->id, u->started);
	u->start_time = lclock++;
	if (pause_held)
		vrt_fail("pause", "work %d started while the worker is paused (pause_worker() has returned, resume not called)", u->id);
	if (vrt_self() != worker_tid)
		vrt_fail("once", "work %d runs on T%d, which is not the worker thread T%d", u->id, vrt_self(), worker_tid);
	/* order: everything whose queue_work() had returned before this one's call must have been started */
	for (i = 1; i <= nworks; i++)
		if (works[i]->ret_time && works[i]->ret_time < u->call_time && !works[i]->started)
			vrt_fail("order", "work %d (queued at %ld) starts before work %d (its queue_work returned at %ld)",
				 u->id, u->call_time, i, works[i]->ret_time);
	if (last_started_of[u->by] > u->id)
		vrt_fail("order", "work %d starts after work %d queued later by the same thread T%d", u->id, last_started_of[u->by], u->by);
	last_started_of[u->by] = u->id;
	if (u->requeue > 0)
		do_queue(u->requeue - 1);
	else if (vrt_rand() % 4 == 0)
		vrt_sleep(1 + vrt_rand() % 30);
	if (pause_held)
		vrt_fail("pause", "work %d finishes while the worker is paused", u->id);
	u->finished = 1;
	vrt_log("RAN %d", u->id);
}

static void check_flush(long t0, int n, const char *what)
{
	int i;
	for (i = 1; i <= n; i++)
		if (works[i]->ret_time && works[i]->ret_time < t0 && !works[i]->finished)
			vrt_fail("flush", "%s (called at %ld) returned while work %d (queue_work returned at %ld) has not %s",
				 what, t0, i, works[i]->ret_time, works[i]->started ? "finished" : "been started");
}

static void do_flush(void)
{
	long t0 = lclock++;
	int n = nworks;
	nflush++;
	vrt_log("CALL flush");
	urcu_workqueue_flush_queued_work(wq);
	vrt_log("RET flush");
	check_flush(t0, n, "flush_queued_work()");
}

/* the four calls flush is made of, with other calls of the same thread in between */
static void do_split_flush(void)
{
	struct urcu_workqueue_completion *c;
	long t0;
	int n;
	nflush++;
	vrt_log("CALL create_completion");
	c = urcu_workqueue_create_completion();
	vrt_log("RET create_completion");
	if (vrt_rand() % 2)
		do_queue(0);
	t0 = lclock++;
	n = nworks;
	vrt_log("CALL queue_completion");
	urcu_workqueue_queue_completion(wq, c);
	vrt_log("RET queue_completion");
	if (vrt_rand() % 2)
		do_queue((int)(vrt_rand() % 2));
	if (vrt_rand() % 3 == 0)
		vrt_sleep(1 + vrt_rand() % 40);
	vrt_log("CALL wait_completion");
	urcu_workqueue_wait_completion(c);
	vrt_log("RET wait_completion");
	check_flush(t0, n, "wait_completion()");
	if (vrt_rand() % 2)
		do_queue(0);
	vrt_log("CALL destroy_completion");
	urcu_workqueue_destroy_completion(c);
	vrt_log("RET destroy_completion");
}

static void check_quiescent(const char *when)
{
	unsigned long fl = wq->flags;
	if (!(fl & URCU_WORKQUEUE_PAUSED))
		vrt_fail("pause", "%s: PAUSED is not set (flags=%lu)", when, fl);
	if (!in_queue_work && queue_chain_complete(wq)) {
		int q = queue_count(wq, 0), u = unfinished_user_works();
		/* completion work items of flushes in progress are in the queue too: q >= u always; what must not
		 * happen is an unfinished work that is NOT in the public queue */
		int i, missing = 0;
		struct cds_wfcq_node *n;
		for (i = 1; i <= nworks; i++) {
			int found = 0;
			if (!works[i]->call_time || !works[i]->ret_time || works[i]->finished)
				continue;
			for (n = wq->cbs_head.node.next; n; n = (n == wq->cbs_tail.p) ? NULL : n->next)
				if (n == &works[i]->work.next) { found = 1; break; }
			if (!found) {
				missing++;
				vrt_fail("pause", "%s: unfinished work %d is not in the public queue: the paused worker has it in hand (queue=%d unfinished=%d)",
					 when, i, q, u);
				break;
			}
		}
		(void)missing;
	}
}

static void do_pause(void)
{
	npause++;
	vrt_log("CALL pause");
	urcu_workqueue_pause_worker(wq);
	pause_held = 1;
	vrt_log("RET pause");
	check_quiescent("pause_worker() returned");
}

static void do_resume(void)
{
	unsigned long fl;
	check_quiescent("before resume_worker()");
	vrt_log("CALL resume");
	pause_held = 0;
	urcu_workqueue_resume_worker(wq);
	vrt_log("RET resume");
	fl = wq->flags;
	if (fl & (URCU_WORKQUEUE_PAUSE | URCU_WORKQUEUE_PAUSED))
		vrt_fail("resume", "resume_worker() returned with flags=%lu (PAUSE / PAUSED still set)", fl);
}

/* ---- threads ------------------------------------------------------------------------------------ */
static int queuers_done;

static void *queuer(void *arg)
{
	int i;
	(void)arg;
	vrt_log("QUEUER");
	for (i = 0; i < nops; i++) {
		unsigned c = vrt_rand() % 100;
		if (c < 55) {
			int rq = (int)(vrt_rand() % 100) < requeuepct ? 1 + (int)(vrt_rand() % 2) : 0;
			do_queue(rq);
		} else if (c < 68) {
			do_flush();
		} else if (c < 78) {
			do_split_flush();
		} else {
			vrt_sleep(1 + vrt_rand() % 60);
		}
	}
	queuers_done++;
	return NULL;
}

/* child scenario: queues works while the main thread holds the pause (they stay queued across the fork) */
static void *late_queuer(void *arg)
{
	(void)arg;
	vrt_log("QUEUER");
	do_queue(1);
	do_queue(0);
	return NULL;
}

static void *pauser(void *arg)
{
	int i;
	(void)arg;
	vrt_log("PAUSER");
	for (i = 0; i < 3 && queuers_done < nqueuers; i++) {
		vrt_sleep(20 + vrt_rand() % 300);
		do_pause();
		vrt_sleep(5 + vrt_rand() % 120);	/* others queue works meanwhile: nothing may start */
		do_resume();
	}
	return NULL;
}

/* --oneshot K: minimal scenarios for the systematic one-preemption sweep (strategy sweep: non-preemptive base schedule
 * + ONE forced preemption).  T0 = main, T1 = the worker, T2 = this thread.
 *   1: the worker is asleep when the single queue_work() arrives (T2 parked first; force T2 inside the worker's
 *      dec / empty-check / FUTEX_WAIT window);
 *   2: the queue_work() runs before the worker's first step (force T1 inside T2's enqueue / wake window);
 *   3: as 2, followed by flush_queued_work() at once (force T1 inside the waiter's dec / count test / FUTEX_WAIT window);
 *   4: as 1 with a re-queueing work;
 *   5: pause / resume twice, then a queue_work (force T1 inside the pause / resume handshakes).
 * A lost wake-up leaves the final flush (or the join of destroy) blocked for ever = DEADLOCK of the runtime. */
static void *oneshot_thread(void *arg)
{
	(void)arg;
	vrt_log("QUEUER");
	if (oneshot == 1 || oneshot == 4)
		vrt_sleep(1000000);
	do_queue(oneshot == 4 ? 1 : 0);
	if (oneshot == 3)
		do_flush();
	if (oneshot == 5) {
		do_pause();
		do_resume();
		do_pause();
		do_resume();
		do_queue(0);
	}
	queuers_done++;
	return NULL;
}

int main(int argc, char **argv)
{
	int i, qt[MAXQ], pt[4];
	argc = vrt_init(argc, argv);
	for (i = 1; i < argc; i++) {
		if (!strcmp(argv[i], "--queuers") && i + 1 < argc) nqueuers = atoi(argv[++i]);
		else if (!strcmp(argv[i], "--ops") && i + 1 < argc) nops = atoi(argv[++i]);
		else if (!strcmp(argv[i], "--rt")) use_rt = 1;
		else if (!strcmp(argv[i], "--requeue") && i + 1 < argc) requeuepct = atoi(argv[++i]);
		else if (!strcmp(argv[i], "--pausers") && i + 1 < argc) npausers = atoi(argv[++i]);
		else if (!strcmp(argv[i], "--child") && i + 1 < argc) do_child = atoi(argv[++i]);
		else if (!strcmp(argv[i], "--noflush")) noflush = 1;
		else if (!strcmp(argv[i], "--oneshot") && i + 1 < argc) oneshot = atoi(argv[++i]);
	}
	if (nqueuers > MAXQ) nqueuers = MAXQ;
	if (nqueuers < 1) nqueuers = 1;
	if (npausers > 1) npausers = 1;	/* API contract: one pause / resume at a time */
	if (oneshot) { nqueuers = 1; npausers = 0; }
	{
		/* symbolic name for the main thread's stack */
		char here;
		uintptr_t top = ((uintptr_t)&here + 4096) & ~(uintptr_t)4095;
		vrt_name((void *)(top - (1 << 20)), 1 << 20, "stack0");
	}
	vrt_raw("CFG rt=%d queuers=%d pausers=%d child=%d noflush=%d F_RT=%u F_STOP=%u F_PAUSE=%u F_PAUSED=%u", use_rt, nqueuers,
		npausers, do_child, noflush, URCU_WORKQUEUE_RT, URCU_WORKQUEUE_STOP, URCU_WORKQUEUE_PAUSE, URCU_WORKQUEUE_PAUSED);
	vrt_log("CALL create %d", use_rt);
	wq = urcu_workqueue_create(use_rt ? URCU_WORKQUEUE_RT : 0, -1, NULL, NULL, NULL, NULL, NULL, NULL, NULL, NULL);
	vrt_log("RET create");
	for (i = 0; i < nqueuers; i++)
		qt[i] = vrt_spawn("queuer", oneshot ? oneshot_thread : queuer, (void *)(long)(i + 1));
	for (i = 0; i < npausers; i++)
		pt[i] = vrt_spawn("pauser", pauser, (void *)(long)i);
	for (i = 0; i < nqueuers; i++)
		vrt_join(qt[i]);
	for (i = 0; i < npausers; i++)
		vrt_join(pt[i]);
	vrt_log("FINAL");
	/* works re-queue works (depth <= 2): one flush per generation */
	for (i = 0; i < 3; i++)
		do_flush();
	if (do_child) {
		/* fork() by the main thread with the documented handlers: before = pause_worker; child = create_worker.
		 * In the child the paused worker thread does not exist: it is frozen for ever. */
		do_pause();
		if (do_child == 1)
			vrt_join(vrt_spawn("queuer", late_queuer, NULL));	/* works queued across the fork (their wake-up resets the futex) */
		check_quiescent("before fork");
		vrt_log("FORKSIM futex=%d", (int)wq->futex);
		vrt_freeze(worker_tid, 1);
		vrt_log("CALL create_worker");
		pause_held = 0;
		urcu_workqueue_create_worker(wq);
		vrt_log("RET create_worker");
		if (wq->flags & (URCU_WORKQUEUE_PAUSE | URCU_WORKQUEUE_PAUSED))
			vrt_fail("resume", "create_worker() left flags=%lu", wq->flags);
		if (do_child == 2)
			vrt_sleep(60);		/* the new worker runs first: its first decrement meets the inherited futex */
		do_queue(0);
		for (i = 0; i < 3; i++)
			do_flush();
		{
			/* OBSERVATION (not an oracle): does the child's idle worker sleep? */
			int f0, f1;
			vrt_sleep(400);
			f0 = (int)wq->futex;
			vrt_sleep(400);
			f1 = (int)wq->futex;
			vrt_raw("# OBS child_worker futex_before=%d futex_after=%d %s", f0, f1,
				f1 < f0 ? "SPINS (never sleeps: inherited futex was negative)" : "sleeps");
		}
	}
	if (noflush) {
		/* destroy without a flush: works may still be queued; the library's assertion is expected to see that */
		do_queue(0);
		do_queue(0);
		destroy_noflush_now = 1;
	}
	vrt_log("CALL destroy");
	urcu_workqueue_destroy(wq);
	vrt_log("RET destroy");
	for (i = 1; i <= nworks; i++) {
		struct uwork *u = works[i];
		if (!u->call_time)
			continue;
		if (u->started > 1)
			vrt_fail("once", "work %d run %d times", i, u->started);
		if (u->started == 1 && !u->finished)
			vrt_fail("once", "work %d started but never finished", i);
		if (u->started == 0 && !(noflush && u->left))
			vrt_fail(noflush ? "drain" : "once", "work %d never ran%s", i,
				 noflush ? " and was not in the public queue at destroy: lost in the worker's private list" : "");
		if (u->started && u->left)
			vrt_fail("once", "work %d ran and was still in the queue at destroy", i);
	}
	poison_check();
	vrt_raw("# SUMMARY works=%d flushes=%d pauses=%d completions=%d destroy_assert_failed=%d", nworks, nflush, npause, ncompl,
		n_destroy_assert_fail);
	if (do_child) {
		/* the parent's worker stays frozen (it does not exist in the child): end the run without joining it */
		vrt_raw("# END child failed=%d", vrt_failed);
		fflush(NULL);
		_exit(vrt_failed ? 3 : 0);
	}
	vrt_finish();
	return vrt_failed ? 3 : 0;
}
