/*
 * C14 tie: runs the REAL src/urcu-poll-impl.h (included below, unmodified) on a generated
 * operation sequence and prints one line per operation with the value the implementation
 * returned.  Driver/Poll.lean replays the same lines on the Lean model.
 *
 * The environment (call_rcu helper, grace periods, readers) is simulated here with exactly the
 * abstract guarantees the model assumes: the worker callback is invoked only after a grace period
 * that started after it was queued has completed; a grace period completes only when every
 * section open at its start has ended.
 *
 * Independent oracle (does not use the model): when poll(h) returns true every section that was
 * open when h was issued must have ended; true stays true; after draining every handle is true.
 *
 * usage: poll <seed> <nops> [base]
 */
#include <stdio.h>
#include <stdlib.h>
#include <stdint.h>
#include <string.h>
#include <stdbool.h>
#include <pthread.h>
#include <urcu/call-rcu.h>

static int lock_held;
static int atomic_viol;
static void mutex_lock(pthread_mutex_t *m) { (void)m; if (lock_held) atomic_viol++; lock_held = 1; }
static void mutex_unlock(pthread_mutex_t *m) { (void)m; if (!lock_held) atomic_viol++; lock_held = 0; }

static struct rcu_head *pending_head;
static void (*pending_func)(struct rcu_head *);
static int call_rcu_count;
static void h_call_rcu(struct rcu_head *head, void (*func)(struct rcu_head *))
{
	if (!lock_held) { printf("atomic_violation call_rcu_outside_lock\n"); }
	if (pending_head) { printf("atomic_violation double_call_rcu\n"); }
	pending_head = head;
	pending_func = func;
	call_rcu_count++;
}
#undef call_rcu
#define call_rcu h_call_rcu
#undef start_poll_synchronize_rcu
#undef poll_state_synchronize_rcu

#include "urcu-poll-impl.h"

/* ------------------------------------------------------------------------------------------ */
static uint64_t rng_s;
static uint64_t rnd(void)
{
	rng_s ^= rng_s << 13; rng_s ^= rng_s >> 7; rng_s ^= rng_s << 17;
	return rng_s;
}

#define MAXR 4
#define MAXH 4096
static int nreaders;
static long clk = 1;
static long cs_begin[MAXR];	/* 0 = not in section */
static long gp_cur;		/* start time of gp in flight, 0 = none */
static long gp_done;		/* max start of completed gps */
static long enq_time;
static unsigned long base;

struct hinfo { unsigned long id; long issue; long open_begin[MAXR]; int was_true; };
static struct hinfo H[MAXH];
static int nh;
static int oracle_fail;

static long rel(unsigned long id) { return (long)(id - base); }

static void do_start(void)
{
	int before = call_rcu_count, i;
	struct urcu_gp_poll_state st = start_poll_synchronize_rcu();
	int queued = call_rcu_count != before;
	if (queued) enq_time = clk;
	if (nh < MAXH) {
		H[nh].id = st.grace_period_id; H[nh].issue = clk; H[nh].was_true = 0;
		for (i = 0; i < nreaders; i++) H[nh].open_begin[i] = cs_begin[i];
		nh++;
	}
	printf("start %ld %d\n", rel(st.grace_period_id), queued);
	clk++;
}

static void do_poll(int k)
{
	struct urcu_gp_poll_state st;
	bool r;
	int i;
	st.grace_period_id = H[k].id;
	r = poll_state_synchronize_rcu(st);
	printf("poll %ld %d\n", rel(H[k].id), (int)r);
	if (r) {
		for (i = 0; i < nreaders; i++)
			if (H[k].open_begin[i] && cs_begin[i] == H[k].open_begin[i]) {
				fprintf(stderr, "ORACLE early: poll(handle #%d id %ld) true while reader %d section begun at %ld (before issue %ld) still open\n",
					k, rel(H[k].id), i, cs_begin[i], H[k].issue);
				oracle_fail = 1;
			}
		H[k].was_true = 1;
	} else if (H[k].was_true) {
		fprintf(stderr, "ORACLE nonmonotone: poll(handle #%d id %ld) false after true\n", k, rel(H[k].id));
		oracle_fail = 1;
	}
	clk++;
}

static int worker_enabled(void) { return pending_head && enq_time <= gp_done; }

static void do_worker(void)
{
	struct rcu_head *h = pending_head;
	void (*f)(struct rcu_head *) = pending_func;
	int before = call_rcu_count;
	pending_head = NULL;
	f(h);
	if (call_rcu_count != before) enq_time = clk;
	printf("worker %d\n", call_rcu_count != before);
	clk++;
}

static int gp_can_end(void)
{
	int i;
	if (!gp_cur) return 0;
	for (i = 0; i < nreaders; i++)
		if (cs_begin[i] && cs_begin[i] < gp_cur) return 0;
	return 1;
}

int main(int argc, char **argv)
{
	unsigned long seed = argc > 1 ? strtoul(argv[1], 0, 0) : 1;
	int nops = argc > 2 ? atoi(argv[2]) : 200, n, i;
	rng_s = seed * 0x9E3779B97F4A7C15ULL + 0x1234567;
	for (i = 0; i < 5; i++) rnd();
	/* counter base: every third seed starts just below the 2^64 wrap, another third just below 2^63 */
	if (argc > 3) base = strtoul(argv[3], 0, 0);
	else base = (seed % 3 == 0) ? (unsigned long)-(long)(1 + rnd() % 6) : (seed % 3 == 1) ? (1UL << 63) - (1 + rnd() % 6) : rnd() % 5;
	poll_worker_gp_state.current_state.grace_period_id = base;
	poll_worker_gp_state.latest_target.grace_period_id = base;
	nreaders = 1 + rnd() % MAXR;
	printf("n %d\n", nreaders);
	printf("# seed %lu base %lu\n", seed, base);
	{
	/* operation mix differs per seed so that both the idle and the active start path are common */
	static const unsigned pstart[4] = { 3, 8, 18, 1 };
	unsigned ps = pstart[(seed / 3) % 4];
	printf("# pstart %u\n", ps);
	for (n = 0; n < nops; n++) {
		unsigned r = rnd() % 100;
		if (r < ps) do_start();
		else if (r < 18) { if (nh) do_poll(rnd() % nh); }
		else if (r < 40 && nh) do_poll(rnd() % nh);
		else if (r < 55) { if (worker_enabled()) do_worker(); }
		else if (r < 67) { if (!gp_cur) { gp_cur = clk; printf("gps\n"); clk++; } }
		else if (r < 80) { if (gp_can_end()) { if (gp_cur > gp_done) gp_done = gp_cur; gp_cur = 0; printf("gpe\n"); clk++; } }
		else if (r < 90) { i = rnd() % nreaders; if (!cs_begin[i]) { cs_begin[i] = clk; printf("lock %d\n", i); clk++; } }
		else { i = rnd() % nreaders; if (cs_begin[i]) { cs_begin[i] = 0; printf("unlock %d\n", i); clk++; } }
	}
	}
	/* drain: end sections, run grace periods and the worker until nothing is pending */
	for (i = 0; i < nreaders; i++) if (cs_begin[i]) { cs_begin[i] = 0; printf("unlock %d\n", i); clk++; }
	for (n = 0; n < 8 && (pending_head || gp_cur); n++) {
		if (gp_cur) { if (gp_cur > gp_done) gp_done = gp_cur; gp_cur = 0; printf("gpe\n"); clk++; }
		if (pending_head) {
			gp_cur = clk; printf("gps\n"); clk++;
			gp_done = gp_cur; gp_cur = 0; printf("gpe\n"); clk++;
			do_worker();
		}
	}
	if (pending_head) { fprintf(stderr, "ORACLE live: worker still queued after 8 drain rounds\n"); oracle_fail = 1; }
	for (i = 0; i < nh; i++) {
		do_poll(i);
		if (!H[i].was_true) { fprintf(stderr, "ORACLE live: handle #%d id %ld never completes\n", i, rel(H[i].id)); oracle_fail = 1; }
	}
	if (atomic_viol) { printf("atomic_violation lock_discipline %d\n", atomic_viol); }
	fflush(stdout);
	return oracle_fail ? 3 : 0;
}
