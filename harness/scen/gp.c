/*
 * C01/C02/C15/C19 tie for src/urcu.c (memb with sys_membarrier, memb fallback, mb).
 * The REAL source is compiled below under the macro shim: every uatomic_*, barrier, mutex, futex,
 * membarrier, poll of the unmodified algorithm text is an event + scheduling point.
 *
 * build: gcc -DRCU_MEMBARRIER|-DRCU_MB gp.c vrt.c compat_arch.c compat_futex.c
 * run:   VRT_MEMBARRIER=0|1 gp --seed N --readers R --updaters U --rops N --uops N [--sig]
 *
 * Independent oracles (implementation side, no model):
 *   timestamp: at the return of synchronize_rcu() no reader may still be inside a section that
 *              began (rcu_read_lock returned) before the call;
 *   litmus:    each updater u does X_u := k; synchronize_rcu(); Y_u := k.  Within one outermost
 *              section every value read from Y_u must be <= every value read from X_u;
 *   balance:   a signal handler leaves the reader word exactly as it found it;
 *   deadlock / budget: from the runtime.
 */
#include "vrt_shim.h"
#include "urcu.c"

#define MAXR 8
#define MAXU 4

static int nreaders = 2, nupdaters = 1, rops = 30, uops = 3, use_sig, churn = 1, park, oneshot, parklen;

/* litmus data: plain memory, accessed only through these logged helpers */
static volatile long X[MAXU], Y[MAXU];

/* oracle bookkeeping (not part of the traced program) */
static long in_cs_since[MAXR + MAXU + 2];	/* logical time rcu_read_lock() returned for the outermost section, 0 = outside */
static long minX[MAXR + MAXU + 2][MAXU], maxY[MAXR + MAXU + 2][MAXU];
static int depth[MAXR + MAXU + 2];
static long lclock = 1;
static int reader_tid[MAXR + 1];

static void cs_reset(int r)
{
	int u;
	for (u = 0; u < MAXU; u++) { minX[r][u] = -1; maxY[r][u] = -1; }
}

static void data_load(int r, int u, int which)
{
	long v;
	vrt_point();
	if (which == 0) {
		v = X[u];
		vrt_log("DLD X%d %ld", u, v);
		if (minX[r][u] < 0 || v < minX[r][u]) minX[r][u] = v;
	} else {
		v = Y[u];
		vrt_log("DLD Y%d %ld", u, v);
		if (v > maxY[r][u]) maxY[r][u] = v;
	}
	if (minX[r][u] >= 0 && maxY[r][u] > minX[r][u])
		vrt_fail("litmus", "reader %d: one section read X%d=%ld and Y%d=%ld (store after the grace period visible, store before it not)",
			 r, u, minX[r][u], u, maxY[r][u]);
}

static void do_lock(int r)
{
	vrt_log("CALL lock");
	rcu_read_lock();
	vrt_log("RET lock");
	if (depth[r]++ == 0) {
		in_cs_since[r] = lclock++;
		cs_reset(r);
	}
}

static void do_unlock(int r)
{
	if (--depth[r] == 0)
		in_cs_since[r] = 0;	/* the section ends when rcu_read_unlock is called */
	vrt_log("CALL unlock");
	rcu_read_unlock();
	vrt_log("RET unlock");
}

/* synthetic signal handler: a complete read-side section (possibly nested) on the interrupted thread */
static __thread int my_r;
static void handler(void)
{
	unsigned long before = URCU_TLS(rcu_reader).ctr, after;
	int ongoing_before = rcu_read_ongoing(), k, n = 1 + vrt_rand() % 2;
	long saved_since = in_cs_since[my_r];
	int r = my_r;
	/* the handler's section is a section of this thread: if none is open it is outermost */
	for (k = 0; k < n; k++) {
		vrt_log("CALL lock");
		rcu_read_lock();
		vrt_log("RET lock");
	}
	if (!saved_since) { in_cs_since[r] = lclock++; }
	{
		/* handler sections are checked by the timestamp oracle only (they share litmus
		 * bookkeeping with the interrupted section otherwise) */
		vrt_point();
		vrt_log("DLD X0 %ld", (long)X[0]);
	}
	if (!saved_since) in_cs_since[r] = 0;
	for (k = 0; k < n; k++) {
		vrt_log("CALL unlock");
		rcu_read_unlock();
		vrt_log("RET unlock");
	}
	after = URCU_TLS(rcu_reader).ctr;
	if ((before & URCU_GP_CTR_NEST_MASK) != (after & URCU_GP_CTR_NEST_MASK) ||
	    ((before & URCU_GP_CTR_NEST_MASK) && before != after) || !!ongoing_before != !!rcu_read_ongoing())
		vrt_fail("sigbalance", "reader %d: handler changed the reader word %#lx -> %#lx", r, before, after);
}

static void *reader(void *arg)
{
	int r = (int)(long)arg, i, registered = 0;
	my_r = r;
	reader_tid[r] = vrt_self();
	vrt_name(&URCU_TLS(rcu_reader).ctr, sizeof(unsigned long), "reader%d.ctr", vrt_self());
	vrt_log("READER %d", r);
	if (oneshot) {
		/* one parked section, then leave for good: a lost wake-up cannot be masked by a later unlock */
		vrt_log("CALL register");
		rcu_register_thread();
		vrt_log("RET register");
		registered = 1;
		do_lock(r);
		{
			/* leave the section around the moment the updater goes from spinning to sleeping
			 * (RCU_QS_ACTIVE_ATTEMPTS spin hints), or well after it fell asleep */
			unsigned long target = RCU_QS_ACTIVE_ATTEMPTS - 3 + vrt_rand() % 5;
			if (oneshot == 2) { vrt_sleep(1000000); target = 0; }
			if (vrt_rand() % 4 == 0) target += 40;
			while (vrt_total_relax() < target && vrt_steps() < 20000)
				vrt_sleep(1 + vrt_rand() % 3);
		}
		rops = 0;
	}
	for (i = 0; i < rops; i++) {
		unsigned c = vrt_rand() % 100;
		if (!registered) {
			vrt_log("CALL register");
			rcu_register_thread();
			vrt_log("RET register");
			registered = 1;
			if (use_sig) vrt_set_sighandler(handler);
			continue;
		}
		if (depth[r] == 0 && churn && c < 6) {
			vrt_set_sighandler(NULL);
			vrt_log("CALL unregister");
			rcu_unregister_thread();
			vrt_log("RET unregister");
			registered = 0;
		} else if (c < 40 && depth[r] < 3) {
			do_lock(r);
		} else if (c < 70 && depth[r] > 0) {
			do_unlock(r);
		} else if (depth[r] > 0 && park && c < 74) {
			/* stay inside the section long enough for the updater to go from spinning to sleeping */
			/* --parklen N: long enough for merged synchronize_rcu() callers to exhaust URCU_WAIT_ATTEMPTS and sleep on
			 * their wait node as well */
			vrt_sleep(parklen ? (unsigned long)parklen + vrt_rand() % 1500 : 300 + vrt_rand() % 1500);
		} else if (depth[r] > 0) {
			int u = vrt_rand() % nupdaters;
			/* read Y then X, or X then Y */
			if (vrt_rand() & 1) { data_load(r, u, 1); data_load(r, u, 0); }
			else { data_load(r, u, 0); data_load(r, u, 1); }
		} else {
			vrt_point();
		}
	}
	while (depth[r] > 0)
		do_unlock(r);
	vrt_set_sighandler(NULL);
	if (registered) {
		vrt_log("CALL unregister");
		rcu_unregister_thread();
		vrt_log("RET unregister");
	}
	return NULL;
}

static void *updater(void *arg)
{
	int u = (int)(long)arg, k, r;
	if (use_sig) {
		/* C19: the handler may also interrupt synchronize_rcu(); it needs a registered thread */
		my_r = MAXR + 1 + u;	/* handler sections of this updater thread get their own oracle slot */
		vrt_name(&URCU_TLS(rcu_reader).ctr, sizeof(unsigned long), "reader%d.ctr", vrt_self());
		vrt_log("CALL register");
		rcu_register_thread();
		vrt_log("RET register");
		vrt_set_sighandler(handler);
	}
	for (k = 1; k <= uops; k++) {
		long call_time;
		vrt_point();
		X[u] = k;
		vrt_log("DST X%d %d", u, k);
		call_time = lclock++;
		vrt_log("CALL sync");
		synchronize_rcu();
		vrt_log("RET sync");
		for (r = 1; r <= nreaders; r++)
			if (in_cs_since[r] && in_cs_since[r] < call_time)
				vrt_fail("gp", "synchronize_rcu() of updater %d (call at %ld) returned while reader %d is still in a section begun at %ld",
					 u, call_time, r, in_cs_since[r]);
		/* sections opened by signal handlers on OTHER updater threads (e.g. while they wait inside their own synchronize_rcu()) */
		for (r = 0; r < nupdaters; r++)
			if (r != u && in_cs_since[MAXR + 1 + r] && in_cs_since[MAXR + 1 + r] < call_time)
				vrt_fail("gp", "synchronize_rcu() of updater %d (call at %ld) returned while a signal handler on updater %d's thread is still in a section begun at %ld",
					 u, call_time, r, in_cs_since[MAXR + 1 + r]);
		vrt_point();
		Y[u] = k;
		vrt_log("DST Y%d %d", u, k);
	}
	if (use_sig) {
		vrt_set_sighandler(NULL);
		vrt_log("CALL unregister");
		rcu_unregister_thread();
		vrt_log("RET unregister");
	}
	return NULL;
}

int main(int argc, char **argv)
{
	int i;
	argc = vrt_init(argc, argv);
	for (i = 1; i < argc; i++) {
		if (!strcmp(argv[i], "--readers") && i + 1 < argc) nreaders = atoi(argv[++i]);
		else if (!strcmp(argv[i], "--updaters") && i + 1 < argc) nupdaters = atoi(argv[++i]);
		else if (!strcmp(argv[i], "--rops") && i + 1 < argc) rops = atoi(argv[++i]);
		else if (!strcmp(argv[i], "--uops") && i + 1 < argc) uops = atoi(argv[++i]);
		else if (!strcmp(argv[i], "--sig")) use_sig = 1;
		else if (!strcmp(argv[i], "--nochurn")) churn = 0;
		else if (!strcmp(argv[i], "--park")) park = 1;
		else if (!strcmp(argv[i], "--parklen") && i + 1 < argc) { park = 1; parklen = atoi(argv[++i]); }
		else if (!strcmp(argv[i], "--oneshot")) oneshot = 1;
		else if (!strcmp(argv[i], "--oneshot-sweep")) oneshot = 2;
	}
	if (nreaders > MAXR) nreaders = MAXR;
	if (nupdaters > MAXU) nupdaters = MAXU;
	vrt_name(&rcu_gp.ctr, sizeof(rcu_gp.ctr), "gp.ctr");
	vrt_name(&rcu_gp.futex, sizeof(rcu_gp.futex), "gp.futex");
	vrt_name(&rcu_gp_lock, sizeof(rcu_gp_lock), "gp_lock");
	vrt_name(&rcu_registry_lock, sizeof(rcu_registry_lock), "registry_lock");
	vrt_name(&gp_waiters.stack.head, sizeof(void *), "waiters.head");
#ifdef RCU_MEMBARRIER
	vrt_raw("CFG flavor=memb membarrier=%d sig=%d readers=%d updaters=%d", urcu_memb_has_sys_membarrier, use_sig, nreaders, nupdaters);
#else
	vrt_raw("CFG flavor=mb membarrier=0 sig=%d readers=%d updaters=%d", use_sig, nreaders, nupdaters);
#endif
	for (i = 1; i <= nreaders; i++)
		vrt_spawn("reader", reader, (void *)(long)i);
	for (i = 0; i < nupdaters; i++)
		vrt_spawn("updater", updater, (void *)(long)i);
	vrt_finish();
	return vrt_failed ? 3 : 0;
}
