/*
 * C13 tie: runs the REAL src/urcu-defer-impl.h (included below, unmodified, by include path) on
 * generated operation sequences and prints one line per operation / internal event.
 * Driver/Defer.lean replays the same lines on the Lean model (UrcuVerif/Defer/Model.lean) and
 * compares every word stored into the ring, head/tail/last_fct_in/last_fct_out/last_head after
 * every operation, every invocation (function, argument, order), the lock / grace-period /
 * thread start-stop events and the return values.
 *
 * Everything is deterministic and single-threaded:
 *  - the TLS `defer_queue` becomes an array indexed by the current simulated thread (macro shim of
 *    DEFINE_URCU_TLS / URCU_TLS; the algorithm text is untouched);
 *  - pthread_mutex_lock / mutex_unlock log and check the lock discipline;
 *  - pthread_create / pthread_join of the defer thread are recorded, no thread is started: a
 *    "reclaimer pass" is an explicit rcu_defer_barrier() by the pseudo-thread R (the body of
 *    thr_defer is wait_defer(); poll(); rcu_defer_barrier());
 *  - synchronize_rcu() is the harness' grace period: it ends every reader section that was open
 *    when it was called (GpSpec), may begin new sections, and lets OTHER registered threads enqueue
 *    (the owner's lock-free enqueue between the reclaimer's head snapshot and its run);
 *  - malloc of the ring returns seeded garbage, so that reading a slot that was never written
 *    shows up as a wrong invocation.
 *
 * Function pointers: real callbacks (four at 16-aligned addresses, two asm trampolines at odd
 * addresses, so DQ_IS_FCT_BIT(fct) is really exercised) and arbitrary bit patterns - 0, the mark
 * (void *)-2L, the mark with bit 0 set, even/odd values in a PROT_NONE region: calling those
 * faults, the SIGSEGV handler logs the invocation (target, %rdi) and returns to the caller, so
 * the real rcu_defer_barrier_queue() is run on every pattern.  Real addresses are printed as
 * symbolic words (bit 0 preserved) so that the trace does not depend on ASLR.
 *
 * Independent oracle (plain C, does not use the model): the sequence of invocations must be an
 * interleaving of per-thread prefixes of the queued sequences (same pairs, same order, each once);
 * nothing may be invoked while a reader section that began before its queue time is open; when
 * rcu_defer_barrier / rcu_defer_barrier_thread / rcu_defer_unregister_thread return, all calls
 * queued before them (by the threads concerned) have been invoked; no assertion of the library
 * fires (in particular on re-registration).  Violation: `ORACLE ...` on stderr, exit 3.
 *
 * usage: defer <seed> <ncalls> [mode]      mode 0 = one long stream, 1 = several threads,
 *                                          2 = directed register/unregister/re-register
 */
#include <stdio.h>
#include <stdlib.h>
#include <stdint.h>
#include <string.h>
#include <signal.h>
#include <fcntl.h>
#include <errno.h>
#include <poll.h>
#include <unistd.h>
#include <pthread.h>
#include <assert.h>
#include <ucontext.h>
#include <sys/mman.h>
#include <sys/time.h>

#define HMAXT 5			/* threads 0..3 may register; slot 4 = reclaimer / outsider */
#define HR    4
static int h_cur;		/* current simulated thread */

static int h_mutex_lock(pthread_mutex_t *m);
static void mutex_unlock(pthread_mutex_t *m);
static int h_pthread_create(pthread_t *t, const pthread_attr_t *a, void *(*fn)(void *), void *arg);
static int h_pthread_join(pthread_t t, void **ret);
static void *h_malloc(size_t sz);
static void h_free(void *p);

#include <urcu/assert.h>
#include <urcu/compiler.h>
#include <urcu/arch.h>
#include <urcu/uatomic.h>
#include <urcu/list.h>
#include <urcu/system.h>
#include <urcu/tls-compat.h>
#include "urcu/futex.h"
#include "urcu-die.h"
#include "urcu-utils.h"

#undef DEFINE_URCU_TLS
#undef URCU_TLS
#define DEFINE_URCU_TLS(type, name)	type name##_tls[HMAXT]
#define URCU_TLS(name)			(name##_tls[h_cur])
#define pthread_mutex_lock	h_mutex_lock
#define pthread_create		h_pthread_create
#define pthread_join		h_pthread_join
#define malloc			h_malloc
#define free			h_free

#include "urcu-defer-impl.h"

#undef malloc
#undef free
#undef pthread_mutex_lock
#undef pthread_create
#undef pthread_join

/* ------------------------------------------------------------------------------------------ */
typedef uint64_t u64;
static u64 rng_s;
static u64 rnd(void)
{
	rng_s ^= rng_s << 13; rng_s ^= rng_s >> 7; rng_s ^= rng_s << 17;
	return rng_s;
}

#define SIZE ((u64)DEFER_QUEUE_SIZE)
#define MARK ((u64)(unsigned long)DQ_FCT_MARK)
#define MAXR 3

static long clk = 1;
static int nthreads, nreaders;
static long cs_begin[MAXR];		/* 0 = not in a section */
static int lockD, lockT;
static int thread_running, ev_start, ev_stop;
static int oracle_fail;
static int in_op;			/* thread executing the current API call, -1 none */
static int sync_depth;

/* --- op history for replay messages --- */
#define HIST 48
static char hist[HIST][64];
static long nhist;
static void hist_add(const char *s)
{
	snprintf(hist[nhist % HIST], sizeof hist[0], "%s", s);
	nhist++;
}
static void hist_dump(void)
{
	long i, from = nhist > HIST ? nhist - HIST : 0;
	fprintf(stderr, "ORACLE last operations (%ld total):", nhist);
	for (i = from; i < nhist; i++) fprintf(stderr, " %s;", hist[i % HIST]);
	fprintf(stderr, "\n");
}
static void die_oracle(void)
{
	hist_dump();
	printf("end\n");
	fflush(stdout);
	fflush(stderr);
	_exit(3);
}

/* --- callbacks --- */
#define NREAL 6
static void on_invoke(u64 fsym, u64 p);
static u64 fn_sym[NREAL];
static u64 sym(u64 w);
static void cb_common(int k, void *p) { on_invoke(fn_sym[k], sym((u64)(unsigned long)p)); }
#define REALCB(k) static void __attribute__((aligned(16), noinline, used)) F##k(void *p) { cb_common(k, p); }
REALCB(0) REALCB(1) REALCB(2) REALCB(3)
void __attribute__((noinline, used, visibility("hidden"))) h_impl4(void *p) { cb_common(4, p); }
void __attribute__((noinline, used, visibility("hidden"))) h_impl5(void *p) { cb_common(5, p); }
__asm__(".text\n"
	".balign 16\n nop\n .globl h_odd4\n .hidden h_odd4\n .type h_odd4,@function\n h_odd4: jmp h_impl4\n"
	".balign 16\n nop\n nop\n nop\n .globl h_odd5\n .hidden h_odd5\n .type h_odd5,@function\n h_odd5: jmp h_impl5\n");
extern void h_odd4(void *);
extern void h_odd5(void *);
static void (*volatile fn_real[NREAL])(void *);

/* PROT_NONE region: arbitrary "function pointers" that fault when called */
#define TRAP_CANON 0x500000000000UL
#define TRAP_LEN   (1UL << 30)
static u64 trap_base;

static u64 sym(u64 w)
{
	int k;
	for (k = 0; k < NREAL; k++) {
		u64 a = (u64)(unsigned long)fn_real[k];
		if (w == a) return fn_sym[k];
		if (!(a & 1) && w == (a | 1)) return fn_sym[k] | 1;
	}
	if (w >= trap_base && w < trap_base + TRAP_LEN) return w - trap_base + TRAP_CANON;
	return w;
}

static int is_trap_target(u64 a)
{
	return a == 0 || a == MARK || a == (MARK | 1) || (a >= trap_base && a < trap_base + TRAP_LEN);
}

static void segv(int sig, siginfo_t *si, void *uc_)
{
	ucontext_t *uc = uc_;
	u64 rip = uc->uc_mcontext.gregs[REG_RIP];
	u64 rsp = uc->uc_mcontext.gregs[REG_RSP];
	(void)si;
	if (!is_trap_target(rip) || !lockD) {
		printf("crash signal %d\n", sig);
		fflush(stdout);
		fprintf(stderr, "ORACLE crash: signal %d at unexpected pc (wild call or wild access)\n", sig);
		hist_dump();
		_exit(4);
	}
	on_invoke(sym(rip), sym((u64)uc->uc_mcontext.gregs[REG_RDI]));
	uc->uc_mcontext.gregs[REG_RIP] = *(u64 *)rsp;	/* simulate `ret` */
	uc->uc_mcontext.gregs[REG_RSP] = rsp + 8;
}

/* --- library hooks --- */
static int h_mutex_lock(pthread_mutex_t *m)
{
	if (m == &rcu_defer_mutex) {
		if (lockD) { printf("ev relockD\n"); fprintf(stderr, "ORACLE deadlock: rcu_defer_mutex taken twice\n"); oracle_fail = 1; die_oracle(); }
		lockD = 1; printf("ev lockD\n");
	} else {
		if (lockT || lockD) { fprintf(stderr, "ORACLE lock order: defer_thread_mutex taken while %s held\n", lockD ? "rcu_defer_mutex" : "itself"); oracle_fail = 1; die_oracle(); }
		lockT = 1; printf("ev lockT\n");
	}
	return 0;
}
static void mutex_unlock(pthread_mutex_t *m)
{
	if (m == &rcu_defer_mutex) { lockD = 0; printf("ev unlockD\n"); }
	else { lockT = 0; printf("ev unlockT\n"); }
}
static int h_pthread_create(pthread_t *t, const pthread_attr_t *a, void *(*fn)(void *), void *arg)
{
	(void)a; (void)arg;
	memset(t, 0, sizeof *t);
	if (fn != thr_defer || thread_running) { fprintf(stderr, "ORACLE defer thread started twice / wrong body\n"); oracle_fail = 1; }
	thread_running = 1; ev_start++;
	printf("ev start\n");
	return 0;
}
static int h_pthread_join(pthread_t t, void **ret)
{
	(void)t;
	if (ret) *ret = NULL;
	if (!thread_running || !uatomic_load(&defer_thread_stop)) { fprintf(stderr, "ORACLE defer thread joined while not running / stop flag clear\n"); oracle_fail = 1; }
	thread_running = 0; ev_stop++;
	printf("ev stop\n");
	return 0;
}
static u64 garbage_seed = 0x1234;
static int fail_next_malloc;	/* fault injection: the next allocation of the library fails once */
static void *h_malloc(size_t sz)
{
	u64 *p;
	if (fail_next_malloc) { fail_next_malloc = 0; errno = ENOMEM; return NULL; }
	p = malloc(sz);
	size_t i;
	for (i = 0; i < sz / sizeof(u64); i++) {
		garbage_seed = garbage_seed * 6364136223846793005ULL + 1442695040888963407ULL;
		/* garbage that decodes to something visible: odd words, marks, region pointers */
		switch (garbage_seed >> 61) {
		case 0: p[i] = MARK; break;
		case 1: p[i] = trap_base + ((garbage_seed >> 8) & 0xffff); break;
		default: p[i] = 0xdead000000000000UL | ((garbage_seed >> 20) & 0xffffff); break;
		}
	}
	return p;
}
static void h_free(void *p) { free(p); }

void __assert_fail(const char *assertion, const char *file, unsigned int line, const char *function)
{
	const char *w = "other";
	(void)file; (void)line;
	if (strstr(assertion, "last_head == 0")) w = "lastHead";
	else if (strstr(assertion, "q == NULL")) w = "qNotNull";
	else if (strstr(assertion, "<= DEFER_QUEUE_SIZE")) w = "occupancy";
	else if (strstr(assertion, "tail) == 0")) w = "notEmptyAfterFlush";
	printf("abort %s\n", w);
	fprintf(stderr, "ORACLE abort: assertion '%s' failed in %s()\n", assertion, function);
	oracle_fail = 1;
	die_oracle();
	_exit(3);
}

/* --- oracle bookkeeping --- */
struct call { u64 f, p; long qt; };
static struct call *Q[HMAXT];
static int nq[HMAXT], capq[HMAXT];
struct fr { int k[HMAXT]; };
#define MAXFR 256
static struct fr FR[MAXFR];
static int nfr = 1;			/* FR[0] = all zero */
static int fr_overflow;
static unsigned cand_mask;		/* threads whose queue the current operation may run */
static long n_invoked;

static void q_add(int t, u64 f, u64 p)
{
	if (nq[t] == capq[t]) { capq[t] = capq[t] ? 2 * capq[t] : 1024; Q[t] = realloc(Q[t], capq[t] * sizeof(struct call)); }
	Q[t][nq[t]].f = f; Q[t][nq[t]].p = p; Q[t][nq[t]].qt = clk;
	nq[t]++;
}

static int open_before(long qt)
{
	int i;
	for (i = 0; i < nreaders; i++) if (cs_begin[i] && cs_begin[i] < qt) return 1 + i;
	return 0;
}

static void on_invoke(u64 fsym, u64 p)
{
	static struct fr N[MAXFR];
	int nn = 0, i, t, j, matched = 0, early = 0;
	printf("inv 0x%lx 0x%lx\n", (unsigned long)fsym, (unsigned long)p);
	n_invoked++;
	if (!lockD) { fprintf(stderr, "ORACLE invocation outside rcu_defer_mutex\n"); oracle_fail = 1; }
	if (fr_overflow) return;
	for (i = 0; i < nfr; i++)
		for (t = 0; t < HMAXT; t++) {
			struct fr f;
			int k = FR[i].k[t];
			if (!(cand_mask & (1u << t)) || k >= nq[t]) continue;
			if (Q[t][k].f != fsym || Q[t][k].p != p) continue;
			matched = 1;
			if (open_before(Q[t][k].qt)) { early = open_before(Q[t][k].qt); continue; }
			f = FR[i]; f.k[t]++;
			for (j = 0; j < nn; j++) if (!memcmp(&N[j], &f, sizeof f)) break;
			if (j == nn) { if (nn == MAXFR) { fr_overflow = 1; return; } N[nn++] = f; }
		}
	if (!nn) {
		if (matched && early)
			fprintf(stderr, "ORACLE early: (0x%lx,0x%lx) invoked while reader %d's section (begun before the call was queued) is still open\n",
				(unsigned long)fsym, (unsigned long)p, early - 1);
		else
			fprintf(stderr, "ORACLE order: invocation #%ld (0x%lx,0x%lx) is not the next queued call of any thread whose queue may run now (wrong pair, wrong order, or invoked twice)\n",
				n_invoked, (unsigned long)fsym, (unsigned long)p);
		oracle_fail = 1;
		die_oracle();
	}
	memcpy(FR, N, nn * sizeof(struct fr));
	nfr = nn;
}

/* keep the frontiers in which every thread of `mask` has run at least need[t] calls */
static void require_done(unsigned mask, const int *need, const char *what)
{
	int i, t, nn = 0;
	if (fr_overflow) return;
	for (i = 0; i < nfr; i++) {
		int ok = 1;
		for (t = 0; t < HMAXT; t++) if ((mask & (1u << t)) && FR[i].k[t] < need[t]) ok = 0;
		if (ok) FR[nn++] = FR[i];
	}
	if (!nn) {
		for (t = 0; t < HMAXT; t++)
			if ((mask & (1u << t)) && FR[0].k[t] < need[t]) {
				fprintf(stderr, "ORACLE incomplete: %s returned but call #%d of thread %d (0x%lx,0x%lx), queued before it, has not been invoked\n",
					what, FR[0].k[t], t, (unsigned long)Q[t][FR[0].k[t]].f, (unsigned long)Q[t][FR[0].k[t]].p);
				break;
			}
		oracle_fail = 1;
		die_oracle();
	}
	nfr = nn;
}

/* --- state dump --- */
static void dump(int t)
{
	struct defer_queue *d = &defer_queue_tls[t];
	printf("st %d 0x%lx 0x%lx 0x%lx 0x%lx 0x%lx %d\n", t, d->head, d->tail,
	       (unsigned long)sym((u64)(unsigned long)d->last_fct_in), (unsigned long)sym((u64)(unsigned long)d->last_fct_out),
	       d->last_head, d->q == NULL);
}
static int registered(int t) { return defer_queue_tls[t].q != NULL; }

/* --- call generation --- */
static u64 lastf[HMAXT];	/* last function passed to defer_rcu by t (raw) */
static unsigned p_same, p_adv;	/* per-run profile, in percent */

static u64 gen_fct(int odd_or_mark)
{
	unsigned r = rnd() % 100;
	if (odd_or_mark) {
		if (r < 30) return (u64)(unsigned long)fn_real[4 + rnd() % 2];
		if (r < 45) return MARK;
		if (r < 55) return MARK | 1;
		return (trap_base + (rnd() % 64) * 2) | 1;
	}
	if (r < 60) return (u64)(unsigned long)fn_real[rnd() % 4];
	if (r < 65) return 0;
	return trap_base + (rnd() % 64) * 2;
}
static u64 gen_arg(int t, int adversarial)
{
	unsigned r = rnd() % 100;
	if (!adversarial) {
		if (r < 50) return (rnd() % 4096) * 8;
		if (r < 60) return 0;
		if (r < 80) return rnd() & ~1UL & ~(1UL << 63);
		return (rnd() & ~1UL) == MARK ? 0 : (rnd() & ~1UL);
	}
	if (r < 30) return MARK;
	if (r < 45) return MARK | 1;
	if (r < 50) return lastf[t] | 1;
	if (r < 55) return (u64)(unsigned long)fn_real[rnd() % NREAL] | 1;
	if (r < 60) return 1;
	return rnd() | 1;
}
/* slots = 0: draw from the profile; 1/2/3: force an entry of that many slots */
static void gen_call(int t, int slots, u64 *f, u64 *p)
{
	u64 lf = lastf[t];
	int lf_special = (lf & 1) || lf == MARK;
	if (slots == 0) {
		if (rnd() % 100 < p_same) *f = lf; else *f = gen_fct(rnd() % 100 < 25);
		*p = gen_arg(t, rnd() % 100 < p_adv);
		return;
	}
	if (slots == 1) {	/* same function, plain argument (only if a call was made before) */
		*f = lf; *p = gen_arg(t, 0);
		return;
	}
	if (slots == 2) {	/* even non-mark function, changed or adversarial argument */
		if (!lf_special && rnd() % 2) { *f = lf; *p = gen_arg(t, 1); }
		else { do *f = gen_fct(0); while (*f == lf); *p = gen_arg(t, rnd() % 2); }
		return;
	}
	if (lf_special && rnd() % 2) { *f = lf; *p = gen_arg(t, 1); }
	else { do *f = gen_fct(1); while (*f == lf); *p = gen_arg(t, rnd() % 2); }
}

static int slots_of(int t, u64 f, u64 p)	/* generator's own prediction, for targeting only */
{
	if (defer_queue_tls[t].last_fct_in != (void *)(unsigned long)f || (p & 1) || p == MARK)
		return ((f & 1) || f == MARK) ? 3 : 2;
	return 1;
}

/* --- operations --- */
static void reader_begin(int i, const char *pfx) { cs_begin[i] = clk++; printf("%srl %d\n", pfx, i); }
static void reader_end(int i, const char *pfx) { cs_begin[i] = 0; clk++; printf("%sru %d\n", pfx, i); }

static unsigned long hist_cov[16];
enum { C_E1, C_E2, C_E3, C_WRAP3, C_FULLFLUSH, C_OCC_EQ_SIZE, C_NESTED, C_PARTIAL, C_REREG, C_HIGHWRAP };

static void enqueue_raw(int t, u64 f, u64 p, int nested)
{
	struct defer_queue *d = &defer_queue_tls[t];
	unsigned long oh = d->head, nh, k;
	int save = h_cur;
	unsigned save_mask = cand_mask;
	long calls_before = n_invoked;
	if (!nested) {
		int need[HMAXT] = {0};
		(void)need;
		printf("op defer %d 0x%lx 0x%lx\n", t, (unsigned long)sym(f), (unsigned long)sym(p));
		in_op = t;
		cand_mask = 1u << t;
	}
	h_cur = t;
	q_add(t, sym(f), sym(p));	/* queue time = now; the call is queued before any flush runs it */
	nq[t]--;			/* ... but a flush inside defer_rcu must not run it: publish after */
	{
		struct call c = Q[t][nq[t]];
		defer_rcu((void (*)(void *))(unsigned long)f, (void *)(unsigned long)p);
		c.qt = clk;
		Q[t][nq[t]++] = c;
	}
	clk++;
	h_cur = save;
	cand_mask = save_mask;
	lastf[t] = f;
	nh = d->head;
	printf("%s %d", nested ? "nenq" : "ret defer", t);
	if (nested) printf(" 0x%lx 0x%lx", (unsigned long)sym(f), (unsigned long)sym(p));
	printf(" %lu", nh - oh);
	for (k = 0; k < nh - oh && k < 8; k++)
		printf(" 0x%lx", (unsigned long)sym((u64)(unsigned long)d->q[(oh + k) & DEFER_QUEUE_MASK]));
	printf("\n");
	dump(t);
	if (nh - oh >= 1 && nh - oh <= 3) hist_cov[C_E1 + (nh - oh) - 1]++;
	if (nh - oh == 3 && (oh & DEFER_QUEUE_MASK) > ((nh - 1) & DEFER_QUEUE_MASK)) hist_cov[C_WRAP3]++;
	if (nh - oh > 1 && nh < oh) hist_cov[C_HIGHWRAP]++;
	if (nh - d->tail == SIZE) hist_cov[C_OCC_EQ_SIZE]++;
	if (!nested && n_invoked != calls_before) hist_cov[C_FULLFLUSH]++;
	if (nested) hist_cov[C_NESTED]++;
	if (!nested) in_op = -1;
}

static void nested_events(int n)
{
	int i, j;
	for (j = 0; j < n; j++) {
		unsigned r = rnd() % 100;
		if (r < 25) {
			i = rnd() % nreaders;
			if (!cs_begin[i]) reader_begin(i, "ev ");
		} else if (r < 35) {
			i = rnd() % nreaders;
			if (cs_begin[i]) reader_end(i, "ev ");
		} else {
			int t = rnd() % nthreads;
			struct defer_queue *d = &defer_queue_tls[t];
			u64 f, p;
			if (t == in_op || !registered(t) || d->head - d->tail >= SIZE - 2) continue;
			gen_call(t, 0, &f, &p);
			enqueue_raw(t, f, p, 1);
		}
	}
}

void synchronize_rcu(void)
{
	long start = clk++;
	int i;
	printf("ev sync\n");
	if (!lockD) { fprintf(stderr, "ORACLE synchronize_rcu() called without rcu_defer_mutex\n"); oracle_fail = 1; }
	if (sync_depth++) { fprintf(stderr, "ORACLE nested synchronize_rcu\n"); oracle_fail = 1; }
	nested_events(rnd() % 8 == 0 ? 40 + rnd() % 40 : rnd() % 4);
	/* grace period: every section that began before the call ends */
	for (i = 0; i < nreaders; i++)
		if (cs_begin[i] && cs_begin[i] < start) reader_end(i, "ev ");
	printf("ev gp\n");
	clk++;
	nested_events(rnd() % 3);
	sync_depth--;
}

static void do_reg(int t)
{
	int rc, was_running = thread_running;
	char b[64];
	snprintf(b, sizeof b, "reg %d", t); hist_add(b);
	printf("op reg %d\n", t);
	in_op = t; h_cur = t;
	rc = rcu_defer_register_thread();
	in_op = -1;
	clk++;
	printf("ret reg %d %d\n", t, rc);
	dump(t);
	if (rc || !registered(t)) { fprintf(stderr, "ORACLE register failed rc=%d\n", rc); oracle_fail = 1; }
	if (!was_running && !thread_running) { fprintf(stderr, "ORACLE reclaimer thread not started by first registration\n"); oracle_fail = 1; }
}

static void do_unreg(int t)
{
	int need[HMAXT] = {0}, i, others = 0;
	char b[64];
	snprintf(b, sizeof b, "unreg %d", t); hist_add(b);
	printf("op unreg %d\n", t);
	in_op = t; h_cur = t; cand_mask = 1u << t;
	need[t] = nq[t];
	rcu_defer_unregister_thread();
	in_op = -1; cand_mask = 0;
	clk++;
	printf("ret unreg %d\n", t);
	dump(t);
	require_done(1u << t, need, "rcu_defer_unregister_thread()");
	for (i = 0; i < nthreads; i++) others |= registered(i);
	if (registered(t)) { fprintf(stderr, "ORACLE unregister left q != NULL\n"); oracle_fail = 1; }
	if (!others && thread_running) { fprintf(stderr, "ORACLE reclaimer thread still running after last unregistration\n"); oracle_fail = 1; }
}

static void do_barrier(int who)
{
	int need[HMAXT] = {0}, t;
	unsigned mask = 0;
	long before = n_invoked;
	int snapshot_partial = 0;
	unsigned long heads[HMAXT];
	char b[64];
	snprintf(b, sizeof b, "barrier %d", who); hist_add(b);
	printf("op barrier %d\n", who);
	for (t = 0; t < nthreads; t++) { heads[t] = defer_queue_tls[t].head; if (registered(t)) { mask |= 1u << t; need[t] = nq[t]; } }
	in_op = who; h_cur = who; cand_mask = mask;
	rcu_defer_barrier();
	in_op = -1; cand_mask = 0;
	clk++;
	printf("ret barrier %d\n", who);
	for (t = 0; t < nthreads; t++) {
		dump(t);
		if (registered(t) && defer_queue_tls[t].head != heads[t] && defer_queue_tls[t].tail != defer_queue_tls[t].head) snapshot_partial = 1;
	}
	if (snapshot_partial && n_invoked != before) hist_cov[C_PARTIAL]++;
	require_done(mask, need, "rcu_defer_barrier()");
}

static void do_flush(int t)
{
	int need[HMAXT] = {0};
	char b[64];
	snprintf(b, sizeof b, "flush %d", t); hist_add(b);
	printf("op flush %d\n", t);
	in_op = t; h_cur = t; cand_mask = 1u << t;
	need[t] = nq[t];
	rcu_defer_barrier_thread();
	in_op = -1; cand_mask = 0;
	clk++;
	printf("ret flush %d\n", t);
	dump(t);
	require_done(1u << t, need, "rcu_defer_barrier_thread()");
}

static void do_defer(int t, u64 f, u64 p)
{
	char b[64];
	snprintf(b, sizeof b, "defer %d %lx %lx", t, (unsigned long)sym(f), (unsigned long)sym(p)); hist_add(b);
	enqueue_raw(t, f, p, 0);
}

/* directed choice of the next entry's size near the physical wrap and near the threshold */
static void defer_directed(int t)
{
	struct defer_queue *d = &defer_queue_tls[t];
	u64 occ = d->head - d->tail, pos = d->head & DEFER_QUEUE_MASK, f, p;
	int slots = 0;
	if (pos >= SIZE - 3 && rnd() % 4) slots = 3;
	else if (occ >= SIZE - 8 && occ < SIZE - 2) {
		/* walk up to occupancy SIZE-3, then store a 3-slot entry (occupancy == SIZE), or stop
		 * at SIZE-4 / SIZE-5 with 2- and 3-slot entries */
		u64 room = SIZE - 3 - occ;	/* 0..5 */
		if (room == 0) slots = 1 + rnd() % 3;
		else if (room <= 3 && rnd() % 2) slots = (int)room;
		else slots = 1;
	}
	if (slots == 1 && lastf[t] == 0 && defer_queue_tls[t].last_fct_in == NULL && nq[t] == 0) slots = 2;
	gen_call(t, slots, &f, &p);
	(void)slots_of;
	do_defer(t, f, p);
}

static u64 pick_base(void)
{
	switch (rnd() % 6) {
	case 0: return 0;
	case 1: return (u64)0 - (1 + rnd() % 8);		/* just below the 2^64 wrap */
	case 2: return (u64)0 - SIZE / 2 - rnd() % 7;
	case 3: return (1UL << 63) - 1 - rnd() % 5;
	case 4: return (u64)0 - 3 * SIZE + rnd() % 5;
	default: return rnd();
	}
}

static void top_reader_event(void)
{
	int i = rnd() % nreaders;
	if (cs_begin[i]) reader_end(i, ""); else reader_begin(i, "");
}

/* Fault probe (oracle only, nothing reaches the driver: stdout is parked on /dev/null meanwhile): the allocation of the per-thread
 * ring fails in rcu_defer_register_thread().  The call must report the failure and leave everything as it was: no mutex held,
 * thread not registered, reclaimer not started - so that other threads (and a retry) can still register and unregister. */
static void probe_register_enomem(int t)
{
	int rc, fd, nul, was_running = thread_running, s0 = ev_start;
	fflush(stdout);
	fd = dup(1); nul = open("/dev/null", O_WRONLY); dup2(nul, 1);
	fail_next_malloc = 1;
	in_op = t; h_cur = t;
	rc = rcu_defer_register_thread();
	in_op = -1;
	fail_next_malloc = 0;
	fflush(stdout); dup2(fd, 1); close(fd); close(nul);
	if (rc == 0) { fprintf(stderr, "ORACLE register reported success although the allocation of its queue failed\n"); oracle_fail = 1; }
	if (lockT || lockD) { fprintf(stderr, "ORACLE rcu_defer_register_thread() returned %d (allocation failure) with %s still held: every later register / unregister blocks for ever\n", rc, lockT ? "defer_thread_mutex" : "rcu_defer_mutex"); oracle_fail = 1; }
	if (registered(t)) { fprintf(stderr, "ORACLE thread registered although register returned %d\n", rc); oracle_fail = 1; }
	if (thread_running != was_running || ev_start != s0) { fprintf(stderr, "ORACLE a failed registration started the reclaimer thread\n"); oracle_fail = 1; }
	if (oracle_fail) die_oracle();
}

int main(int argc, char **argv)
{
	unsigned long seed = argc > 1 ? strtoul(argv[1], 0, 0) : 1;
	long ncalls = argc > 2 ? atol(argv[2]) : 2000, n;
	int mode = argc > 3 ? atoi(argv[3]) : (int)(seed % 3 == 0), t, i;
	struct sigaction sa;
	static char obuf[1 << 16];

	setvbuf(stdout, obuf, _IOFBF, sizeof obuf);
	rng_s = seed * 0x9E3779B97F4A7C15ULL + 0x7654321;
	for (i = 0; i < 5; i++) rnd();
	garbage_seed ^= rng_s;

	memset(&sa, 0, sizeof sa);
	sa.sa_sigaction = segv; sa.sa_flags = SA_SIGINFO;
	sigaction(SIGSEGV, &sa, NULL); sigaction(SIGBUS, &sa, NULL);
	{
		void *r = mmap((void *)TRAP_CANON, TRAP_LEN, PROT_NONE, MAP_PRIVATE | MAP_ANONYMOUS | MAP_NORESERVE, -1, 0);
		if (r == MAP_FAILED) { perror("mmap"); return 2; }
		trap_base = (u64)(unsigned long)r;
	}
	fn_real[0] = F0; fn_real[1] = F1; fn_real[2] = F2; fn_real[3] = F3; fn_real[4] = h_odd4; fn_real[5] = h_odd5;
	for (i = 0; i < NREAL; i++) fn_sym[i] = 0x700000000000UL + 0x100 * i + ((u64)(unsigned long)fn_real[i] & 1);

	nthreads = mode == 0 ? 1 : 2 + rnd() % 3;
	nreaders = 1 + rnd() % MAXR;
	p_same = (unsigned[]){ 97, 90, 60, 99 }[rnd() % 4];
	p_adv = (unsigned[]){ 2, 10, 30, 1 }[rnd() % 4];
	in_op = -1;
	printf("cfg %lu %lu %lu 0x%lx %d %d\n", (unsigned long)DEFER_QUEUE_SIZE, (unsigned long)DEFER_QUEUE_MASK,
	       (unsigned long)DQ_FCT_BIT, (unsigned long)MARK, nthreads, nreaders);
	printf("# seed %lu mode %d p_same %u p_adv %u odd_real %d%d%d%d%d%d\n", seed, mode, p_same, p_adv,
	       (int)(fn_sym[0] & 1), (int)(fn_sym[1] & 1), (int)(fn_sym[2] & 1), (int)(fn_sym[3] & 1), (int)(fn_sym[4] & 1), (int)(fn_sym[5] & 1));
	for (t = 0; t < nthreads; t++) {
		u64 b = pick_base();
		defer_queue_tls[t].head = defer_queue_tls[t].tail = b;
		printf("init %d 0x%lx\n", t, (unsigned long)b);
	}

	probe_register_enomem(0);
	if (mode == 2 || seed % 5 == 0) {
		/* directed: the history of DESIGN.md section 5 item 2, with both ways last_head gets set */
		do_reg(0);
		do_defer(0, (u64)(unsigned long)fn_real[0], 0x10);
		do_barrier(HR);
		do_unreg(0);
		do_reg(0);
		hist_cov[C_REREG]++;
		do_defer(0, (u64)(unsigned long)fn_real[1], 0x20);
		do_flush(0);
		do_barrier(0);		/* nothing queued: last_head still written */
		do_unreg(0);
		do_reg(0);
		hist_cov[C_REREG]++;
		if (mode == 2) { do_unreg(0); goto done; }
	}

	if (mode == 0) {
		/* one long stream: ncalls calls, rare reclaimer passes, full-queue flushes */
		unsigned pbar = (unsigned[]){ 0, 2, 12, 60 }[rnd() % 4];	/* per 10000 */
		long cyc = 0;
		printf("# pbar %u\n", pbar);
		if (!registered(0)) do_reg(0);
		for (n = 0; n < ncalls; n++) {
			unsigned r = rnd() % 10000;
			if (r < pbar) do_barrier(HR);
			else if (r < pbar + pbar / 4) do_flush(0);
			else if (r < pbar + pbar / 4 + 30) top_reader_event();
			else if (r < pbar + pbar / 4 + 32 && cyc < 3) { do_unreg(0); do_reg(0); hist_cov[C_REREG]++; cyc++; }
			else defer_directed(0);
		}
	} else {
		for (n = 0; n < ncalls; n++) {
			unsigned r = rnd() % 1000;
			t = rnd() % nthreads;
			if (r < 15) { if (!registered(t)) { if (nq[t]) hist_cov[C_REREG]++; do_reg(t); } }
			else if (r < 22) { if (registered(t)) do_unreg(t); }
			else if (r < 40) do_barrier(rnd() % 3 ? HR : (int)(rnd() % nthreads));
			else if (r < 50) do_flush(t);
			else if (r < 90) top_reader_event();
			else if (registered(t)) defer_directed(t);
			else if (rnd() % 4 == 0) { if (nq[t]) hist_cov[C_REREG]++; do_reg(t); }
		}
	}
	for (i = 0; i < nreaders; i++) if (cs_begin[i] && rnd() % 2) reader_end(i, "");
	if (rnd() % 2) do_barrier(HR);
	for (t = 0; t < nthreads; t++) if (registered(t)) do_unreg(t);
done:
	do_barrier(HR);		/* empty registry: returns at once */
	{
		int need[HMAXT];
		for (t = 0; t < HMAXT; t++) need[t] = nq[t];
		require_done((1u << HMAXT) - 1, need, "end of run (all threads unregistered)");
		if (!fr_overflow)
			for (t = 0; t < HMAXT; t++)
				if (FR[0].k[t] != nq[t]) { fprintf(stderr, "ORACLE count: thread %d queued %d invoked %d\n", t, nq[t], FR[0].k[t]); oracle_fail = 1; }
	}
	if (thread_running) { fprintf(stderr, "ORACLE reclaimer thread still running at the end\n"); oracle_fail = 1; }
	printf("# cov e1=%lu e2=%lu e3=%lu wrap3=%lu fullflush=%lu occ_eq_size=%lu nested=%lu partial=%lu rereg=%lu highwrap=%lu frontier_overflow=%d\n",
	       hist_cov[C_E1], hist_cov[C_E2], hist_cov[C_E3], hist_cov[C_WRAP3], hist_cov[C_FULLFLUSH], hist_cov[C_OCC_EQ_SIZE],
	       hist_cov[C_NESTED], hist_cov[C_PARTIAL], hist_cov[C_REREG], hist_cov[C_HIGHWRAP], fr_overflow);
	printf("end\n");
	fflush(stdout);
	if (oracle_fail) { hist_dump(); fflush(stderr); _exit(3); }
	return 0;
}
