/*
 * C09 tie: runs the REAL src/rculfhash.c (textually included below, unmodified, to reach its
 * static helpers) together with the real allocators, work queue and the memb flavor compiled
 * from source, and prints one line per observation.  Driver/LfhtResize.lean replays the same
 * lines on the Lean model (UrcuVerif/Lfht/Resize.lean, Mm.lean).
 *
 * Two shims are defined before the source text is parsed (nothing in /repo is changed):
 *   pthread_create            -> h_pthread_create   (EAGAIN injection for partition_resize_helper)
 *   urcu_workqueue_queue_work -> h_queue_work       (observe lazy launches; "capture" mode keeps the
 *                                                   works in a FIFO the harness runs itself, so the
 *                                                   worker's schedule is deterministic)
 * Observation points: a wrapping mm plug-in (alloc/free_bucket_table per order), a recording
 * cds_lfht_alloc (every calloc/free, poison + quarantine of freed memory), a wrapping flavor
 * (read_lock of the populate/remove partitions, update_synchronize_rcu), ht->size sampled at
 * every event.
 *
 * Independent oracles (plain C, no model): every cds_lfht_resize under a watchdog (a hang is
 * reported as the failing request, exit 3); size is a power of two in [1,max] and equals the
 * rounded request; resident keys found after every resize and, from a second real thread, during
 * it; alloc of order i happens while size == 2^(i-1) and populate precedes the size store;
 * remove of order i only after the size was lowered and a grace period elapsed; free only after
 * a further grace period; every index < size maps to a distinct cell inside a live allocation;
 * partition ranges tile [0,len); no double free, no leak, nothing touched after the table is freed.
 * Oracle failures: "ORACLE ..." on stderr, exit code 3.
 *
 * usage: lfht_resize <seed> [quick|thorough]
 */
#define _LGPL_SOURCE
#include <stdio.h>
#include <stdlib.h>
#include <stdint.h>
#include <string.h>
#include <stdbool.h>
#include <errno.h>
#include <signal.h>
#include <sched.h>
#include <unistd.h>
#include <pthread.h>
#include <semaphore.h>
#include <poll.h>
#include <sys/mman.h>
#include <urcu/urcu-memb.h>
#include <urcu/rculfhash.h>
#include "workqueue.h"

static int h_pthread_create(pthread_t *t, const pthread_attr_t *a, void *(*f)(void *), void *arg);
static void h_queue_work(struct urcu_workqueue *wq, struct urcu_work *work,
		void (*func)(struct urcu_work *work));
#define pthread_create h_pthread_create
#define urcu_workqueue_queue_work h_queue_work

#include "rculfhash.c"

#undef pthread_create
#undef urcu_workqueue_queue_work

/* ------------------------------------------------------------------------------------------ */
static uint64_t rng_s;
static uint64_t rnd(void)
{
	rng_s ^= rng_s << 13; rng_s ^= rng_s >> 7; rng_s ^= rng_s << 17;
	return rng_s;
}

static int oracle_fail;
static const char *cur_op = "start";
static char cur_op_buf[256];
#define ORACLE(...) do { fflush(stdout); fprintf(stderr, "ORACLE " __VA_ARGS__); fprintf(stderr, "\n"); oracle_fail = 1; } while (0)
static void die_oracle(void) { fflush(stdout); fflush(stderr); _exit(3); }

/* ---- watchdog ------------------------------------------------------------------------------ */
static volatile int wd_armed;
static volatile long wd_deadline_ms;
static long now_ms(void)
{
	struct timespec ts;
	clock_gettime(CLOCK_MONOTONIC, &ts);
	return ts.tv_sec * 1000L + ts.tv_nsec / 1000000L;
}
static void *wd_thread(void *arg)
{
	(void) arg;
	for (;;) {
		(void) poll(NULL, 0, 20);
		if (wd_armed && now_ms() > wd_deadline_ms) {
			fflush(stdout);
			fprintf(stderr, "ORACLE hang: %s did not return within the watchdog budget\n", cur_op);
			die_oracle();
		}
	}
	return NULL;
}
static void wd_arm(long ms) { wd_deadline_ms = now_ms() + ms; cmm_smp_mb(); wd_armed = 1; }
static void wd_disarm(void) { wd_armed = 0; cmm_smp_mb(); }

static void on_segv(int sig)
{
	static const char m1[] = "ORACLE crash: fatal signal during ";
	(void) sig;
	(void) !write(2, m1, sizeof(m1) - 1);
	(void) !write(2, cur_op, strlen(cur_op));
	(void) !write(2, "\n", 1);
	_exit(3);
}

/* ---- shims --------------------------------------------------------------------------------- */
static int create_fail_at = -1;	/* k-th pthread_create of partition_resize_helper returns EAGAIN */
static int create_count;
static volatile int attr_handed_back;	/* section F3: cds_lfht_destroy() returned the caller's thread attributes, the caller destroyed them */
static volatile int attr_late_creates, attr_late_creates_with_attr;
static int h_pthread_create(pthread_t *t, const pthread_attr_t *a, void *(*f)(void *), void *arg)
{
	if (attr_handed_back) {
		__atomic_fetch_add(&attr_late_creates, 1, __ATOMIC_SEQ_CST);
		if (a) {
			/* the library still uses (its shallow copy of) attributes it has handed back: do not pass freed state on */
			__atomic_fetch_add(&attr_late_creates_with_attr, 1, __ATOMIC_SEQ_CST);
			a = NULL;
		}
	}
	if (create_fail_at >= 0 && create_count++ == create_fail_at)
		return EAGAIN;
	return pthread_create(t, a, f, arg);
}

#define MAXPEND 64
static int capture_mode;
static int sync_worker_mode;	/* section L: the launcher is "preempted" until the worker has finished the work it queued */
static struct { struct urcu_work *work; void (*func)(struct urcu_work *); } pend[MAXPEND];
static int npend;
static int qw_resize, qw_destroy, qw_other;
static void h_queue_work(struct urcu_workqueue *wq, struct urcu_work *work,
		void (*func)(struct urcu_work *work))
{
	if (func == do_resize_cb) qw_resize++;
	else if (func == do_auto_resize_destroy_cb) qw_destroy++;
	else qw_other++;
	if (capture_mode) {
		if (npend >= MAXPEND) { ORACLE("harness: too many captured works"); die_oracle(); }
		work->func = func;
		pend[npend].work = work; pend[npend].func = func; npend++;
		return;
	}
	urcu_workqueue_queue_work(wq, work, func);
	if (sync_worker_mode && func == do_resize_cb)
		urcu_workqueue_flush_queued_work(wq);
}

/* ---- event log ----------------------------------------------------------------------------- */
enum { EV_ALLOC, EV_RL, EV_SYNC, EV_FREE, EV_FREEHT };
static const char *evname[] = { "alloc", "rl", "sync", "free", "freeht" };
struct ev { int kind; unsigned long order, size, n, nmemb; };
#define MAXEV 4096
static struct ev evs[MAXEV];
static int nev;
static pthread_mutex_t ev_mx = PTHREAD_MUTEX_INITIALIZER;
static struct cds_lfht *ev_ht;		/* table whose size is sampled */
static int ev_suppress_rl;
static unsigned long cur_callocs, cur_nmemb;
static int quiet;		/* probe tables: no event / work / destroy lines */
static int ev_track_next;	/* the next table created becomes ev_ht (its creation events are logged) */

static void ev_add(int kind, unsigned long order, unsigned long n, unsigned long nmemb)
{
	unsigned long size = ev_ht ? uatomic_load(&ev_ht->size) : 0;
	pthread_mutex_lock(&ev_mx);
	if (kind == EV_RL && nev > 0 && evs[nev - 1].kind == EV_RL && evs[nev - 1].size == size) {
		evs[nev - 1].n++;
	} else if (nev < MAXEV) {
		evs[nev].kind = kind; evs[nev].order = order; evs[nev].size = size;
		evs[nev].n = n; evs[nev].nmemb = nmemb; nev++;
	}
	pthread_mutex_unlock(&ev_mx);
}

/* ---- independent ordering oracle over the event log (no model involved) ------------------- */
/* per order: state tracked from the events */
#define MAXORD 65
static void oracle_events(unsigned long size_before, unsigned long size_after, int destroying)
{
	/* replays evs[0..nev): alloc i must see size == 2^(i-1); the populate rl that follows must still
	 * see 2^(i-1); a level may be removed (rl with lowered size) only after >= 1 sync since the size was
	 * lowered, and freed only after >= 1 further sync. */
	unsigned long cur = size_before;
	long unpub_sync[MAXORD], removed_sync[MAXORD];
	long syncs = 0;
	int i, pending_alloc = -1;
	for (i = 0; i < MAXORD; i++) { unpub_sync[i] = -1; removed_sync[i] = -1; }
	for (i = 0; i < nev; i++) {
		struct ev *e = &evs[i];
		if (e->kind != EV_FREEHT && e->size != cur) {
			/* the size store happened between the previous event and this one */
			if (e->size > cur) {
				if (pending_alloc >= 0)
					ORACLE("publish-before-populate: size became %lu while order %d was allocated but not populated (%s)", e->size, pending_alloc, cur_op);
			} else {
				unsigned long s;
				int o = cds_lfht_get_count_order_ulong(cur);
				for (s = cur; s > e->size; s >>= 1, o--)
					unpub_sync[o] = syncs;
			}
			cur = e->size;
		}
		switch (e->kind) {
		case EV_ALLOC:
			if (e->order > 0 && cur != (1UL << (e->order - 1)) && !destroying)
				ORACLE("alloc order %lu while size=%lu (%s)", e->order, cur, cur_op);
			pending_alloc = (int) e->order;
			break;
		case EV_RL:
			if (pending_alloc >= 0) {
				/* populate of pending_alloc: size must not be published yet */
				if (pending_alloc > 0 && cur != (1UL << (pending_alloc - 1)))
					ORACLE("populate order %d while size=%lu (%s)", pending_alloc, cur, cur_op);
				pending_alloc = -1;
			} else {
				/* remove_table of order(cur)+1 */
				int o = cds_lfht_get_count_order_ulong(cur) + 1;
				if (unpub_sync[o] < 0 || syncs - unpub_sync[o] < 1)
					ORACLE("remove order %d without a grace period after lowering size (%s)", o, cur_op);
				removed_sync[o] = syncs;
			}
			break;
		case EV_SYNC:
			syncs++;
			break;
		case EV_FREE:
			if (!destroying) {
				int o = (int) e->order;
				if (cur > (1UL << (o - 1)))
					ORACLE("free order %d while size=%lu still covers it (%s)", o, cur, cur_op);
				if (removed_sync[o] < 0 || syncs - removed_sync[o] < 1)
					ORACLE("free order %d without a grace period after its removal (%s)", o, cur_op);
				if (unpub_sync[o] < 0 || syncs - unpub_sync[o] < 2)
					ORACLE("free order %d with fewer than two grace periods after unpublishing (%s)", o, cur_op);
				removed_sync[o] = -1; unpub_sync[o] = -1;
			}
			break;
		}
	}
	if (!destroying) {
		if (pending_alloc >= 0 && size_after < (1UL << pending_alloc))
			; /* alloc without populate is reported by the driver comparison */
		for (i = 0; i < MAXORD; i++)
			if (removed_sync[i] >= 0)
				ORACLE("order %d removed but never freed (%s)", i, cur_op);
	}
}

static void ev_print_clear(void)
{
	int i;
	for (i = 0; i < nev && !quiet; i++)
		printf("ev %s %lu %lu %lu %lu\n", evname[evs[i].kind], evs[i].order, evs[i].size, evs[i].n, evs[i].nmemb);
	nev = 0;
}

/* ---- recording cds_lfht_alloc ---------------------------------------------------------------- */
struct region { char *p; size_t bytes; unsigned long nmemb; int live; int bucket; };
#define MAXREG (1 << 16)
static struct region regs[MAXREG];
static int nreg;
static pthread_mutex_t reg_mx = PTHREAD_MUTEX_INITIALIZER;
static int in_mm_alloc;		/* inside alloc_bucket_table: allocations are bucket memory */
static int fail_next_calloc;	/* inject NULL for the next non-bucket calloc (partition work array) */
static long live_regions;

static void reg_add(void *p, size_t bytes, unsigned long nmemb, int bucket)
{
	pthread_mutex_lock(&reg_mx);
	if (nreg >= MAXREG) { ORACLE("harness: region table full"); die_oracle(); }
	regs[nreg].p = p; regs[nreg].bytes = bytes; regs[nreg].nmemb = nmemb; regs[nreg].live = 1;
	regs[nreg].bucket = bucket; nreg++;
	live_regions++;
	pthread_mutex_unlock(&reg_mx);
}
static struct region *reg_find(const void *p)
{
	int i;
	for (i = nreg - 1; i >= 0; i--)
		if ((const char *) p >= regs[i].p && (const char *) p < regs[i].p + regs[i].bytes)
			return &regs[i];
	return NULL;
}
/* every block handed to the library is followed by a canary: a store (or the load of a stored-back value) past the size the
 * library asked for is a heap overflow even when the C allocator happens to round the request up */
#define CANARY 64
static void canary_set(void *p, size_t size) { memset((char *) p + size, 0xC5, CANARY); }
static int canary_bad(const struct region *r)
{
	size_t i;
	for (i = 0; i < CANARY; i++)
		if ((unsigned char) r->p[r->bytes + i] != 0xC5) return 1;
	return 0;
}
static void canary_check_all(const char *when)
{
	int i;
	pthread_mutex_lock(&reg_mx);
	for (i = 0; i < nreg; i++)
		if (regs[i].live && canary_bad(&regs[i])) {
			pthread_mutex_unlock(&reg_mx);
			ORACLE("heap overflow: the library wrote past the end of a block of %zu bytes it had allocated (%s; %s)", regs[i].bytes, when, cur_op);
			die_oracle();
		}
	pthread_mutex_unlock(&reg_mx);
}
static void *r_malloc(void *st, size_t size)
{
	void *p = malloc(size + CANARY);
	(void) st;
	if (p) { canary_set(p, size); reg_add(p, size, 1, 0); }
	return p;
}
static volatile int park_big_calloc;	/* section F3: park the resize worker at its first bucket allocation of >= 8192 nodes */
static sem_t park_reached, park_release;
static void *r_calloc(void *st, size_t nmemb, size_t size)
{
	void *p;
	(void) st;
	if (in_mm_alloc && nmemb >= 8192 && park_big_calloc) {
		park_big_calloc = 0;
		sem_post(&park_reached);
		sem_wait(&park_release);
	}
	if (!in_mm_alloc && fail_next_calloc) { fail_next_calloc = 0; return NULL; }
	p = calloc(1, nmemb * size + CANARY);
	if (p) { canary_set(p, nmemb * size); reg_add(p, nmemb * size, nmemb, in_mm_alloc); }
	if (in_mm_alloc) { cur_callocs++; cur_nmemb = nmemb; }
	return p;
}
static void *r_realloc(void *st, void *ptr, size_t size)
{
	(void) st; (void) ptr; (void) size;
	ORACLE("harness: realloc unexpectedly used"); die_oracle();
	return NULL;
}
static void *r_aligned(void *st, size_t al, size_t size)
{
	void *p;
	(void) st;
	if (posix_memalign(&p, al, size + CANARY)) return NULL;
	canary_set(p, size);
	reg_add(p, size, 1, 0);
	return p;
}
static void r_free(void *st, void *ptr)
{
	struct region *r;
	(void) st;
	if (!ptr) return;
	pthread_mutex_lock(&reg_mx);
	r = reg_find(ptr);
	if (!r || r->p != (char *) ptr) {
		pthread_mutex_unlock(&reg_mx);
		ORACLE("free of a pointer that was never allocated (%s)", cur_op); die_oracle();
	}
	if (!r->live) {
		pthread_mutex_unlock(&reg_mx);
		ORACLE("double free (%s)", cur_op); die_oracle();
	}
	if (canary_bad(r)) {
		pthread_mutex_unlock(&reg_mx);
		ORACLE("heap overflow: the library wrote past the end of a block of %zu bytes it had allocated (seen at free; %s)", r->bytes, cur_op);
		die_oracle();
	}
	r->live = 0;
	live_regions--;
	pthread_mutex_unlock(&reg_mx);
	if (ev_ht && ptr == (void *) ev_ht) {
		ev_ht = NULL;
		ev_add(EV_FREEHT, 0, 0, 0);
	}
	/* poison and quarantine: a late reader or resizer touching it follows 0x42.. pointers and faults */
	memset(ptr, 0x42, r->bytes);
}
static void quarantine_release(void)
{
	int i;
	for (i = 0; i < nreg; i++) {
		if (regs[i].live) continue;
		free(regs[i].p);
	}
	{
		int j = 0;
		for (i = 0; i < nreg; i++)
			if (regs[i].live) regs[j++] = regs[i];
		nreg = j;
	}
}
static struct cds_lfht_alloc rec_alloc = {
	.malloc = r_malloc, .calloc = r_calloc, .realloc = r_realloc, .aligned_alloc = r_aligned,
	.free = r_free, .state = NULL,
};

/* ---- wrapping mm plug-ins ---------------------------------------------------------------------- */
enum { K_ORDER, K_CHUNK, K_MMAP };
static const char *kname[] = { "order", "chunk", "mmap" };
static const struct cds_lfht_mm_type *real_mm[3] = { &cds_lfht_mm_order, &cds_lfht_mm_chunk, &cds_lfht_mm_mmap };
static struct cds_lfht_mm_type wrap_mm[3];
static int kind_of(const struct cds_lfht *ht)
{
	int k;
	for (k = 0; k < 3; k++) if (ht->mm == &wrap_mm[k]) return k;
	ORACLE("harness: unknown mm"); die_oracle();
	return 0;
}
static void w_alloc_tbl(struct cds_lfht *ht, unsigned long order)
{
	cur_callocs = 0; cur_nmemb = 0;
	in_mm_alloc = 1;
	real_mm[kind_of(ht)]->alloc_bucket_table(ht, order);
	in_mm_alloc = 0;
	if (ht == ev_ht) ev_add(EV_ALLOC, order, cur_callocs, cur_nmemb);
}
static void w_free_tbl(struct cds_lfht *ht, unsigned long order)
{
	if (ht == ev_ht) ev_add(EV_FREE, order, 0, 0);
	real_mm[kind_of(ht)]->free_bucket_table(ht, order);
}
#define W_ALLOC_HT(K) \
static struct cds_lfht *w_alloc_ht_##K(unsigned long mn, unsigned long mx, const struct cds_lfht_alloc *al) \
{ struct cds_lfht *ht = real_mm[K]->alloc_cds_lfht(mn, mx, al); ht->mm = &wrap_mm[K]; \
  if (ev_track_next) { ev_track_next = 0; ev_ht = ht; } return ht; }
W_ALLOC_HT(0)
W_ALLOC_HT(1)
W_ALLOC_HT(2)
static void init_wrap_mm(void)
{
	int k;
	for (k = 0; k < 3; k++) {
		wrap_mm[k].alloc_bucket_table = w_alloc_tbl;
		wrap_mm[k].free_bucket_table = w_free_tbl;
		wrap_mm[k].bucket_at = real_mm[k]->bucket_at;
	}
	wrap_mm[0].alloc_cds_lfht = w_alloc_ht_0;
	wrap_mm[1].alloc_cds_lfht = w_alloc_ht_1;
	wrap_mm[2].alloc_cds_lfht = w_alloc_ht_2;
}

/* ---- wrapping flavor ------------------------------------------------------------------------- */
static __thread int t_registered;
static void f_read_lock(void) { if (!ev_suppress_rl) ev_add(EV_RL, 0, 1, 0); urcu_memb_read_lock(); }
static void f_sync(void) { ev_add(EV_SYNC, 0, 0, 0); urcu_memb_synchronize_rcu(); }
static void f_register(void) { if (!t_registered) { urcu_memb_register_thread(); t_registered = 2; } }
static void f_unregister(void) { if (t_registered == 2) { urcu_memb_unregister_thread(); t_registered = 0; } }
static struct rcu_flavor_struct wflavor;
static void init_flavor(void)
{
	wflavor = urcu_memb_flavor;
	wflavor.read_lock = f_read_lock;
	wflavor.update_synchronize_rcu = f_sync;
	wflavor.register_thread = f_register;
	wflavor.unregister_thread = f_unregister;
}

/* ---- keys -------------------------------------------------------------------------------------- */
struct knode { struct cds_lfht_node node; unsigned long key; int in; };
static unsigned long hash_key(unsigned long k)
{
	k ^= k >> 33; k *= 0xff51afd7ed558ccdUL; k ^= k >> 33; k *= 0xc4ceb9fe1a85ec53UL; k ^= k >> 33;
	return k;
}
static int match_key(struct cds_lfht_node *n, const void *key)
{
	return caa_container_of(n, struct knode, node)->key == *(const unsigned long *) key;
}
#define MAXKEYS 200000
static struct knode *keys;	/* keys[k].key == k */
static unsigned long nkeys_in;

static int do_add(struct cds_lfht *ht, unsigned long k)
{
	struct cds_lfht_node *r;
	cds_lfht_node_init(&keys[k].node);
	keys[k].key = k;
	urcu_memb_read_lock();
	r = cds_lfht_add_unique(ht, hash_key(k), match_key, &k, &keys[k].node);
	urcu_memb_read_unlock();
	if (r == &keys[k].node) { keys[k].in = 1; nkeys_in++; return 1; }
	return 0;
}
static int do_lookup(struct cds_lfht *ht, unsigned long k)
{
	struct cds_lfht_iter it;
	struct cds_lfht_node *n;
	urcu_memb_read_lock();
	cds_lfht_lookup(ht, hash_key(k), match_key, &k, &it);
	n = cds_lfht_iter_get_node(&it);
	urcu_memb_read_unlock();
	return n != NULL;
}
static int do_del(struct cds_lfht *ht, unsigned long k)
{
	struct cds_lfht_iter it;
	struct cds_lfht_node *n;
	int rc = -ENOENT;
	urcu_memb_read_lock();
	cds_lfht_lookup(ht, hash_key(k), match_key, &k, &it);
	n = cds_lfht_iter_get_node(&it);
	if (n) rc = cds_lfht_del(ht, n);
	urcu_memb_read_unlock();
	if (rc == 0) { keys[k].in = 0; nkeys_in--; }
	return rc;
}
static const char *chk_tag = "chk";
static void check_keys(struct cds_lfht *ht, unsigned long upto)
{
	unsigned long k, want = 0, found = 0;
	for (k = 0; k < upto; k++) {
		int f = do_lookup(ht, k);
		if (keys[k].in) want++;
		if (f) found++;
		if (f != keys[k].in)
			ORACLE("contents changed: key %lu %s after %s", k, f ? "appeared" : "lost", cur_op);
	}
	printf("%s %lu %lu\n", chk_tag, want, found);
}

/* second real thread: looks up resident keys while the main thread resizes (exploration only) */
static struct cds_lfht *volatile rd_ht;
static volatile unsigned long rd_lo, rd_hi;	/* keys in [lo,hi) are resident and stay so */
static volatile int rd_stop;
static volatile unsigned long rd_lookups;
static void *reader_thread(void *arg)
{
	(void) arg;
	urcu_memb_register_thread();
	while (!rd_stop) {
		struct cds_lfht *ht;
		unsigned long k;
		urcu_memb_read_lock();
		ht = rd_ht;
		if (ht && rd_hi > rd_lo) {
			struct cds_lfht_iter it;
			k = rd_lo + (rd_lookups * 2654435761UL) % (rd_hi - rd_lo);
			cds_lfht_lookup(ht, hash_key(k), match_key, &k, &it);
			if (!cds_lfht_iter_get_node(&it)) {
				urcu_memb_read_unlock();
				ORACLE("concurrent lookup missed resident key %lu during %s", k, cur_op);
				die_oracle();
			}
			rd_lookups++;
		}
		urcu_memb_read_unlock();
		if (!ht) (void) poll(NULL, 0, 1);
	}
	urcu_memb_unregister_thread();
	return NULL;
}
static void reader_attach(struct cds_lfht *ht, unsigned long lo, unsigned long hi)
{
	rd_lo = lo; rd_hi = hi; cmm_smp_mb(); rd_ht = ht;
}
static void reader_detach(void)
{
	rd_ht = NULL; cmm_smp_mb();
	urcu_memb_synchronize_rcu();	/* the reader no longer uses the table */
}

/* ---- helpers ----------------------------------------------------------------------------------- */
static int ispow2(unsigned long x) { return x && !(x & (x - 1)); }
static unsigned long ref_roundup(unsigned long x)
{	/* independent reference: smallest power of two >= x (x >= 1, x <= 2^63) */
	unsigned long p = 1;
	while (p < x) p <<= 1;
	return p;
}

static struct cds_lfht *new_table(int kind, unsigned long init, unsigned long minalloc, unsigned long max, int flags)
{
	struct cds_lfht *ht;
	nev = 0;
	ev_ht = NULL;
	ev_track_next = !quiet;
	ht = _cds_lfht_new_with_alloc(init, minalloc, max, flags, &wrap_mm[kind], &wflavor, &rec_alloc, NULL);
	ev_track_next = 0;
	return ht;
}

static void run_resize(struct cds_lfht *ht, unsigned long req, long budget_ms)
{
	unsigned long before = ht->size, want, max = ht->max_nr_buckets, c;
	snprintf(cur_op_buf, sizeof cur_op_buf, "cds_lfht_resize(size=%lu,max=%lu,req=%lu)", before, max, req);
	cur_op = cur_op_buf;
	nev = 0;
	wd_arm(budget_ms);
	cds_lfht_resize(ht, req);
	wd_disarm();
	c = req < 1 ? 1 : req; if (c > max) c = max;
	want = ref_roundup(c);
	if (ht->size != want)
		ORACLE("%s returned with size=%lu, expected %lu", cur_op, ht->size, want);
	if (!ispow2(ht->size) || ht->size > max)
		ORACLE("%s: size=%lu out of bounds (max %lu)", cur_op, ht->size, max);
	oracle_events(before, ht->size, 0);
	ev_print_clear();
	printf("resize %lu %lu\n", req, ht->size);
}

static void run_pending(struct cds_lfht *ht_or_null)
{	/* the harness plays the worker: oldest captured work first */
	unsigned long before = ht_or_null ? ht_or_null->size : 0;
	int i, was_destroy;
	struct urcu_work *w;
	void (*f)(struct urcu_work *);
	if (!npend) { if (!quiet) printf("work none\n"); return; }
	w = pend[0].work; f = pend[0].func;
	for (i = 1; i < npend; i++) pend[i - 1] = pend[i];
	npend--;
	was_destroy = (f == do_auto_resize_destroy_cb);
	nev = 0;
	wd_arm(20000);
	ev_suppress_rl = was_destroy;
	f(w);
	ev_suppress_rl = 0;
	wd_disarm();
	if (!was_destroy && ht_or_null) oracle_events(before, ht_or_null->size, 0);
	ev_print_clear();
	if (quiet) return;
	if (was_destroy) printf("work destroy 0\n");
	else printf("work resize %lu\n", ht_or_null->size);
}

static void destroy_table(struct cds_lfht *ht)
{
	canary_check_all("before destroy");
	int rc, auto_rs = ht->flags & CDS_LFHT_AUTO_RESIZE;
	nev = 0;
	ev_suppress_rl = 1;
	rc = cds_lfht_destroy(ht, NULL);
	ev_suppress_rl = 0;
	if (!auto_rs && rc == 0) ev_print_clear();	/* direct delete: events now */
	if (!quiet) printf("destroy %d\n", rc);
}

/* ------------------------------------------------------------------------------------------------
 * Section A: pure helpers, differential
 * ---------------------------------------------------------------------------------------------- */
static void sec_helpers(int thorough)
{
	unsigned long xs[512];
	int n = 0, i, k;
	static const unsigned long small[] = { 0, 1, 2, 3, 4, 5, 6, 7, 8, 9, 15, 16, 17, 31, 33, 255, 256, 257, 4095, 4096, 4097 };
	for (i = 0; i < (int) (sizeof small / sizeof small[0]); i++) xs[n++] = small[i];
	for (k = 5; k < 64; k += (thorough ? 1 : 3)) {
		xs[n++] = (1UL << k) - 1; xs[n++] = 1UL << k; xs[n++] = (1UL << k) + 1;
	}
	xs[n++] = (1UL << 63) - 1; xs[n++] = 1UL << 63; xs[n++] = (1UL << 63) + 1;
	xs[n++] = ~0UL; xs[n++] = ~0UL - 1;
	for (i = 0; i < (thorough ? 200 : 40); i++) xs[n++] = rnd() >> (rnd() % 64);
	printf("# section A: helpers\n");
	for (i = 0; i < n; i++) {
		int r = cds_lfht_get_count_order_ulong(xs[i]);
		printf("co %lu %d\n", xs[i], r);
		printf("fls %lu %u\n", xs[i], cds_lfht_fls_ulong(xs[i]));
		/* reference: least o with x <= 2^o */
		if (xs[i]) {
			int o = 0;
			while (o < 64 && (o == 64 ? 0 : (1UL << o)) < xs[i]) o++;
			if (o != r) ORACLE("get_count_order(%lu)=%d, reference %d", xs[i], r, o);
		} else if (r != -1) ORACLE("get_count_order(0)=%d", r);
	}
	/* resize_target_update_count on a table header with the given maximum */
	for (k = 0; k < 64; k += (thorough ? 1 : 5)) {
		struct cds_lfht fake;
		unsigned long max = 1UL << k, want, c;
		memset(&fake, 0, sizeof fake);
		fake.max_nr_buckets = max;
		for (i = 0; i < n; i++) {
			resize_target_update_count(&fake, xs[i]);
			printf("rtuc %lu %lu %lu\n", max, xs[i], fake.resize_target);
			c = xs[i] < 1 ? 1 : xs[i]; if (c > max) c = max;
			want = ref_roundup(c);
			(void) want;	/* the e2e oracle (hang / final size) judges; here only the differential */
		}
	}
}

/* ------------------------------------------------------------------------------------------------
 * Section A2: allocator parameters and bucket_at of each allocator
 * ---------------------------------------------------------------------------------------------- */
static int cmp_ptr(const void *a, const void *b)
{
	uintptr_t x = *(const uintptr_t *) a, y = *(const uintptr_t *) b;
	return x < y ? -1 : x > y;
}
static void probe_bucket_at(struct cds_lfht *ht, int kind)
{
	unsigned long size = ht->size, i, n = 0, idxs[256];
	uintptr_t *all;
	int k;
	/* sample */
	for (i = 0; i < 6 && i < size; i++) idxs[n++] = i;
	for (k = 0; k < 40; k++) {
		unsigned long p = 1UL << k;
		if (p - 1 < size) idxs[n++] = p - 1;
		if (p < size) idxs[n++] = p;
		if (p + 1 < size) idxs[n++] = p + 1;
	}
	if (ht->min_nr_alloc_buckets < size) { idxs[n++] = ht->min_nr_alloc_buckets; idxs[n++] = ht->min_nr_alloc_buckets - 1; }
	idxs[n++] = size - 1;
	for (k = 0; k < 12; k++) idxs[n++] = rnd() % size;
	for (i = 0; i < n; i++) {
		struct cds_lfht_node *p = ht->bucket_at(ht, idxs[i]);
		unsigned long slot = 0, off, len;
		volatile unsigned long touch = (unsigned long) p->next;	/* must be accessible */
		(void) touch;
		if (kind == K_MMAP && ht->min_nr_alloc_buckets != ht->max_nr_buckets) {
			off = p - ht->tbl_mmap; len = ht->max_nr_buckets; slot = 0;
		} else {
			struct region *r = reg_find(p);
			unsigned long s, nslots = kind == K_ORDER ? MAX_TABLE_ORDER :
				kind == K_CHUNK ? ht->max_nr_buckets / ht->min_nr_alloc_buckets : 1;
			if (!r || !r->live) { ORACLE("bucket_at(%s,%lu) outside any live allocation", kname[kind], idxs[i]); continue; }
			off = ((char *) p - r->p) / sizeof(struct cds_lfht_node);
			len = r->nmemb;
			slot = ~0UL;
			for (s = 0; s < nslots; s++) {
				void *base = kind == K_ORDER ? (void *) ht->tbl_order[s] :
					kind == K_CHUNK ? (void *) ht->tbl_chunk[s] : (void *) ht->tbl_mmap;
				if (base == (void *) r->p) { slot = s; break; }
			}
			if (slot == ~0UL) ORACLE("bucket_at(%s,%lu): allocation not referenced by the table", kname[kind], idxs[i]);
			if (off >= len) ORACLE("bucket_at(%s,%lu): offset %lu >= length %lu", kname[kind], idxs[i], off, len);
		}
		printf("ba %s %lu %lu %lu %lu %lu %lu %lu\n", kname[kind], ht->min_nr_alloc_buckets,
			ht->min_alloc_buckets_order, ht->max_nr_buckets, idxs[i], slot, off, len);
	}
	/* independent injectivity oracle over all indices */
	if (size <= (1UL << 18)) {
		all = malloc(size * sizeof *all);
		for (i = 0; i < size; i++) all[i] = (uintptr_t) ht->bucket_at(ht, i);
		qsort(all, size, sizeof *all, cmp_ptr);
		for (i = 1; i < size; i++)
			if (all[i] - all[i - 1] < sizeof(struct cds_lfht_node)) {
				ORACLE("bucket_at(%s) not injective / overlapping cells at size %lu", kname[kind], size);
				break;
			}
		free(all);
	}
}

static void print_new(struct cds_lfht *ht, int kind);
static void sec_mm(int thorough)
{
	static const unsigned long cfgs[][3] = {	/* init, minalloc, max */
		{ 1, 1, 1 }, { 1, 1, 2 }, { 1, 1, 64 }, { 4, 4, 64 }, { 1, 8, 4 }, { 2, 2, 1024 }, { 64, 16, 4096 },
		{ 1, 1, 1 << 16 }, { 16, 256, 1 << 15 }, { 1, 1024, 1 << 20 }, { 8, 1, 1 << 22 }, { 3, 1, 64 }, { 1, 3, 64 },
		{ 1, 1, 48 }, { 128, 1, 64 }, { 1, 1, 256 }, { 1, 1, 512 }, { 1, 512, 512 },
	};
	int nc = sizeof cfgs / sizeof cfgs[0], c, kind;
	printf("# section A2: allocators\n");
	printf("cfg pagebuckets %lu\n", (unsigned long) getpagesize() / sizeof(struct cds_lfht_node));
	for (kind = 0; kind < 3; kind++) {
		for (c = 0; c < nc; c++) {
			struct cds_lfht *ht = new_table(kind, cfgs[c][0], cfgs[c][1], cfgs[c][2], 0);
			unsigned long grow;
			if (!ht) { printf("mmp %s %lu %lu %lu null\n", kname[kind], cfgs[c][0], cfgs[c][1], cfgs[c][2]); continue; }
			printf("mmp %s %lu %lu %lu %lu %lu %lu %lu\n", kname[kind], cfgs[c][0], cfgs[c][1], cfgs[c][2],
				ht->min_nr_alloc_buckets, ht->min_alloc_buckets_order, ht->max_nr_buckets, ht->size);
			snprintf(cur_op_buf, sizeof cur_op_buf, "bucket_at probe %s init=%lu minalloc=%lu max=%lu", kname[kind], cfgs[c][0], cfgs[c][1], cfgs[c][2]);
			cur_op = cur_op_buf;
			print_new(ht, kind);
			probe_bucket_at(ht, kind);
			grow = ht->max_nr_buckets;
			if (grow > (thorough ? 1UL << 20 : 1UL << 16)) grow = thorough ? 1UL << 20 : 1UL << 16;
			if (grow != ht->size) {
				run_resize(ht, grow, 20000);
				probe_bucket_at(ht, kind);
			}
			if (ht->size > 1) { run_resize(ht, ht->size >> 1, 20000); probe_bucket_at(ht, kind); }
			run_resize(ht, 0, 20000);
			probe_bucket_at(ht, kind);
			destroy_table(ht);
			if (live_regions != 0) ORACLE("leak: %ld allocations live after destroying %s table", live_regions, kname[kind]);
			quarantine_release();
		}
	}
}

/* ------------------------------------------------------------------------------------------------
 * Section A3: partition splitting
 * ---------------------------------------------------------------------------------------------- */
struct prec { unsigned long start, len; int helper; };
static struct prec precs[1024];
static int nprec;
static pthread_mutex_t prec_mx = PTHREAD_MUTEX_INITIALIZER;
static pthread_t main_tid;
static void rec_fct(struct cds_lfht *ht, unsigned long i, unsigned long start, unsigned long len)
{
	(void) ht; (void) i;
	pthread_mutex_lock(&prec_mx);
	precs[nprec].start = start; precs[nprec].len = len;
	precs[nprec].helper = !pthread_equal(pthread_self(), main_tid);
	nprec++;
	pthread_mutex_unlock(&prec_mx);
}
static int cmp_prec(const void *a, const void *b)
{
	const struct prec *x = a, *y = b;
	if (x->helper != y->helper) return y->helper - x->helper;	/* helpers first */
	return x->start < y->start ? -1 : x->start > y->start;
}
static void sec_partition(int thorough)
{
	static const long masks[] = { -2, 0, 1, 3, 7, 15, 63 };
	struct cds_lfht *ht;
	long saved = nr_cpus_mask;
	static const int fails[] = { -1, 0, 1, 2, 3, 17 };
	int mi, lo, fa, fi, cf;
	printf("# section A3: partition_resize_helper\n");
	quiet = 1;
	ht = new_table(K_ORDER, 1, 1, 64, 0);
	main_tid = pthread_self();
	for (mi = 0; mi < (int) (sizeof masks / sizeof masks[0]); mi++) {
		for (lo = 10; lo <= (thorough ? 24 : 20); lo += (thorough ? 1 : 2)) {
			unsigned long len = 1UL << lo;
			for (cf = 0; cf < 2; cf++)
			for (fi = 0; fi < 6; fi++) {
				int j;
				unsigned long pos, cover_ok = 1;
				fa = fails[fi];
				if (cf && fa >= 0) continue;
				nr_cpus_mask = masks[mi];
				nprec = 0;
				create_count = 0; create_fail_at = fa;
				fail_next_calloc = cf;
				snprintf(cur_op_buf, sizeof cur_op_buf, "partition_resize_helper(mask=%ld,len=%lu,calloc_fail=%d,eagain_at=%d)", masks[mi], len, cf, fa);
				cur_op = cur_op_buf;
				wd_arm(20000);
				partition_resize_helper(ht, lo + 1, len, rec_fct);
				wd_disarm();
				create_fail_at = -1; fail_next_calloc = 0;
				nr_cpus_mask = saved;
				qsort(precs, nprec, sizeof precs[0], cmp_prec);
				printf("part %ld %lu %d %d", masks[mi], len, cf, fa);
				for (j = 0; j < nprec; j++) printf(" %s %lu %lu", precs[j].helper ? "H" : "F", precs[j].start, precs[j].len);
				printf("\n");
				/* oracle: sorted by start, the ranges tile [0,len) */
				{
					struct prec tmp[1024];
					int a, b;
					memcpy(tmp, precs, nprec * sizeof precs[0]);
					for (a = 0; a < nprec; a++) for (b = a + 1; b < nprec; b++)
						if (tmp[b].start < tmp[a].start) { struct prec t = tmp[a]; tmp[a] = tmp[b]; tmp[b] = t; }
					pos = 0;
					for (a = 0; a < nprec; a++) { if (tmp[a].start != pos) cover_ok = 0; pos += tmp[a].len; }
					if (pos != len) cover_ok = 0;
					if (!cover_ok) ORACLE("%s: ranges do not tile [0,len)", cur_op);
				}
			}
		}
	}
	destroy_table(ht);
	quarantine_release();
	quiet = 0;
}

/* ------------------------------------------------------------------------------------------------
 * Section B: lazy arithmetic, direct calls on a real table header (capture mode)
 * ---------------------------------------------------------------------------------------------- */
static void drop_pending(struct cds_lfht *ht)
{
	int i;
	for (i = 0; i < npend; i++)
		if (pend[i].func == do_resize_cb) ht->alloc->free(ht->alloc->state, pend[i].work);
	npend = 0;
}
static void sec_lazy(int thorough)
{
	int it, nit = thorough ? 6000 : 1200, flagsel;
	printf("# section B: lazy grow / lazy count / counters / check_resize\n");
	capture_mode = 1;
	quiet = 1;
	for (flagsel = 0; flagsel < 3; flagsel++) {
		int flags = flagsel == 0 ? (CDS_LFHT_AUTO_RESIZE | CDS_LFHT_ACCOUNTING) : flagsel == 1 ? CDS_LFHT_AUTO_RESIZE : CDS_LFHT_ACCOUNTING;
		int autof = !!(flags & CDS_LFHT_AUTO_RESIZE), acct = !!(flags & CDS_LFHT_ACCOUNTING);
		unsigned long maxo;
		for (maxo = 0; maxo < 64; maxo += (maxo < 8 ? 3 : 11)) {
			unsigned long max = 1UL << maxo;
			struct cds_lfht *ht = new_table(K_ORDER, 1, 1, max, flags);
			if (!ht) { ORACLE("harness: cannot create probe table max=%lu", max); continue; }
			printf("cfg splitmask %ld sco %d\n", split_count_mask, split_count_order);
			for (it = 0; it < nit / 12; it++) {
				unsigned long tgt = 1UL << (rnd() % (maxo + 1)), size = 1UL << (rnd() % (maxo + 1));
				unsigned long r = rnd(), cnt, tb;
				int sel = it % 5, q0;
				ht->resize_target = tgt; ht->resize_initiated = 0; ht->in_progress_destroy = 0;
				q0 = qw_resize;
				if (sel == 0) {
					int growth = rnd() % 33;
					snprintf(cur_op_buf, sizeof cur_op_buf, "cds_lfht_resize_lazy_grow(max=%lu,target=%lu,size=%lu,growth=%d)", max, tgt, size, growth);
					cur_op = cur_op_buf;
					cds_lfht_resize_lazy_grow(ht, size, growth);
					printf("lg %lu %lu %lu %d %lu %d\n", max, tgt, size, growth, ht->resize_target, qw_resize - q0);
				} else if (sel == 1) {
					unsigned long count = (r % 4 == 0) ? 0 : (r % 4 == 1) ? (1UL << (rnd() % 64)) : (r % 4 == 2) ? (1UL << (rnd() % (maxo + 1))) : size;
					snprintf(cur_op_buf, sizeof cur_op_buf, "cds_lfht_resize_lazy_count(max=%lu,target=%lu,size=%lu,count=%lu)", max, tgt, size, count);
					cur_op = cur_op_buf;
					cds_lfht_resize_lazy_count(ht, size, count);
					printf("lc %d %lu %lu %lu %lu %lu %d\n", autof, max, tgt, size, count, ht->resize_target, qw_resize - q0);
					/* oracle: a lazy request based on the node count may lower the target only if no grow is pending
					 * relative to the size its caller saw (target <= size); it never raises it above the clamped count */
					if (ht->resize_target < tgt && tgt > size)
						ORACLE("%s lowered resize_target %lu -> %lu although a grow was pending (target > caller's size)", cur_op, tgt, ht->resize_target);
					if (ht->resize_target > tgt && ht->resize_target > (count > max ? max : (count ? count : 1)))
						ORACLE("%s raised resize_target %lu -> %lu above the requested count", cur_op, tgt, ht->resize_target);
				} else if (sel == 2 || sel == 3) {
					/* ht_count_add / ht_count_del: all split counters set so that this call commits (or not) */
					unsigned long sc = (r % 3 == 0) ? (rnd() & 0xfffff) : ((rnd() & 0xfff) << COUNT_COMMIT_ORDER);
					long i2;
					if (!acct) continue;
					cnt = (r % 5 == 0) ? (0UL - (1UL << COUNT_COMMIT_ORDER) * (rnd() % 3))
						: (r % 5 == 1) ? (1UL << (rnd() % 64)) : (r % 5 == 2) ? ((1UL << (rnd() % 64)) - (1UL << COUNT_COMMIT_ORDER))
						: (r % 5 == 3) ? ((1UL << (rnd() % 64)) + (1UL << COUNT_COMMIT_ORDER)) : (rnd() & 0xffffff);
					if (sc == 0) sc = 1UL << COUNT_COMMIT_ORDER;
					for (i2 = 0; i2 <= split_count_mask; i2++) {
						ht->split_count[i2].add = sc - 1; ht->split_count[i2].del = sc - 1;
					}
					ht->count = (long) cnt;
					tb = tgt;
					snprintf(cur_op_buf, sizeof cur_op_buf, "%s(max=%lu,target=%lu,size=%lu,split_count->%lu,count=%lu)",
						sel == 2 ? "ht_count_add" : "ht_count_del", max, tgt, size, sc, cnt);
					cur_op = cur_op_buf;
					if (sel == 2) {
						ht_count_add(ht, size, rnd());
						printf("ca %d %lu %lu %lu %lu %lu %lu %lu %d\n", autof, max, sc, cnt, size, tb, (unsigned long) ht->count, ht->resize_target, qw_resize - q0);
					} else {
						ht_count_del(ht, size, rnd());
						printf("cd %d %lu %lu %lu %lu %lu %lu %lu %lu %d\n", autof, max, (unsigned long) split_count_mask, sc, cnt, size, tb, (unsigned long) ht->count, ht->resize_target, qw_resize - q0);
					}
				} else {
					uint32_t chain = (r % 3 == 0) ? (uint32_t) (rnd() % 8) : (r % 3 == 1) ? (uint32_t) (rnd() % 200) : (uint32_t) (rnd() >> (32 + rnd() % 32));
					cnt = (r % 4 == 0) ? (1UL << (COUNT_COMMIT_ORDER + split_count_order)) : (rnd() % (2UL << (COUNT_COMMIT_ORDER + split_count_order)));
					ht->count = (long) cnt;
					snprintf(cur_op_buf, sizeof cur_op_buf, "check_resize(max=%lu,target=%lu,size=%lu,chain_len=%u)", max, tgt, size, chain);
					cur_op = cur_op_buf;
					check_resize(ht, size, chain);
					printf("cr %d %d %d %lu %lu %lu %lu %u %lu %d\n", autof, acct, split_count_order, max, cnt, tgt, size, chain, ht->resize_target, qw_resize - q0);
				}
				if (!ispow2(ht->resize_target) || ht->resize_target > max)
					ORACLE("%s stored resize_target=%lu (not a power of two in [1,%lu])", cur_op, ht->resize_target, max);
				drop_pending(ht);
			}
			ht->resize_target = ht->size; ht->resize_initiated = 0; ht->count = 0;
			if (ht->split_count) memset(ht->split_count, 0, (split_count_mask + 1) * sizeof(struct ht_items_count));
			destroy_table(ht);
			while (npend) run_pending(NULL);
			quarantine_release();
		}
	}
	capture_mode = 0;
	quiet = 0;
}

/* ------------------------------------------------------------------------------------------------
 * Section C: end-to-end explicit resizes (all allocators), contents preserved, event order
 * ---------------------------------------------------------------------------------------------- */
static void print_new(struct cds_lfht *ht, int kind)
{
	printf("new %s %lu %lu %lu %lu %d %d\n", kname[kind], ht->min_nr_alloc_buckets, ht->min_alloc_buckets_order,
		ht->max_nr_buckets, ht->size, !!(ht->flags & CDS_LFHT_AUTO_RESIZE), !!(ht->flags & CDS_LFHT_ACCOUNTING));
	ev_print_clear();
	printf("created\n");
}

static void sec_e2e(int thorough)
{
	int kind, t;
	printf("# section C: explicit resize, end to end\n");
	/* directed: the requests of the property text against a 1-bucket table, max 64 */
	for (kind = 0; kind < 3; kind++) {
		static const unsigned long dreq[] = { 3, 1, 2, 5, 6, 7, 0, 64, 65, 63, 33, 4, 3, ~0UL, 31, 0, 1UL << 63, 9 };
		struct cds_lfht *ht = new_table(kind, 1, 1, 64, 0);
		unsigned i;
		unsigned long k;
		print_new(ht, kind);
		for (k = 0; k < 40; k++) printf("add %lu %d\n", k, do_add(ht, k));
		reader_attach(ht, 0, 40);
		for (i = 0; i < sizeof dreq / sizeof dreq[0]; i++) {
			run_resize(ht, dreq[i], 8000);
			check_keys(ht, 40);
		}
		reader_detach();
		for (k = 0; k < 40; k++) printf("del %lu %d\n", k, do_del(ht, k));
		destroy_table(ht);
		if (live_regions != 0) ORACLE("leak: %ld allocations live after destroy", live_regions);
		quarantine_release();
	}
	/* random sequences */
	for (t = 0; t < (thorough ? 60 : 9); t++) {
		unsigned long maxo = 1 + rnd() % (thorough ? 15 : 12), max = 1UL << maxo;
		unsigned long mino = rnd() % (maxo + 1), inito = rnd() % (maxo + 1);
		unsigned long nk = 0, k;
		int ops, nops = thorough ? 60 : 30;
		struct cds_lfht *ht;
		kind = t % 3;
		ht = new_table(kind, 1UL << inito, 1UL << mino, max, 0);
		if (!ht) { ORACLE("harness: table creation failed"); continue; }
		print_new(ht, kind);
		for (k = 0; k < 20; k++) printf("add %lu %d\n", k, do_add(ht, k));
		nk = 20;
		reader_attach(ht, 0, 20);
		for (ops = 0; ops < nops; ops++) {
			unsigned r = rnd() % 10;
			if (r < 5) {
				unsigned long req, sel = rnd() % 8;
				if (sel == 0) req = 0;
				else if (sel == 1) req = ~0UL;
				else if (sel == 2) req = max + (rnd() % 3);
				else if (sel == 3) req = 1UL << (rnd() % (maxo + 1));
				else if (sel == 4) req = (1UL << (rnd() % (maxo + 1))) + 1;
				else if (sel == 5) req = (1UL << (rnd() % (maxo + 1))) - 1;
				else req = rnd() % (2 * max);
				run_resize(ht, req, 20000);
				check_keys(ht, nk);
			} else if (r < 8 && nk < 2000) {
				printf("add %lu %d\n", nk, do_add(ht, nk)); nk++;
			} else if (nk > 20) {
				k = 20 + rnd() % (nk - 20);
				printf("del %lu %d\n", k, do_del(ht, k));
			}
		}
		reader_detach();
		for (k = 0; k < nk; k++) if (keys[k].in) printf("del %lu %d\n", k, do_del(ht, k));
		destroy_table(ht);
		if (live_regions != 0) ORACLE("leak: %ld allocations live after destroy", live_regions);
		quarantine_release();
	}
}

/* ------------------------------------------------------------------------------------------------
 * Section D: a table large enough for the multi-threaded partitioned populate / remove
 * ---------------------------------------------------------------------------------------------- */
static void sec_big(int thorough)
{
	int kind;
	printf("# section D: partitioned resize\n");
	printf("cfg nrcpusmask %ld\n", nr_cpus_mask);
	for (kind = 0; kind < 3; kind++) {
		unsigned long top = thorough ? 1UL << 18 : 1UL << 16, k, nk = 3000;
		struct cds_lfht *ht = new_table(kind, 1, 1, top, 0);
		print_new(ht, kind);
		for (k = 0; k < nk; k++) do_add(ht, k);
		printf("addrange 0 %lu\n", nk);
		reader_attach(ht, 0, nk);
		run_resize(ht, 16384, 30000);
		check_keys(ht, nk);
		run_resize(ht, top - 5, 60000);
		check_keys(ht, nk);
		/* EAGAIN while spawning the helpers of the last level */
		run_resize(ht, 4096, 60000);
		check_keys(ht, nk);
		run_resize(ht, 1, 60000);
		check_keys(ht, nk);
		reader_detach();
		for (k = 0; k < nk; k++) do_del(ht, k);
		printf("delrange 0 %lu\n", nk);
		destroy_table(ht);
		if (live_regions != 0) ORACLE("leak: %ld allocations live after destroy", live_regions);
		quarantine_release();
	}
}

/* ------------------------------------------------------------------------------------------------
 * Section E: AUTO_RESIZE | ACCOUNTING driven past the counter thresholds, real work queue
 * ---------------------------------------------------------------------------------------------- */
static unsigned long lost_launches;
static void settle(struct cds_lfht *ht)
{
	int spins = 0;
	while (uatomic_load(&ht->resize_initiated) || uatomic_load(&ht->resize_target) != uatomic_load(&ht->size)) {
		urcu_workqueue_flush_queued_work(cds_lfht_workqueue);
		if (++spins > 3) {
			/*
			 * Nothing queued, nothing running, yet resize_initiated == 1: the launcher stored the flag
			 * after the worker had already finished the work it queued (__cds_lfht_resize_lazy_launch
			 * queues first, stores afterwards).  Every later lazy request is then refused.  Liveness of
			 * automatic resizing is not part of C09; note it and unstick with an explicit resize so that
			 * the printed trace stays deterministic.
			 */
			lost_launches++;
			cds_lfht_resize(ht, uatomic_load(&ht->resize_target));
			spins = 0;
		}
	}
}
static void sec_auto(int thorough)
{
	unsigned long N = thorough ? 190000 : 150000, k, last_size, maxo = 17;
	struct cds_lfht *ht;
	long mask1;
	unsigned long lazy_grows = 0, lazy_shrinks = 0;
	printf("# section E: automatic resize by node counter and chain length\n");
	quiet = 1;	/* events are not compared here (asynchronous worker) */
	ht = new_table(K_ORDER, 1, 1, 1UL << maxo, CDS_LFHT_AUTO_RESIZE | CDS_LFHT_ACCOUNTING);
	quiet = 0;
	mask1 = split_count_mask + 1;
	printf("auto %lu %ld %d\n", ht->max_nr_buckets, split_count_mask, split_count_order);
	last_size = ht->size;
	snprintf(cur_op_buf, sizeof cur_op_buf, "automatic resize (adds)");
	cur_op = cur_op_buf;
	wd_arm(thorough ? 240000 : 120000);
	for (k = 0; k < N; k++) {
		unsigned long cnt0 = (unsigned long) ht->count, size0 = ht->size, tgt0 = ht->resize_target, sc_new = 0;
		unsigned long before[64];
		long i;
		for (i = 0; i < mask1 && i < 64; i++) before[i] = ht->split_count[i].add;
		do_add(ht, k);
		for (i = 0; i < mask1 && i < 64; i++)
			if (ht->split_count[i].add != before[i]) sc_new = ht->split_count[i].add;
		if (sc_new && !(sc_new & ((1UL << COUNT_COMMIT_ORDER) - 1))) {
			printf("cadd %lu %lu %lu %lu %lu %lu %lu\n", k, sc_new, cnt0, size0, tgt0, (unsigned long) ht->count, ht->resize_target);
		} else if (ht->resize_target != tgt0) {
			printf("sadd %lu %lu %lu %lu\n", k, size0, tgt0, ht->resize_target);
		}
		if (!ispow2(ht->resize_target) || ht->resize_target > ht->max_nr_buckets)
			ORACLE("automatic resize: resize_target=%lu after add #%lu", ht->resize_target, k);
		if (ht->resize_target != ht->size || ht->resize_initiated) {
			settle(ht);
			if (!ispow2(ht->size) || ht->size > ht->max_nr_buckets)
				ORACLE("automatic resize: size=%lu after add #%lu", ht->size, k);
			if (ht->size != last_size) {
				printf("asize %lu %lu %lu\n", k, ht->size, ht->resize_target);
				if (ht->size > last_size) lazy_grows++; else lazy_shrinks++;
				last_size = ht->size;
			}
		}
	}
	chk_tag = "achk"; check_keys(ht, N); chk_tag = "chk";
	snprintf(cur_op_buf, sizeof cur_op_buf, "automatic resize (dels)");
	for (k = 0; k < N; k++) {
		unsigned long cnt0 = (unsigned long) ht->count, size0 = ht->size, tgt0 = ht->resize_target, sc_new = 0;
		unsigned long before[64];
		struct cds_lfht_iter it;
		struct cds_lfht_node *n;
		long i;
		int rc = -1;
		for (i = 0; i < mask1 && i < 64; i++) before[i] = ht->split_count[i].del;
		urcu_memb_read_lock();
		cds_lfht_lookup(ht, hash_key(k), match_key, &k, &it);
		n = cds_lfht_iter_get_node(&it);
		if (n) rc = cds_lfht_del(ht, n);
		urcu_memb_read_unlock();
		if (rc) ORACLE("automatic resize: key %lu lost before its deletion", k);
		else { keys[k].in = 0; nkeys_in--; }
		for (i = 0; i < mask1 && i < 64; i++)
			if (ht->split_count[i].del != before[i]) sc_new = ht->split_count[i].del;
		if (sc_new && !(sc_new & ((1UL << COUNT_COMMIT_ORDER) - 1)))
			printf("cdel %lu %lu %lu %lu %lu %lu %lu\n", k, sc_new, cnt0, size0, tgt0, (unsigned long) ht->count, ht->resize_target);
		if (!ispow2(ht->resize_target) || ht->resize_target > ht->max_nr_buckets)
			ORACLE("automatic resize: resize_target=%lu after del #%lu", ht->resize_target, k);
		if (ht->resize_target != ht->size || ht->resize_initiated) {
			settle(ht);
			if (ht->size != last_size) {
				printf("asize %lu %lu %lu\n", k, ht->size, ht->resize_target);
				if (ht->size > last_size) lazy_grows++; else lazy_shrinks++;
				last_size = ht->size;
			}
		}
		if ((k & 1023) == 1023) urcu_memb_synchronize_rcu();
	}
	wd_disarm();
	urcu_memb_synchronize_rcu();
	settle(ht);
	printf("autofin %lu %lu %lu %lu\n", ht->size, ht->resize_target, lazy_grows, lazy_shrinks);
	/* coverage of my generator, not a property of the library: when the library's lazy-launch race (DESIGN 10.4, observation) hits,
	 * resize_initiated stays set with nothing queued and the counter-driven shrink never happens in this run - a note, never an alarm */
	if (!lazy_grows || !lazy_shrinks) { fflush(stdout); fprintf(stderr, "NOTE automatic resize did not both grow and shrink in this run (grows=%lu shrinks=%lu)\n", lazy_grows, lazy_shrinks); }
	{
		int rc = cds_lfht_destroy(ht, NULL);
		urcu_workqueue_flush_queued_work(cds_lfht_workqueue);
		printf("adestroy %d %ld\n", rc, live_regions);
		if (live_regions != 0) ORACLE("leak: %ld allocations live after destroying the automatic table", live_regions);
	}
	quarantine_release();
}

/* Section A2: header / chunk-pointer storage of every allocator when the table reaches its top order: min_alloc 1 and max 128 or 256
 * give more chunk pointers than fit the padding of struct cds_lfht (the chunk allocator sizes its header by nr_chunks) */
static void sec_header_bounds(void)
{
	static const unsigned long maxes[3] = { 128, 256, 1024 };
	static const unsigned long reqs[6] = { 100, 128, 1000, ~0UL, 64, 1 };
	int kind, m, q;
	printf("# section A2: allocator header bounds at the top order\n");
	for (kind = 0; kind < 3; kind++) for (m = 0; m < 3; m++) {
		struct cds_lfht *ht;
		unsigned long k;
		quiet = 1;
		ht = new_table(kind, 1, 1, maxes[m], 0);
		snprintf(cur_op_buf, sizeof cur_op_buf, "%s table min_alloc=1 max=%lu grown to its top order", kname[kind], maxes[m]);
		cur_op = cur_op_buf;
		for (k = 0; k < 200; k++) do_add(ht, k);
		for (q = 0; q < 6; q++) {
			wd_arm(30000);
			cds_lfht_resize(ht, reqs[q]);
			wd_disarm();
			canary_check_all("after cds_lfht_resize");
			chk_tag = "# a2chk"; check_keys(ht, 200); chk_tag = "chk";
		}
		for (k = 0; k < 200; k++) do_del(ht, k);
		urcu_memb_synchronize_rcu();
		destroy_table(ht);
		quiet = 0;
		quarantine_release();
	}
}

/* Section E2: a table WITHOUT CDS_LFHT_AUTO_RESIZE (flags 0 and ACCOUNTING only) never resizes by itself and never queues
 * resize work, whatever its node count does (the counter passes powers of two >= 1024 * #split counters both ways). */
static void sec_noauto(void)
{
	static const int fl[2] = { 0, CDS_LFHT_ACCOUNTING };
	unsigned long N = 40000, k;
	int v;
	printf("# section E2: no automatic resize without CDS_LFHT_AUTO_RESIZE\n");
	for (v = 0; v < 2; v++) {
		struct cds_lfht *ht;
		int q0 = qw_resize, rc;
		quiet = 1;
		ht = new_table(K_ORDER, 4096, 1, 1UL << 17, fl[v]);
		quiet = 0;
		snprintf(cur_op_buf, sizeof cur_op_buf, "table without AUTO_RESIZE (flags=%d): %lu adds then dels", fl[v], N);
		cur_op = cur_op_buf;
		wd_arm(60000);
		capture_mode = 1;	/* a wrongly launched resize is captured, not run on a NULL work queue */
		for (k = 0; k < N; k++) do_add(ht, k);
		for (k = 0; k < N; k++) {
			struct cds_lfht_iter it;
			struct cds_lfht_node *n;
			rc = -1;
			urcu_memb_read_lock();
			cds_lfht_lookup(ht, hash_key(k), match_key, &k, &it);
			n = cds_lfht_iter_get_node(&it);
			if (n) rc = cds_lfht_del(ht, n);
			urcu_memb_read_unlock();
			if (rc) ORACLE("%s: key %lu lost before its deletion", cur_op, k);
			else { keys[k].in = 0; nkeys_in--; }
			if ((k & 4095) == 4095) urcu_memb_synchronize_rcu();
		}
		capture_mode = 0;
		wd_disarm();
		if (qw_resize != q0 || npend)
			ORACLE("%s: %d resize work item(s) were queued although the table was created without CDS_LFHT_AUTO_RESIZE "
			       "(resize_target=%lu size=%lu)", cur_op, qw_resize - q0 + npend, ht->resize_target, ht->size);
		if (ht->size != 4096) ORACLE("%s: size changed to %lu", cur_op, ht->size);
		while (npend) run_pending(ht);
		printf("# e2 flags=%d queued=%d size=%lu\n", fl[v], qw_resize - q0, ht->size);
		urcu_memb_synchronize_rcu();
		quiet = 1;
		destroy_table(ht);
		quiet = 0;
		quarantine_release();
	}
}

/* ------------------------------------------------------------------------------------------------
 * Section F: destroy with resizes still queued
 * ---------------------------------------------------------------------------------------------- */
static void sec_destroy(int thorough)
{
	int v, kind;
	printf("# section F: destroy with queued resize work\n");
	/* deterministic: the harness is the worker (capture mode) */
	capture_mode = 1;
	for (v = 0; v < 4; v++) for (kind = 0; kind < 3; kind++) {
		struct cds_lfht *ht = new_table(kind, v == 3 ? 8 : 1, 1, 1024, CDS_LFHT_AUTO_RESIZE);
		int q0;
		print_new(ht, kind);
		snprintf(cur_op_buf, sizeof cur_op_buf, "destroy with queued resize (variant %d, %s)", v, kname[kind]);
		cur_op = cur_op_buf;
		q0 = qw_resize;
		if (v == 3) {
			cds_lfht_resize_lazy_count(ht, ht->size, 2);
			printf("lcount %lu %lu %lu %d\n", (unsigned long) 8, (unsigned long) 2, ht->resize_target, qw_resize - q0);
		} else {
			cds_lfht_resize_lazy_grow(ht, 1, 5);
			printf("lgrow %lu %d %lu %d\n", (unsigned long) 1, 5, ht->resize_target, qw_resize - q0);
		}
		if (v == 1 || v == 3) run_pending(ht);		/* the resize runs first, then destroy */
		if (v == 2) {	/* a second request while the first work is still queued: no second work */
			q0 = qw_resize;
			cds_lfht_resize_lazy_grow(ht, 1, 7);
			printf("lgrow %lu %d %lu %d\n", (unsigned long) 1, 7, ht->resize_target, qw_resize - q0);
		}
		destroy_table(ht);
		while (npend) run_pending(ev_ht);
		if (live_regions != 0) ORACLE("leak: %ld allocations live after %s", live_regions, cur_op);
		quarantine_release();
	}
	capture_mode = 0;
	/* real work queue: worker paused, resize work queued, destroy queued behind it, worker resumed */
	for (v = 0; v < (thorough ? 40 : 8); v++) {
		struct cds_lfht *ht;
		int rc, pause = v & 1;
		quiet = 1;
		ht = new_table(v % 3, 1, 1, 4096, CDS_LFHT_AUTO_RESIZE);
		quiet = 0;
		snprintf(cur_op_buf, sizeof cur_op_buf, "destroy behind queued resize work (real work queue, run %d)", v);
		cur_op = cur_op_buf;
		wd_arm(30000);
		if (pause) urcu_workqueue_pause_worker(cds_lfht_workqueue);
		cds_lfht_resize_lazy_grow(ht, 1, 6 + v % 5);
		rc = cds_lfht_destroy(ht, NULL);
		if (pause) urcu_workqueue_resume_worker(cds_lfht_workqueue);
		urcu_workqueue_flush_queued_work(cds_lfht_workqueue);
		wd_disarm();
		printf("rdestroy %d %ld\n", rc, live_regions);
		if (rc) ORACLE("%s: cds_lfht_destroy returned %d on an empty table", cur_op, rc);
		if (live_regions != 0) ORACLE("%s: %ld allocations still live (work ran after the table was freed, or leak)", cur_op, live_regions);
		quarantine_release();
	}
}

/* Section F3: an AUTO_RESIZE table created with the caller's pthread_attr_t (owning heap state: an affinity mask), destroyed
 * (empty) while a lazy resize is in flight past its in_progress_destroy test; cds_lfht_destroy() hands the attributes back,
 * the caller destroys them: helper threads of the in-flight resize must not be created with them any more. */
static void sec_destroy_attr(void)
{
	pthread_attr_t at, *out = NULL;
	cpu_set_t cs;
	struct cds_lfht *ht;
	struct timespec ts;
	int rc, i;
	printf("# section F3: destroy hands the caller's thread attributes back while a resize is in flight\n");
	snprintf(cur_op_buf, sizeof cur_op_buf, "destroy(attr) with a resize in flight");
	cur_op = cur_op_buf;
	sem_init(&park_reached, 0, 0); sem_init(&park_release, 0, 0);
	pthread_attr_init(&at);
	CPU_ZERO(&cs);
	for (i = 0; i < 16; i++) CPU_SET(i, &cs);
	pthread_attr_setaffinity_np(&at, sizeof cs, &cs);
	quiet = 1;
	nev = 0; ev_ht = NULL; ev_track_next = 0;
	ht = _cds_lfht_new_with_alloc(1, 1, 1UL << 16, CDS_LFHT_AUTO_RESIZE, &wrap_mm[0], &wflavor, &rec_alloc, &at);
	wd_arm(60000);
	park_big_calloc = 1;
	cds_lfht_resize_lazy_grow(ht, 1, 15);
	clock_gettime(CLOCK_REALTIME, &ts); ts.tv_sec += 20;
	if (sem_timedwait(&park_reached, &ts)) {
		printf("# f3 inconclusive: the resize worker did not reach a large bucket allocation\n");
		park_big_calloc = 0;
	} else {
		rc = cds_lfht_destroy(ht, &out);
		if (rc) ORACLE("%s: cds_lfht_destroy returned %d on an empty table", cur_op, rc);
		if (out != &at) ORACLE("%s: cds_lfht_destroy did not hand back the attributes given at creation", cur_op);
		pthread_attr_destroy(&at);
		memset(&at, 0x5a, sizeof at);
		attr_handed_back = 1;
		sem_post(&park_release);
	}
	urcu_workqueue_flush_queued_work(cds_lfht_workqueue);
	wd_disarm();
	if (attr_late_creates_with_attr)
		ORACLE("%s: %d of %d resize helper threads were created with the thread attributes AFTER cds_lfht_destroy() had handed them back "
		       "to the caller (who destroyed them)", cur_op, attr_late_creates_with_attr, attr_late_creates);
	printf("# f3 late_creates=%s with_attr=%d live=%ld\n", attr_late_creates ? "some" : "none", attr_late_creates_with_attr, live_regions);
	if (live_regions != 0) ORACLE("%s: %ld allocations still live", cur_op, live_regions);
	attr_handed_back = 0;
	quiet = 0;
	quarantine_release();
}

/* ------------------------------------------------------------------------------------------------
 * Section G: concurrent exploration (oracle only, nothing deterministic is printed but a summary)
 * ---------------------------------------------------------------------------------------------- */
static struct cds_lfht *volatile g_ht;
static volatile int g_stop;
static void *resizer_thread(void *arg)
{
	uint64_t s = (uintptr_t) arg * 0x9E3779B97F4A7C15ULL + 77;
	urcu_memb_register_thread();
	while (!g_stop) {
		unsigned long req;
		s ^= s << 13; s ^= s >> 7; s ^= s << 17;
		req = (s >> 8) % 9000;
		cds_lfht_resize(g_ht, req);
		if (!ispow2(g_ht->size) || g_ht->size > g_ht->max_nr_buckets) {
			ORACLE("concurrent resizes: size=%lu", g_ht->size); die_oracle();
		}
	}
	urcu_memb_unregister_thread();
	return NULL;
}
static void sec_conc(int thorough)
{
	pthread_t th[3];
	unsigned long k, nk = 600, rounds = thorough ? 4000 : 500, r;
	struct cds_lfht *ht;
	int i;
	printf("# section G: concurrent exploration\n");
	quiet = 1;
	ht = new_table(K_ORDER, 4, 1, 8192, CDS_LFHT_AUTO_RESIZE | CDS_LFHT_ACCOUNTING);
	quiet = 0;
	snprintf(cur_op_buf, sizeof cur_op_buf, "concurrent cds_lfht_resize x2 + lazy resizes + add/del + lookups");
	cur_op = cur_op_buf;
	for (k = 0; k < nk; k++) do_add(ht, k);
	reader_attach(ht, 0, nk);
	g_ht = ht; g_stop = 0;
	wd_arm(thorough ? 240000 : 60000);
	for (i = 0; i < 2; i++) pthread_create(&th[i], NULL, resizer_thread, (void *) (uintptr_t) (i + 1 + rng_s % 1000));
	for (r = 0; r < rounds; r++) {
		unsigned long a = nk + (rnd() % 400);
		if (!keys[a].in) do_add(ht, a);
		else {
			struct cds_lfht_iter it; struct cds_lfht_node *n;
			urcu_memb_read_lock();
			cds_lfht_lookup(ht, hash_key(a), match_key, &a, &it);
			n = cds_lfht_iter_get_node(&it);
			if (n && !cds_lfht_del(ht, n)) { keys[a].in = 0; nkeys_in--; }
			urcu_memb_read_unlock();
			urcu_memb_synchronize_rcu();
		}
		if (!ispow2(ht->size) || ht->size > ht->max_nr_buckets || !ispow2(ht->resize_target) || ht->resize_target > ht->max_nr_buckets) {
			ORACLE("concurrent: size=%lu target=%lu", ht->size, ht->resize_target); die_oracle();
		}
	}
	g_stop = 1;
	for (i = 0; i < 2; i++) pthread_join(th[i], NULL);
	urcu_workqueue_flush_queued_work(cds_lfht_workqueue);
	wd_disarm();
	for (k = 0; k < nk + 400; k++) {
		int f = do_lookup(ht, k);
		if (f != keys[k].in) ORACLE("concurrent: key %lu %s", k, f ? "appeared" : "lost");
	}
	reader_detach();
	for (k = 0; k < nk + 400; k++) if (keys[k].in) do_del(ht, k);
	{
		int rc = cds_lfht_destroy(ht, NULL);
		urcu_workqueue_flush_queued_work(cds_lfht_workqueue);
		if (rc || live_regions != 0) ORACLE("concurrent: destroy rc=%d live=%ld", rc, live_regions);
	}
	quarantine_release();
	printf("conc done\n");
}

/* ------------------------------------------------------------------------------------------------
 * Section L (informational, not a property of C09): __cds_lfht_resize_lazy_launch queues the resize work
 * and only afterwards stores resize_initiated = 1.  If the worker completes the work in between (here: the
 * shim makes the launcher wait for the work queue right after queueing, as if it had been preempted), the
 * flag stays 1 with nothing queued and automatic resizing stops until an explicit cds_lfht_resize().
 * ---------------------------------------------------------------------------------------------- */
static void sec_lostlaunch(void)
{
	struct cds_lfht *ht;
	unsigned long k, n = 3000;
	printf("# section L: lazy launch ordering (informational)\n");
	quiet = 1;
	ht = new_table(K_ORDER, 1, 1, 1UL << 16, CDS_LFHT_AUTO_RESIZE);
	quiet = 0;
	snprintf(cur_op_buf, sizeof cur_op_buf, "lazy launch ordering demonstration");
	cur_op = cur_op_buf;
	wd_arm(60000);
	sync_worker_mode = 1;
	for (k = 0; k < n; k++) do_add(ht, k);
	sync_worker_mode = 0;
	urcu_workqueue_flush_queued_work(cds_lfht_workqueue);
	printf("note lostlaunch adds %lu size %lu target %lu initiated %d\n", n, ht->size, ht->resize_target, ht->resize_initiated);
	if (ht->resize_initiated && ht->size != ht->resize_target)
		fprintf(stderr, "NOTE lazy launch lost (launcher delayed between queue_work and resize_initiated=1): after %lu adds size=%lu, resize_target=%lu, resize_initiated=1, no work queued; automatic resizing is off until an explicit cds_lfht_resize()\n",
			n, ht->size, ht->resize_target);
	cds_lfht_resize(ht, ht->resize_target);
	for (k = 0; k < n; k++) {
		if (!do_lookup(ht, k)) ORACLE("lazy launch demonstration: key %lu lost", k);
		do_del(ht, k);
	}
	wd_disarm();
	{
		int rc = cds_lfht_destroy(ht, NULL);
		urcu_workqueue_flush_queued_work(cds_lfht_workqueue);
		if (rc || live_regions != 0) ORACLE("lazy launch demonstration: destroy rc=%d live=%ld", rc, live_regions);
	}
	quarantine_release();
}

int main(int argc, char **argv)
{
	unsigned long seed = argc > 1 ? strtoul(argv[1], 0, 0) : 1;
	int thorough = argc > 2 && !strcmp(argv[2], "thorough");
	const char *only = argc > 3 ? argv[3] : "";
	pthread_t wd, rd;
	int i;
	cpu_set_t cs;
	rng_s = seed * 0x9E3779B97F4A7C15ULL + 0x1234567;
	for (i = 0; i < 5; i++) rnd();
	setvbuf(stdout, NULL, _IOFBF, 1 << 16);
	signal(SIGSEGV, on_segv); signal(SIGBUS, on_segv); signal(SIGABRT, on_segv);
	keys = calloc(MAXKEYS, sizeof *keys);
	printf("# seed %lu\n", seed);
	init_wrap_mm(); init_flavor();
	urcu_memb_register_thread(); t_registered = 1;
	pthread_create(&wd, NULL, wd_thread, NULL);
	pthread_create(&rd, NULL, reader_thread, NULL);
	/* nr_cpus_mask is initialised by the first table creation */
	{
		struct cds_lfht *ht;
		quiet = 1;
		ht = new_table(K_ORDER, 1, 1, 1, CDS_LFHT_AUTO_RESIZE | CDS_LFHT_ACCOUNTING);
		destroy_table(ht);
		urcu_workqueue_flush_queued_work(cds_lfht_workqueue);
		quarantine_release();
		quiet = 0;
		printf("cfg nrcpusmask %ld splitmask %ld sco %d\n", nr_cpus_mask, split_count_mask, split_count_order);
	}
	/* one CPU for the main thread (after the library's worker thread exists, so that it is not confined too):
	 * the split-counter index is then constant */
	CPU_ZERO(&cs); CPU_SET(sched_getcpu() >= 0 ? sched_getcpu() : 0, &cs);
	(void) sched_setaffinity(0, sizeof cs, &cs);
	if (!*only || strchr(only, 'C')) sec_e2e(thorough);		/* first: directed requests of the property */
	if (!*only || strchr(only, 'A')) { sec_helpers(thorough); sec_mm(thorough); sec_partition(thorough); sec_header_bounds(); }
	if (!*only || strchr(only, 'B')) sec_lazy(thorough);
	if (!*only || strchr(only, 'D')) sec_big(thorough);
	if (!*only || strchr(only, 'F')) { sec_destroy(thorough); sec_destroy_attr(); }
	if (!*only || strchr(only, 'E')) { sec_auto(thorough); sec_noauto(); }
	if (!*only || strchr(only, 'G')) sec_conc(thorough);
	if (!*only || strchr(only, 'L')) sec_lostlaunch();
	rd_stop = 1;
	pthread_join(rd, NULL);
	printf("# reader lookups %s\n", rd_lookups > 0 ? "some" : "none");
	if (lost_launches)
		fprintf(stderr, "NOTE lost lazy launch observed %lu time(s): resize_initiated stayed 1 with no work queued (unstuck by an explicit cds_lfht_resize)\n", lost_launches);
	fflush(stdout);
	if (oracle_fail) return 3;
	return 0;
}
