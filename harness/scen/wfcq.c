/*
 * C10 / C17 tie for cds_wfcq: the REAL src/wfcqueue.c (exported wrappers) and
 * include/urcu/static/wfcqueue.h (static inlines) compiled under the macro shim.
 *
 * Threads: 1-4 enqueuers (either queue, also empty()), 1-2 consumers (dequeue blocking /
 * non-blocking with state, splice both directions blocking / non-blocking, first/next iteration,
 * empty()).  Mutual exclusion of the consumer operations: --mode locked (the queue's mutex:
 * cds_wfcq_dequeue_blocking / cds_wfcq_splice_blocking / cds_wfcq_dequeue_lock + __cds_wfcq_*) or
 * --mode single (one consumer thread, __cds_wfcq_* without any lock).
 * Nodes are re-used after they were dequeued.  Names: q1h/q1t/q1lock, q2h/q2t/q2lock, n3, n4, ...
 *
 * Independent oracle (plain C, no model): a reference FIFO per queue that is updated inside the
 * xchg of the tail pointers (the harness is sequentially consistent, so the event order is the
 * linearisation order) and checked at every return:
 *   fifo      dequeue/first/next return exactly the reference head / successor
 *   null      NULL / SRC_EMPTY / empty()==true only if the queue was empty at some instant of the call,
 *             and never when it was non-empty during the whole call (blocking and non-blocking)
 *   retval    enqueue's "was non-empty", splice's DEST_(NON_)EMPTY, CDS_WFCQ_STATE_LAST
 *   wouldblock  only while an enqueue/splice-append is between its xchg and its link store
 *   conserve  at quiescence: everything enqueued was dequeued exactly once (final drain), lists empty
 *   progress  (--c17) solo runs with every other thread frozen: enqueue / empty / non-blocking
 *             operations finish within the step bound with zero spin hints
 */
#include "vrt_shim.h"

static void orc_xchg(void *addr, unsigned long nv, unsigned long old);
static void orc_store(void *addr, unsigned long v);
static void orc_cas(void *addr, unsigned long expected, unsigned long nv, unsigned long old);

/* same overrides as the shim, plus an oracle hook after the access (no extra scheduling point) */
#undef uatomic_xchg_mo
#define uatomic_xchg_mo(addr, v, mo) __extension__ ({					\
	__typeof__(addr) _vp = (addr);							\
	__typeof__(*_vp) _nv = (v);							\
	vrt_in_prim++; vrt_point();							\
	__auto_type _o = __atomic_exchange_n(_vp, _nv, __ATOMIC_SEQ_CST);		\
	vrt_log("XCHG %s %s %s %d", VRT_L(_vp), vrt_val(VRT_U(_nv)), vrt_val(VRT_U(_o)), (int)(mo)); \
	vrt_in_prim--; orc_xchg((void *)_vp, VRT_U(_nv), VRT_U(_o)); _o; })

#undef uatomic_store_mo
#define uatomic_store_mo(addr, v, mo) do {						\
	__typeof__(addr) _vp = (addr);							\
	__typeof__(*_vp) _sv = (v);							\
	vrt_in_prim++; vrt_point();							\
	__atomic_store_n(_vp, _sv, __ATOMIC_SEQ_CST);					\
	vrt_log("ST %s %s %d", VRT_L(_vp), vrt_val(VRT_U(_sv)), (int)(mo));		\
	vrt_in_prim--; orc_store((void *)_vp, VRT_U(_sv)); } while (0)

#undef uatomic_cmpxchg_mo
#define uatomic_cmpxchg_mo(addr, old, _new, mos, mof) __extension__ ({			\
	__typeof__(addr) _vp = (addr);							\
	__typeof__(*_vp) _e = (old);							\
	__typeof__(*_vp) _ee = _e;							\
	__typeof__(*_vp) _n = (_new);							\
	vrt_in_prim++; vrt_point();							\
	__atomic_compare_exchange_n(_vp, &_e, _n, 0, __ATOMIC_SEQ_CST, __ATOMIC_SEQ_CST); \
	vrt_log("CAS %s %s %s %s %d %d", VRT_L(_vp), vrt_val(VRT_U(_ee)), vrt_val(VRT_U(_n)), \
		vrt_val(VRT_U(_e)), (int)(mos), (int)(mof));				\
	vrt_in_prim--; orc_cas((void *)_vp, VRT_U(_ee), VRT_U(_n), VRT_U(_e)); _e; })

#ifdef NO_LEGACY_MB	/* the other supported build configuration (configure --disable-legacy-mb) */
#undef cmm_emit_legacy_smp_mb
#define cmm_emit_legacy_smp_mb() do { } while (0)
#endif

#include "wfcqueue.c"		/* real wrappers + the real static inlines they are made of */

#define MAXN 64
#define MAXE 4
#define MAXC 2

static struct cds_wfcq_head H[2];
static struct cds_wfcq_tail TL[2];
static struct cds_wfcq_node ND[MAXN];

static int nenq = 2, ncons = 1, eops = 6, cops = 12, nnodes = 12, single, c17, park;

/* ---- oracle state (not part of the traced program) ---------------------------------------- */
enum { N_FREE, N_TAKEN, N_INQ, N_LIMBO };
static int nstate[MAXN];
static int olist[2][4 * MAXN], olen[2];		/* reference FIFO per queue (node indices) */
static int limbo[2][4 * MAXN], llen[2];		/* taken out of source q by a splice, not yet appended */
static unsigned long became_empty[2], became_nonempty[2], xchg_cnt[2];
static int inflight[2];				/* appends between xchg and link store, per destination queue */
static int pend_q[VRT_MAXT];			/* queue this thread has an append in flight on (+1), 0 = none */
static int last_enq_was_nonempty[VRT_MAXT];	/* reference answer for the thread's last append */
static long n_enq, n_deq;
static int cas_popped[VRT_MAXT];		/* node (+1) this thread's last-node dequeue removed at its cmpxchg */
static int in_solo;

static int node_idx(unsigned long v)
{
	struct cds_wfcq_node *p = (struct cds_wfcq_node *)v;
	if (p >= ND && p < ND + MAXN)
		return (int)(p - ND);
	return -1;
}

static void o_push(int q, int n)
{
	if (olen[q] == 0)
		became_nonempty[q]++;
	olist[q][olen[q]++] = n;
}

static void orc_xchg(void *addr, unsigned long nv, unsigned long old)
{
	int q, t = vrt_self(), i;
	(void)old;
	for (q = 0; q < 2; q++) {
		if (addr != (void *)&TL[q].p)
			continue;
		xchg_cnt[q]++;
		if (nv == (unsigned long)&H[q].node) {
			/* splice, source side: the whole content leaves the queue */
			for (i = 0; i < olen[q]; i++) {
				limbo[q][llen[q]++] = olist[q][i];
				nstate[olist[q][i]] = N_LIMBO;
			}
			if (olen[q])
				became_empty[q]++;
			olen[q] = 0;
		} else if (llen[1 - q] && node_idx(nv) >= 0 && nstate[node_idx(nv)] == N_LIMBO) {
			/* splice, destination side: append the limbo chain of the other queue in order */
			last_enq_was_nonempty[t] = olen[q] != 0;
			for (i = 0; i < llen[1 - q]; i++) {
				nstate[limbo[1 - q][i]] = N_INQ;
				o_push(q, limbo[1 - q][i]);
			}
			llen[1 - q] = 0;
			inflight[q]++;
			pend_q[t] = q + 1;
		} else if (node_idx(nv) >= 0) {
			int n = node_idx(nv);
			if (nstate[n] != N_TAKEN)
				vrt_fail("dup", "n%d enqueued while in state %d", n + 3, nstate[n]);
			last_enq_was_nonempty[t] = olen[q] != 0;
			nstate[n] = N_INQ;
			o_push(q, n);
			n_enq++;
			inflight[q]++;
			pend_q[t] = q + 1;
			/* park the enqueuer between its xchg and its link store */
			if (park && !in_solo && (int)(vrt_rand() % 100) < park)
				vrt_sleep(1 + vrt_rand() % 60);
		}
	}
}

static void orc_store(void *addr, unsigned long v)
{
	int t = vrt_self();
	(void)addr;
	/* the link store of an append: the only store of a thread that has an append in flight */
	if (pend_q[t] && v != 0) {
		inflight[pend_q[t] - 1]--;
		pend_q[t] = 0;
	}
}

static void o_pop_front(int q);

/* the last-node dequeue takes effect at its successful cmpxchg of the tail */
static void orc_cas(void *addr, unsigned long expected, unsigned long nv, unsigned long old)
{
	int q;
	for (q = 0; q < 2; q++)
		if (addr == (void *)&TL[q].p && old == expected && nv == (unsigned long)&H[q].node) {
			int n = node_idx(expected);
			if (n < 0 || olen[q] != 1 || olist[q][0] != n)
				vrt_fail("fifo", "dequeue reset the tail of q%d from %s but the reference queue is not exactly that node (len %d)",
					 q + 1, vrt_val(expected), olen[q]);
			else {
				o_pop_front(q);
				cas_popped[vrt_self()] = n + 1;
			}
		}
}

/* ---- per-call oracle context --------------------------------------------------------------- */
struct cctx { int q, len0, infl0; unsigned long be, bne, xc; };

static void c_begin(struct cctx *c, int q)
{
	c->q = q; c->len0 = olen[q]; c->infl0 = inflight[0] + inflight[1];
	c->be = became_empty[q]; c->bne = became_nonempty[q]; c->xc = xchg_cnt[0] + xchg_cnt[1];
}
static int c_was_empty(struct cctx *c) { return c->len0 == 0 || became_empty[c->q] != c->be; }
static int c_was_nonempty(struct cctx *c) { return c->len0 != 0 || became_nonempty[c->q] != c->bne; }
/* an append (enqueue or splice destination side) was between its xchg and its link store at some instant of the
 * call; counted over both queues because a splice may have moved the node whose link is missing */
static int c_inflight(struct cctx *c) { return c->infl0 > 0 || xchg_cnt[0] + xchg_cnt[1] != c->xc; }

static const char *pv(struct cds_wfcq_node *n)
{
	if (n == CDS_WFCQ_WOULDBLOCK) return "WB";
	return vrt_val((unsigned long)n);
}

static void o_pop_front(int q)
{
	int i;
	for (i = 1; i < olen[q]; i++)
		olist[q][i - 1] = olist[q][i];
	if (--olen[q] == 0)
		became_empty[q]++;
}

static void chk_null(struct cctx *c, const char *op)
{
	if (!c_was_empty(c))
		vrt_fail("null", "%s on q%d reported empty but the queue held %d..%d nodes during the whole call",
			 op, c->q + 1, c->len0, olen[c->q]);
}

static void chk_wb(struct cctx *c, const char *op)
{
	if (!c_inflight(c))
		vrt_fail("wouldblock", "%s on q%d returned WOULDBLOCK but no append was between its xchg and its link store during the call",
			 op, c->q + 1);
}

/* ---- operations (each logs CALL / RET; the real library code runs in between) -------------- */
static int take_node(void)
{
	int i;
	for (i = 0; i < nnodes; i++)
		if (nstate[i] == N_FREE) { nstate[i] = N_TAKEN; return i; }
	return -1;
}

static int op_enqueue(int q, int inl)
{
	int n = take_node(), t = vrt_self();
	bool r;
	if (n < 0) { vrt_point(); return 0; }	/* no free node: nothing enqueued (one scheduling point, no library call) */
	vrt_log("CALL enq q%d n%d", q + 1, n + 3);
	cds_wfcq_node_init(&ND[n]);
	if (inl) r = _cds_wfcq_enqueue(&H[q], &TL[q], &ND[n]);
	else r = cds_wfcq_enqueue(&H[q], &TL[q], &ND[n]);
	vrt_log("RET enq %d", (int)r);
	if ((int)r != last_enq_was_nonempty[t])
		vrt_fail("retval", "enqueue of n%d on q%d returned %d, reference says the queue was %s at its xchg",
			 n + 3, q + 1, (int)r, last_enq_was_nonempty[t] ? "non-empty" : "empty");
	if (nstate[n] == N_TAKEN)
		vrt_fail("lost", "enqueue of n%d returned without exchanging the tail", n + 3);
	return 1;
}

static void op_empty(int q)
{
	struct cctx c;
	bool r;
	c_begin(&c, q);
	vrt_log("CALL empty q%d", q + 1);
	r = cds_wfcq_empty(&H[q], &TL[q]);
	vrt_log("RET empty %d", (int)r);
	if (r) chk_null(&c, "empty()");
	else if (!c_was_nonempty(&c))
		vrt_fail("null", "empty() on q%d returned false but the queue was empty during the whole call", q + 1);
}

static void op_lock(int q)
{
	vrt_log("CALL lock q%d", q + 1);
	cds_wfcq_dequeue_lock(&H[q], &TL[q]);
	vrt_log("RET lock");
}

static void op_unlock(int q)
{
	vrt_log("CALL unlock q%d", q + 1);
	cds_wfcq_dequeue_unlock(&H[q], &TL[q]);
	vrt_log("RET unlock");
}

/* variant: 0 = cds_wfcq_dequeue_with_state_blocking (locks itself), 1 = cds_wfcq_dequeue_blocking (locks itself, no state),
 *          2 = __cds_wfcq_dequeue_with_state_blocking, 3 = __cds_wfcq_dequeue_with_state_nonblocking,
 *          4 = __cds_wfcq_dequeue_blocking, 5 = __cds_wfcq_dequeue_nonblocking  (2-5: caller holds the role) */
static struct cds_wfcq_node *op_dequeue(int q, int variant)
{
	struct cctx c;
	struct cds_wfcq_node *r;
	int state = -1, blocking = !(variant == 3 || variant == 5), lk = variant < 2, len1;
	c_begin(&c, q);
	vrt_log("CALL deq q%d b=%d lk=%d", q + 1, blocking, lk);
	switch (variant) {
	case 0: r = cds_wfcq_dequeue_with_state_blocking(&H[q], &TL[q], &state); break;
	case 1: r = cds_wfcq_dequeue_blocking(&H[q], &TL[q]); break;
	case 2: r = __cds_wfcq_dequeue_with_state_blocking(&H[q], &TL[q], &state); break;
	case 3: r = __cds_wfcq_dequeue_with_state_nonblocking(&H[q], &TL[q], &state); break;
	case 4: r = __cds_wfcq_dequeue_blocking(&H[q], &TL[q]); break;
	default: r = __cds_wfcq_dequeue_nonblocking(&H[q], &TL[q]); break;
	}
	vrt_log("RET deq %s st=%d", pv(r), state);
	len1 = olen[q];
	if (r == NULL) {
		chk_null(&c, "dequeue");
	} else if (r == CDS_WFCQ_WOULDBLOCK) {
		if (blocking) vrt_fail("wouldblock", "blocking dequeue returned WOULDBLOCK");
		chk_wb(&c, "dequeue");
	} else {
		int n = node_idx((unsigned long)r), t = vrt_self();
		if (cas_popped[t]) {
			if (cas_popped[t] != n + 1)
				vrt_fail("fifo", "dequeue on q%d returned %s but removed n%d", q + 1, pv(r), cas_popped[t] + 2);
			cas_popped[t] = 0;
			nstate[n] = N_FREE;
			n_deq++;
			len1 = 1;
			if (state >= 0 && !(state & CDS_WFCQ_STATE_LAST))
				vrt_fail("retval", "STATE_LAST not set by a dequeue that emptied q%d", q + 1);
		} else if (n < 0 || olen[q] == 0 || olist[q][0] != n) {
			vrt_fail("fifo", "dequeue on q%d returned %s, reference head is n%d (len %d)", q + 1, pv(r),
				 olen[q] ? olist[q][0] + 3 : 0, olen[q]);
		} else {
			o_pop_front(q);
			nstate[n] = N_FREE;
			n_deq++;
			if (state >= 0 && (state & CDS_WFCQ_STATE_LAST))
				vrt_fail("retval", "STATE_LAST set by a dequeue on q%d that did not remove the last node (len %d)", q + 1, len1);
			if (state >= 0 && !(state & CDS_WFCQ_STATE_LAST) && len1 < 2)
				vrt_fail("retval", "STATE_LAST not set but q%d never held a second node", q + 1);
		}
	}
	if (state >= 0 && (r == NULL || r == CDS_WFCQ_WOULDBLOCK) && state != 0)
		vrt_fail("retval", "state=%d on a dequeue that returned no node", state);
	return r;
}

/* variant: 0 = cds_wfcq_splice_blocking (locks src itself), 1 = __cds_wfcq_splice_blocking, 2 = __cds_wfcq_splice_nonblocking */
static void op_splice(int dst, int src, int variant)
{
	struct cctx c;
	enum cds_wfcq_ret r;
	int saved[4 * MAXN], i, j, t = vrt_self();
	c_begin(&c, src);
	for (i = 0; i < c.len0; i++) saved[i] = olist[src][i];
	vrt_log("CALL splice q%d q%d b=%d lk=%d", dst + 1, src + 1, variant != 2, variant == 0);
	if (variant == 0) r = cds_wfcq_splice_blocking(&H[dst], &TL[dst], &H[src], &TL[src]);
	else if (variant == 1) r = __cds_wfcq_splice_blocking(&H[dst], &TL[dst], &H[src], &TL[src]);
	else r = __cds_wfcq_splice_nonblocking(&H[dst], &TL[dst], &H[src], &TL[src]);
	vrt_log("RET splice %d", (int)r);
	if (r == CDS_WFCQ_RET_SRC_EMPTY) {
		chk_null(&c, "splice");
	} else if (r == CDS_WFCQ_RET_WOULDBLOCK) {
		if (variant != 2) vrt_fail("wouldblock", "blocking splice returned WOULDBLOCK");
		chk_wb(&c, "splice");
	} else {
		if ((r == CDS_WFCQ_RET_DEST_NON_EMPTY) != last_enq_was_nonempty[t])
			vrt_fail("retval", "splice q%d->q%d returned %d, reference says destination was %s", src + 1, dst + 1,
				 (int)r, last_enq_was_nonempty[t] ? "non-empty" : "empty");
		if (llen[src])
			vrt_fail("splice", "splice q%d->q%d returned with %d nodes neither in source nor destination", src + 1, dst + 1, llen[src]);
		/* everything that was in the source at the call is now in the destination, contiguous, in order */
		/* (with a second consumer the destination may already have been consumed again: then the reference list
		 * updated at the two xchg and the FIFO checks of the later dequeues carry this check) */
		for (j = 0; c.len0 && j < olen[dst] && olist[dst][j] != saved[0]; j++) ;
		for (i = 0; ncons == 1 && i < c.len0; i++)
			if (j + i >= olen[dst] || olist[dst][j + i] != saved[i]) {
				vrt_fail("splice", "splice q%d->q%d: n%d (position %d of the source) is not at its place in the destination",
					 src + 1, dst + 1, saved[i] + 3, i);
				break;
			}
	}
}

static int o_pos(int q, int n)
{
	int i;
	for (i = 0; i < olen[q]; i++)
		if (olist[q][i] == n) return i;
	return -1;
}

/* first/next iteration over the whole queue (role held by the caller) */
static void op_iterate(int q, int blocking)
{
	struct cctx c;
	struct cds_wfcq_node *r, *cur;
	int visited = 0, pos;
	c_begin(&c, q);
	vrt_log("CALL first q%d b=%d", q + 1, blocking);
	r = blocking ? __cds_wfcq_first_blocking(&H[q], &TL[q]) : __cds_wfcq_first_nonblocking(&H[q], &TL[q]);
	vrt_log("RET first %s", pv(r));
	if (r == NULL) { chk_null(&c, "first"); return; }
	if (r == CDS_WFCQ_WOULDBLOCK) {
		if (blocking) vrt_fail("wouldblock", "blocking first returned WOULDBLOCK");
		chk_wb(&c, "first");
		return;
	}
	if (olen[q] == 0 || olist[q][0] != node_idx((unsigned long)r)) {
		vrt_fail("fifo", "first on q%d returned %s, reference head is n%d", q + 1, pv(r), olen[q] ? olist[q][0] + 3 : 0);
		return;
	}
	for (cur = r, visited = 1; visited <= 4 * MAXN; visited++) {
		pos = o_pos(q, node_idx((unsigned long)cur));
		c_begin(&c, q);
		vrt_log("CALL next q%d n%d b=%d", q + 1, node_idx((unsigned long)cur) + 3, blocking);
		r = blocking ? __cds_wfcq_next_blocking(&H[q], &TL[q], cur) : __cds_wfcq_next_nonblocking(&H[q], &TL[q], cur);
		vrt_log("RET next %s", pv(r));
		if (r == NULL) {
			if (pos != c.len0 - 1)
				vrt_fail("iter", "next(n%d) on q%d returned NULL after %d nodes but the queue held %d nodes at the call",
					 node_idx((unsigned long)cur) + 3, q + 1, visited, c.len0);
			return;
		}
		if (r == CDS_WFCQ_WOULDBLOCK) {
			if (blocking) vrt_fail("wouldblock", "blocking next returned WOULDBLOCK");
			chk_wb(&c, "next");
			return;
		}
		if (pos < 0 || pos + 1 >= olen[q] || olist[q][pos + 1] != node_idx((unsigned long)r)) {
			vrt_fail("iter", "next(n%d) on q%d returned %s, reference successor is n%d", node_idx((unsigned long)cur) + 3, q + 1,
				 pv(r), (pos >= 0 && pos + 1 < olen[q]) ? olist[q][pos + 1] + 3 : 0);
			return;
		}
		cur = r;
	}
}

/* ---- C17: solo runs ------------------------------------------------------------------------- */
static unsigned long solo_s0, solo_r0;
static long n_solo;

static void solo_begin(void)
{
	int i;
	for (i = 1; i < vrt_nthreads(); i++)
		if (i != vrt_self()) vrt_freeze(i, 1);
	in_solo = 1;
	vrt_log("SOLO_BEGIN");
	solo_s0 = vrt_mysteps(); solo_r0 = vrt_myrelax();
}

static void solo_end(const char *op, unsigned long bound)
{
	unsigned long st = vrt_mysteps() - solo_s0, rl = vrt_myrelax() - solo_r0;
	int i;
	vrt_log("SOLO %s steps=%lu relax=%lu bound=%lu", op, st, rl, bound);
	if (rl)
		vrt_fail("progress", "%s run alone (all other threads frozen) executed %lu spin hints / polls", op, rl);
	if (st > 4 * bound + 16)	/* generous: exact counts are the driver's business (divergence), see stack_oracle.h */
		vrt_fail("progress", "%s run alone took %lu own steps, bound %lu", op, st, bound);
	in_solo = 0;
	n_solo++;
	for (i = 1; i < vrt_nthreads(); i++)
		vrt_freeze(i, 0);
}

/* the operation did not take place (no free node): end the solo window without a step count */
static void solo_cancel(void)
{
	int i;
	in_solo = 0;
	for (i = 1; i < vrt_nthreads(); i++)
		vrt_freeze(i, 0);
}

#if defined(CONFIG_RCU_EMIT_LEGACY_MB) && !defined(NO_LEGACY_MB)
#define LEGACY 1
#else
#define LEGACY 0
#endif

/* ---- threads -------------------------------------------------------------------------------- */
static void *enqueuer(void *arg)
{
	int i;
	(void)arg;
	for (i = 0; i < eops; i++) {
		unsigned c = vrt_rand() % 100, q = vrt_rand() % 2;
		int solo = c17 && vrt_rand() % 3 == 0;
		if (c < 80) {
			int done;
			if (solo) solo_begin();
			done = op_enqueue(q, vrt_rand() % 4 == 0);
			if (solo && done) solo_end("enq", 2 + LEGACY);
			else if (solo) solo_cancel();
		} else {
			if (solo) solo_begin();
			op_empty(q);
			if (solo) solo_end("empty", 2);
		}
	}
	return NULL;
}

static void role(const char *what, int q)
{
	if (single) vrt_log("ROLE %s q%d", what, q + 1);
}

static void *consumer(void *arg)
{
	int i, me = (int)(long)arg;
	if (single) { role("acquire", 0); role("acquire", 1); }
	for (i = 0; i < cops; i++) {
		unsigned c = vrt_rand() % 100, q = vrt_rand() % 2, blocking = vrt_rand() % 2;
		int solo = c17 && vrt_rand() % 2 == 0, held = single;
		/* in a solo run only operations that cannot wait by design */
		if (solo) blocking = 0;
		if (c < 45) {
			int variant = blocking ? (vrt_rand() % 2 ? 2 : 4) : (vrt_rand() % 2 ? 3 : 5);
			if (!single && blocking && vrt_rand() % 2) variant = vrt_rand() % 2;	/* self-locking wrappers */
			if (variant >= 2 && !held) { op_lock(q); held = 2; }
			if (solo) solo_begin();
			op_dequeue(q, variant);
			if (solo) solo_end("deq_nb", 8 + LEGACY);
			if (held == 2) op_unlock(q);
		} else if (c < 65) {
			int variant = blocking ? 1 : 2;
			if (!single && blocking && vrt_rand() % 2) variant = 0;
			if (variant && !held) { op_lock(q); held = 2; }
			if (solo) solo_begin();
			op_splice(1 - q, q, variant);
			if (solo) solo_end("splice_nb", 8 + LEGACY);
			if (held == 2) op_unlock(q);
		} else if (c < 85) {
			if (!held) { op_lock(q); held = 2; }
			if (solo) solo_begin();
			op_iterate(q, blocking);
			if (solo) solo_end("iter_nb", 3 * (2 * MAXN + 2));
			if (held == 2) op_unlock(q);
		} else {
			if (solo) solo_begin();
			op_empty(q);
			if (solo) solo_end("empty", 2);
		}
	}
	if (single) { role("release", 0); role("release", 1); }
	(void)me;
	return NULL;
}

int main(int argc, char **argv)
{
	int i, q, tids[MAXE + MAXC], nt = 0;
	argc = vrt_init(argc, argv);
	for (i = 1; i < argc; i++) {
		if (!strcmp(argv[i], "--enq") && i + 1 < argc) nenq = atoi(argv[++i]);
		else if (!strcmp(argv[i], "--cons") && i + 1 < argc) ncons = atoi(argv[++i]);
		else if (!strcmp(argv[i], "--eops") && i + 1 < argc) eops = atoi(argv[++i]);
		else if (!strcmp(argv[i], "--cops") && i + 1 < argc) cops = atoi(argv[++i]);
		else if (!strcmp(argv[i], "--nodes") && i + 1 < argc) nnodes = atoi(argv[++i]);
		else if (!strcmp(argv[i], "--single")) single = 1;
		else if (!strcmp(argv[i], "--c17")) c17 = 1;
		else if (!strcmp(argv[i], "--park") && i + 1 < argc) park = atoi(argv[++i]);
	}
	if (nenq > MAXE) nenq = MAXE;
	if (single) ncons = 1;
	if (ncons > MAXC) ncons = MAXC;
	if (nnodes > MAXN) nnodes = MAXN;
	for (q = 0; q < 2; q++) {
		vrt_name(&H[q].node, sizeof(H[q].node), "q%dh", q + 1);
		vrt_name(&H[q].lock, sizeof(H[q].lock), "q%dlock", q + 1);
		vrt_name(&TL[q], sizeof(TL[q]), "q%dt", q + 1);
		cds_wfcq_init(&H[q], &TL[q]);
	}
	for (i = 0; i < MAXN; i++)
		vrt_name(&ND[i], sizeof(ND[i]), "n%d", i + 3);
	vrt_raw("CFG comp=wfcq legacy_mb=%d attempts=%d single=%d c17=%d enq=%d cons=%d", LEGACY, WFCQ_ADAPT_ATTEMPTS, single, c17, nenq, ncons);
	/* consumers first: with the non-preemptive sweep strategy the lowest tid runs, so the forced
	 * preemption (--preempt-tid = an enqueuer is not what we want) lets a CONSUMER run for M steps at
	 * step N of an enqueuer: enqueuers get the low tids instead */
	for (i = 0; i < nenq; i++) tids[nt++] = vrt_spawn("enq", enqueuer, (void *)(long)i);
	for (i = 0; i < ncons; i++) tids[nt++] = vrt_spawn("cons", consumer, (void *)(long)i);
	for (i = 0; i < nt; i++) vrt_join(tids[i]);
	/* quiescence: drain both queues from the main thread, then conservation */
	for (q = 0; q < 2; q++) {
		role("acquire", q);
		op_empty(q);
		for (i = 0; i <= 4 * MAXN; i++)
			if (!op_dequeue(q, single ? 2 : 0)) break;
		role("release", q);
	}
	for (q = 0; q < 2; q++)
		if (olen[q] || llen[q])
			vrt_fail("conserve", "q%d: %d nodes in the reference list and %d in limbo after the final drain", q + 1, olen[q], llen[q]);
	if (n_enq != n_deq)
		vrt_fail("conserve", "%ld nodes enqueued, %ld dequeued", n_enq, n_deq);
	for (i = 0; i < nnodes; i++)
		if (nstate[i] != N_FREE)
			vrt_fail("conserve", "n%d ends in state %d", i + 3, nstate[i]);
	vrt_raw("# SUMMARY enq=%ld deq=%ld solo=%ld", n_enq, n_deq, n_solo);
	vrt_finish();
	return vrt_failed ? 3 : 0;
}
