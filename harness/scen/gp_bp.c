/*
 * C01/C02/C15/C19 tie for src/urcu-bp.c ("bulletproof" flavor): automatic registration on first
 * use (signals blocked), unregistration by the pthread key destructor at thread exit, no futex.
 */
#include "vrt_shim.h"

static int bp_sigmask(int how, const sigset_t *set, sigset_t *old)
{
	(void)set; (void)old;
	vrt_sig_block(how == SIG_BLOCK);
	vrt_log(how == SIG_BLOCK ? "SIGMASK block" : "SIGMASK restore");
	return 0;
}
#define pthread_sigmask(how, set, old) bp_sigmask(how, set, old)

/* reader slots live in the library's arena and are reused by later threads: (re)name the calling
 * thread's slot before it releases any lock, i.e. before another thread can scan it */
static void bp_name_my_slot(void);
static int bp_unlock(pthread_mutex_t *m)
{
	bp_name_my_slot();
	return vrt_mutex_unlock(m);
}
#undef pthread_mutex_unlock
#define pthread_mutex_unlock(m) bp_unlock(m)

#include "urcu-bp.c"

static void bp_name_my_slot(void)
{
	struct urcu_bp_reader *r = URCU_TLS(urcu_bp_reader);
	if (r)
		vrt_name(&r->ctr, sizeof(r->ctr), "reader%d.ctr", vrt_self());
}

#define MAXR 24
#define MAXU 4
static int nreaders = 2, nupdaters = 1, rops = 30, uops = 3, park, oneshot, use_sig, explicit_reg;
static volatile long X[MAXU], Y[MAXU];
static long in_cs_since[MAXR + MAXU + 2];
static long minX[MAXR + MAXU + 2][MAXU], maxY[MAXR + MAXU + 2][MAXU];
static int depth[MAXR + MAXU + 2];
static long lclock = 1;

/* lazily name the calling thread's reader slot (allocated inside the library's arena) */
static const char *resolve(const void *p)
{
	struct urcu_bp_reader *r = URCU_TLS(urcu_bp_reader);
	if (r && p == (const void *)&r->ctr) {
		vrt_name(&r->ctr, sizeof(r->ctr), "reader%d.ctr", vrt_self());
		return "x";
	}
	return NULL;
}

static void cs_reset(int r) { int u; for (u = 0; u < MAXU; u++) { minX[r][u] = -1; maxY[r][u] = -1; } }

static void data_load(int r, int u, int which)
{
	long v;
	vrt_point();
	if (which == 0) { v = X[u]; vrt_log("DLD X%d %ld", u, v); if (minX[r][u] < 0 || v < minX[r][u]) minX[r][u] = v; }
	else { v = Y[u]; vrt_log("DLD Y%d %ld", u, v); if (v > maxY[r][u]) maxY[r][u] = v; }
	if (minX[r][u] >= 0 && maxY[r][u] > minX[r][u])
		vrt_fail("litmus", "reader %d: one section read X%d=%ld and Y%d=%ld", r, u, minX[r][u], u, maxY[r][u]);
}

static void do_lock(int r)
{
	vrt_log("CALL lock");
	rcu_read_lock();
	vrt_log("RET lock");
	if (depth[r]++ == 0) { in_cs_since[r] = lclock++; cs_reset(r); }
}

static void do_unlock(int r)
{
	if (--depth[r] == 0) in_cs_since[r] = 0;
	vrt_log("CALL unlock");
	rcu_read_unlock();
	vrt_log("RET unlock");
}

static __thread int my_r;
static void handler(void)
{
	struct urcu_bp_reader *rd = URCU_TLS(urcu_bp_reader);
	unsigned long before = rd ? rd->ctr : 0, after;
	int k, n = 1 + vrt_rand() % 2, r = my_r;
	long saved = in_cs_since[r];
	for (k = 0; k < n; k++) { vrt_log("CALL lock"); rcu_read_lock(); vrt_log("RET lock"); }
	if (!saved) in_cs_since[r] = lclock++;
	vrt_point();
	vrt_log("DLD X0 %ld", (long)X[0]);
	if (!saved) in_cs_since[r] = 0;
	for (k = 0; k < n; k++) { vrt_log("CALL unlock"); rcu_read_unlock(); vrt_log("RET unlock"); }
	rd = URCU_TLS(urcu_bp_reader);
	after = rd->ctr;
	if ((before & URCU_BP_GP_CTR_NEST_MASK) != (after & URCU_BP_GP_CTR_NEST_MASK) ||
	    ((before & URCU_BP_GP_CTR_NEST_MASK) && before != after))
		vrt_fail("sigbalance", "reader %d: handler changed the reader word %#lx -> %#lx", r, before, after);
}

static void *reader(void *arg)
{
	int r = (int)(long)arg, i;
	my_r = r;
	vrt_log("READER %d", r);
	if (use_sig) vrt_set_sighandler(handler);
	if (explicit_reg) { vrt_log("CALL register"); rcu_register_thread(); vrt_log("RET register"); }
	if (oneshot) {
		unsigned long target = RCU_QS_ACTIVE_ATTEMPTS - 3 + vrt_rand() % 5;
		do_lock(r);
		if (oneshot == 2) { vrt_sleep(1000000); target = 0; }
		while (vrt_total_relax() < target && vrt_steps() < 20000)
			vrt_sleep(1 + vrt_rand() % 3);
		rops = 0;
	}
	for (i = 0; i < rops; i++) {
		unsigned c = vrt_rand() % 100;
		if (c < 40 && depth[r] < 3) do_lock(r);
		else if (c < 70 && depth[r] > 0) do_unlock(r);
		else if (depth[r] > 0 && park && c < 74) vrt_sleep(300 + vrt_rand() % 1500);
		else if (depth[r] > 0) {
			int u = vrt_rand() % nupdaters;
			if (vrt_rand() & 1) { data_load(r, u, 1); data_load(r, u, 0); } else { data_load(r, u, 0); data_load(r, u, 1); }
		} else vrt_point();
	}
	while (depth[r] > 0) do_unlock(r);
	vrt_set_sighandler(NULL);
	vrt_log("READER_DONE");
	return NULL;	/* the key destructor unregisters the thread */
}

static void *updater(void *arg)
{
	int u = (int)(long)arg, k, r;
	if (use_sig) {
		/* C19: a handler using RCU may hit a thread that has never used RCU itself (bp registers lazily, inside the handler's
		 * rcu_read_lock()); synchronize_rcu() must therefore run with signals blocked, otherwise the handler's registration
		 * self-deadlocks on rcu_registry_lock held by the interrupted grace period */
		my_r = MAXR + 1 + u;	/* handler sections of this updater thread get their own oracle slot */
		vrt_set_sighandler(handler);
	}
	for (k = 1; k <= uops; k++) {
		long call_time;
		vrt_point();
		X[u] = k;
		vrt_log("DST X%d %d", u, k);
		call_time = lclock++;
		vrt_log("CALL sync");
		synchronize_rcu();
		vrt_log("RET sync");
		for (r = 1; r <= nreaders; r++)
			if (in_cs_since[r] && in_cs_since[r] < call_time)
				vrt_fail("gp", "synchronize_rcu() of updater %d (call at %ld) returned while reader %d is still in a section begun at %ld",
					 u, call_time, r, in_cs_since[r]);
		/* sections opened by signal handlers on OTHER updater threads (e.g. while they wait inside their own synchronize_rcu()) */
		for (r = 0; r < nupdaters; r++)
			if (r != u && in_cs_since[MAXR + 1 + r] && in_cs_since[MAXR + 1 + r] < call_time)
				vrt_fail("gp", "synchronize_rcu() of updater %d (call at %ld) returned while a signal handler on updater %d's thread is still in a section begun at %ld",
					 u, call_time, r, in_cs_since[MAXR + 1 + r]);
		vrt_point();
		Y[u] = k;
		vrt_log("DST Y%d %d", u, k);
	}
	if (use_sig) {
		vrt_set_sighandler(NULL);
		vrt_log("READER_DONE");	/* a handler may have registered this thread: the key destructor unregisters it */
	}
	return NULL;
}

int main(int argc, char **argv)
{
	int i;
	argc = vrt_init(argc, argv);
	for (i = 1; i < argc; i++) {
		if (!strcmp(argv[i], "--readers") && i + 1 < argc) nreaders = atoi(argv[++i]);
		else if (!strcmp(argv[i], "--updaters") && i + 1 < argc) nupdaters = atoi(argv[++i]);
		else if (!strcmp(argv[i], "--rops") && i + 1 < argc) rops = atoi(argv[++i]);
		else if (!strcmp(argv[i], "--uops") && i + 1 < argc) uops = atoi(argv[++i]);
		else if (!strcmp(argv[i], "--sig")) use_sig = 1;
		else if (!strcmp(argv[i], "--park")) park = 1;
		else if (!strcmp(argv[i], "--oneshot")) oneshot = 1;
		else if (!strcmp(argv[i], "--oneshot-sweep")) oneshot = 2;
		else if (!strcmp(argv[i], "--explicit-reg")) explicit_reg = 1;
	}
	if (nreaders > MAXR) nreaders = MAXR;
	if (nupdaters > MAXU) nupdaters = MAXU;
	vrt_unknown_hook = resolve;
	vrt_name(&rcu_gp.ctr, sizeof(rcu_gp.ctr), "gp.ctr");
	vrt_name(&rcu_gp_lock, sizeof(rcu_gp_lock), "gp_lock");
	vrt_name(&rcu_registry_lock, sizeof(rcu_registry_lock), "registry_lock");
	vrt_name(&init_lock, sizeof(init_lock), "init_lock");
	vrt_raw("CFG flavor=bp membarrier=%d sig=%d readers=%d updaters=%d", urcu_bp_has_sys_membarrier, use_sig, nreaders, nupdaters);
	for (i = 1; i <= nreaders; i++)
		vrt_spawn("reader", reader, (void *)(long)i);
	for (i = 0; i < nupdaters; i++)
		vrt_spawn("updater", updater, (void *)(long)i);
	vrt_finish();
	return vrt_failed ? 3 : 0;
}
