/*
 * C18 tie for include/urcu/rculist.h, rcuhlist.h (list.h, hlist.h, static/pointer.h).
 *
 * The REAL headers are compiled below.  Publishing stores / rcu_dereference loads go through the macro
 * shim (uatomic_store_mo / uatomic_load_mo -> "ST loc val mo" / "LD loc val mo"); every PLAIN access
 * to a list field or payload is reported by the access callbacks of harness/rt/vrt_tsan.c
 * ("PLD loc val size" / "PST loc size" + "PSTV loc val size") because THIS translation unit is compiled
 * with -fsanitize=thread and linked against vrt_tsan.o instead of libtsan.  Every such access is a
 * scheduling point: a reader can run between any two stores of the updater.
 *
 * build:  gcc -fsanitize=thread -c rculist.c ; gcc -c vrt.c vrt_tsan.c ; gcc rculist.o vrt.o vrt_tsan.o -pthread
 * run:    rculist --seed N [--hlist] --readers R --uops N --travs N [--prefill P --park K] [--nofree] [--abort PCT] [vrt options]
 *         --park K (sweep strategy): the updater first adds P nodes, the reader walks K nodes and parks on the K-th
 *         until the forced preemption (--preempt-at N) resumes it between two stores of the updater
 *
 * One updater (mutual exclusion of updaters is the API contract) applies random add / add_tail / del /
 * replace (hlist: add_head / del), runs harness-level grace periods and frees (poisons) removed nodes;
 * readers traverse inside read-side sections with the real iteration macros.
 *
 * Independent oracle (plain C, no model; all bookkeeping lives in unnamed memory and is not traced):
 *   garbage   a traversal obtained a pointer that is neither the head nor a node
 *   freed     a traversal touched a node after it was freed (poisoned)
 *   nonterm   a traversal made more steps than nodes were ever allocated (+ slack)
 *   order     visited nodes are not strictly increasing in the history order (list order with tombstones)
 *   missed    a node that was in the list for the whole traversal was not visited
 *   twice     a node was visited twice
 *   phantom   a visited node was not a member at any instant of the traversal
 *   uninit    a visited node's payload is not the value written before it was added
 * Membership over time is tracked by logical time stamps of the begin/end of each update call; since the
 * linearisation store lies inside the call, "whole traversal" = added by a call that RETURNED before the
 * traversal began and not removed by a call that BEGAN before it ended; "some instant" = added by a call
 * that began before the traversal ended and not removed by a call that returned before it began.
 */
#define _LGPL_SOURCE
#include "vrt_shim.h"
#include <urcu/rculist.h>
#include <urcu/rcuhlist.h>

extern __thread int vrt_tsan_quiet;
#define QUIET __attribute__((no_sanitize("thread"), noinline))

#define MAXN 96			/* nodes ever allocated in one run (never reused: ids are unique) */
#define MAXR 4

struct item {
	struct cds_list_head list;
	struct cds_hlist_node hn;
	long data;
};

static struct item items[MAXN + 1];	/* items[id], id = 1.. */
static struct item poison;		/* freed nodes point here; it points to itself */
static struct cds_list_head head = CDS_LIST_HEAD_INIT(head);
static struct cds_hlist_head hhead;

static int hlist, nreaders = 2, uops = 12, travs = 4, park = -1, nofree, abort_pct = 10, prefill;

/* ---- oracle state (unnamed memory) ---- */
enum { N_FRESH, N_LIVE, N_REMOVED, N_FREED };
static int nstate[MAXN + 1];
static long t_add_b[MAXN + 1], t_add_e[MAXN + 1], t_rem_b[MAXN + 1], t_rem_e[MAXN + 1];
static int horder[MAXN + 1], nh;	/* history order: ids in list order, removed ones stay */
static int alist[MAXN + 1], na;		/* abstract list (updater's view) */
static int nalloc;
static long lt = 1;
static int in_cs[MAXR + 1];
static long cs_seq[MAXR + 1];
static unsigned long hist_ops[8], hist_trav[8], n_visits, n_on_removed;

static long expected_data(int id) { return 1000L * id + 7; }

QUIET static int hpos(int id)
{
	int i;
	for (i = 0; i < nh; i++)
		if (horder[i] == id)
			return i;
	return -1;
}

QUIET static void h_insert(int at, int id)
{
	int i;
	for (i = nh; i > at; i--)
		horder[i] = horder[i - 1];
	horder[at] = id;
	nh++;
}

QUIET static int a_index(int id)
{
	int i;
	for (i = 0; i < na; i++)
		if (alist[i] == id)
			return i;
	return -1;
}

/* pointer -> node id (0 = not a node) */
QUIET static int id_of_item(const struct item *it)
{
	long d = (const char *)it - (const char *)items;
	if (d <= 0 || d % (long)sizeof(struct item) || d / (long)sizeof(struct item) > MAXN)
		return 0;
	return (int)(d / (long)sizeof(struct item));
}

QUIET static void name_node(int id)
{
	struct item *it = &items[id];
	if (hlist) {
		vrt_name(&it->hn.next, sizeof(void *), "n%d.next", id);
		vrt_name(&it->hn.prev, sizeof(void *), "n%d.prev", id);
	} else {
		vrt_name(&it->list.next, sizeof(void *), "n%d.next", id);
		vrt_name(&it->list.prev, sizeof(void *), "n%d.prev", id);
	}
	vrt_name(&it->data, sizeof(long), "n%d.data", id);
}

/* ---- reader ------------------------------------------------------------------------------- */
struct trav {
	int r, n, ok;
	int ids[4 * MAXN];
	long t_begin;
};

/* oracle at each visited position; returns 0 to stop the traversal */
QUIET static int visit(struct trav *tv, const struct item *it)
{
	int id = id_of_item(it);
	if (!id || id > nalloc) {
		vrt_fail("garbage", "reader %d followed a pointer that is neither the head nor a node (after %d nodes)", tv->r, tv->n);
		tv->ok = 0;
		return 0;
	}
	if (nstate[id] == N_FREED) {
		vrt_fail("freed", "reader %d touches n%d after it was freed", tv->r, id);
		tv->ok = 0;
		return 0;
	}
	if (tv->n >= nalloc + 8) {
		vrt_fail("nonterm", "reader %d: traversal made %d steps, only %d nodes exist", tv->r, tv->n, nalloc);
		tv->ok = 0;
		return 0;
	}
	if (nstate[id] == N_REMOVED)
		n_on_removed++;
	n_visits++;
	tv->ids[tv->n++] = id;
	return 1;
}

QUIET static void check_data(struct trav *tv, int id, long v)
{
	if (v != expected_data(id))
		vrt_fail("uninit", "reader %d read payload %ld of n%d, %ld was written before the add", tv->r, v, id, expected_data(id));
}

QUIET static void trav_begin(struct trav *tv, int r)
{
	tv->r = r;
	tv->n = 0;
	tv->ok = 1;
	tv->t_begin = lt++;
}

QUIET static void trav_check(struct trav *tv, int complete)
{
	long t_end = lt++;
	int i, j, id, last = -1;
	if (!tv->ok)
		return;
	for (i = 0; i < tv->n; i++) {
		id = tv->ids[i];
		j = hpos(id);
		if (j < 0 || !t_add_b[id] || t_add_b[id] >= t_end || (t_rem_e[id] && t_rem_e[id] <= tv->t_begin)) {
			vrt_fail("phantom", "reader %d visited n%d which was not in the list at any instant of the traversal", tv->r, id);
			return;
		}
		if (j == last) {
			vrt_fail("twice", "reader %d visited n%d twice", tv->r, id);
			return;
		}
		if (j < last) {
			for (j = 0; j < i; j++)
				if (tv->ids[j] == id) {
					vrt_fail("twice", "reader %d visited n%d twice", tv->r, id);
					return;
				}
			vrt_fail("order", "reader %d visited n%d after n%d, against the list order", tv->r, id, tv->ids[i - 1]);
			return;
		}
		last = hpos(id);
	}
	if (!complete)
		return;
	for (id = 1; id <= nalloc; id++) {
		if (!t_add_e[id] || t_add_e[id] >= tv->t_begin)
			continue;		/* not yet (certainly) in the list when the traversal began */
		if (t_rem_b[id] && t_rem_b[id] <= t_end)
			continue;		/* a removal had begun before the traversal ended */
		for (i = 0; i < tv->n; i++)
			if (tv->ids[i] == id)
				break;
		if (i == tv->n) {
			vrt_fail("missed", "reader %d did not visit n%d, which was in the list during the whole traversal", tv->r, id);
			return;
		}
	}
}

/* the traversals: the real macros; the loop bodies read the payload with a plain load */
static void trav_list_entry(struct trav *tv, int stop_after)
{
	struct item *pos;
	cds_list_for_each_entry_rcu(pos, &head, list) {
		if (!visit(tv, pos))
			break;
		check_data(tv, tv->ids[tv->n - 1], pos->data);
		if (tv->n == park) vrt_sleep(3000);
		if (tv->n == stop_after) { tv->ok = 2; break; }
	}
}

static void trav_list_pos(struct trav *tv, int stop_after)
{
	struct cds_list_head *p;
	cds_list_for_each_rcu(p, &head) {
		struct item *pos = cds_list_entry(p, struct item, list);
		if (!visit(tv, pos))
			break;
		check_data(tv, tv->ids[tv->n - 1], pos->data);
		if (tv->n == park) vrt_sleep(3000);
		if (tv->n == stop_after) { tv->ok = 2; break; }
	}
}

static void trav_hlist_entry(struct trav *tv, int stop_after)
{
	struct item *e;
	struct cds_hlist_node *p;
	cds_hlist_for_each_entry_rcu(e, p, &hhead, hn) {
		if (!visit(tv, e))
			break;
		check_data(tv, tv->ids[tv->n - 1], e->data);
		if (tv->n == park) vrt_sleep(3000);
		if (tv->n == stop_after) { tv->ok = 2; break; }
	}
}

static void trav_hlist_entry2(struct trav *tv, int stop_after)
{
	struct item *e;
	cds_hlist_for_each_entry_rcu_2(e, &hhead, hn) {
		if (!visit(tv, e))
			break;
		check_data(tv, tv->ids[tv->n - 1], e->data);
		if (tv->n == park) vrt_sleep(3000);
		if (tv->n == stop_after) { tv->ok = 2; break; }
	}
}

static void trav_hlist_pos(struct trav *tv, int stop_after)
{
	struct cds_hlist_node *p;
	cds_hlist_for_each_rcu(p, &hhead) {
		struct item *e = cds_hlist_entry(p, struct item, hn);
		if (!visit(tv, e))
			break;
		check_data(tv, tv->ids[tv->n - 1], e->data);
		if (tv->n == park) vrt_sleep(3000);
		if (tv->n == stop_after) { tv->ok = 2; break; }
	}
}

static void *reader(void *arg)
{
	int r = (int)(long)arg, k;
	static struct trav tvs[MAXR + 1];
	struct trav *tv = &tvs[r];
	for (k = 0; k < travs; k++) {
		int kind = vrt_rand() % (hlist ? 3 : 2);
		int stop_after = (vrt_rand() % 100 < (unsigned)abort_pct) ? 1 + (int)(vrt_rand() % 3) : -1;
		int aborted;
		if (park >= 0) { stop_after = -1; }
		vrt_point();
		vrt_log("RLOCK");
		in_cs[r] = 1;
		cs_seq[r]++;
		vrt_point();
		vrt_log("TRAV_BEGIN %s", hlist ? (kind == 0 ? "hentry" : kind == 1 ? "hentry2" : "hpos") : (kind == 0 ? "entry" : "pos"));
		trav_begin(tv, r);
		if (park == 0) vrt_sleep(3000);
		if (hlist) {
			if (kind == 0) trav_hlist_entry(tv, stop_after);
			else if (kind == 1) trav_hlist_entry2(tv, stop_after);
			else trav_hlist_pos(tv, stop_after);
		} else {
			if (kind == 0) trav_list_entry(tv, stop_after);
			else trav_list_pos(tv, stop_after);
		}
		aborted = (tv->ok == 2);
		if (aborted) tv->ok = 1;
		hist_trav[aborted ? 1 : 0]++;
		vrt_log("TRAV_END %d %s", tv->n, aborted ? "aborted" : "complete");
		trav_check(tv, !aborted);
		vrt_point();
		in_cs[r] = 0;
		vrt_log("RUNLOCK");
		if (vrt_failed)
			break;
		if (park < 0 && vrt_rand() % 3 == 0)
			vrt_sleep(1 + vrt_rand() % 20);
	}
	return NULL;
}

/* ---- updater ------------------------------------------------------------------------------ */
static int pending[MAXN + 1], npending;

QUIET static void poison_node(int id)
{
	struct item *it = &items[id];
	it->list.next = &poison.list;
	it->list.prev = &poison.list;
	it->hn.next = &poison.hn;
	it->hn.prev = &poison.hn;
	it->data = -1;
	nstate[id] = N_FREED;
}

static void grace_period_and_free(void)
{
	long snap[MAXR + 1];
	int r, i, n = npending, any;
	vrt_point();
	vrt_log("GP_START");
	for (r = 1; r <= nreaders; r++)
		snap[r] = in_cs[r] ? cs_seq[r] : 0;
	for (;;) {
		any = 0;
		for (r = 1; r <= nreaders; r++)
			if (snap[r] && in_cs[r] && cs_seq[r] == snap[r])
				any = 1;
		if (!any)
			break;
		vrt_sleep(3);
	}
	vrt_point();
	vrt_log("GP_END");
	for (i = 0; i < n; i++) {
		vrt_point();
		vrt_log("FREE n%d", pending[i]);
		poison_node(pending[i]);
	}
	for (i = n; i < npending; i++)
		pending[i - n] = pending[i];
	npending -= n;
}

QUIET static int new_node(void)
{
	int id;
	if (nalloc >= MAXN)
		return 0;
	id = ++nalloc;
	name_node(id);
	/* the content of a node before it is added is arbitrary (recycled or uninitialised memory): make every link field
	 * point at the poison object, so that an add that publishes the node without setting one of them is seen by the
	 * traversal oracles */
	items[id].list.next = items[id].list.prev = &poison.list;
	items[id].hn.next = items[id].hn.prev = &poison.hn;
	return id;
}

static void *updater(void *arg)
{
	int k;
	(void)arg;
	for (k = 0; k < uops; k++) {
		unsigned c = vrt_rand() % 100;
		int id, old, i;
		if (k < prefill)
			c = 0;
		else if (k == prefill && park >= 0)
			vrt_sleep(40);		/* sweep mode: let the reader walk to its parking position first */
		if (na == 0 || c < 30 || (c < 45 && hlist)) {
			/* add at head */
			id = new_node();
			if (!id) break;
			vrt_point();
			vrt_log("CALL add n%d", id);
			t_add_b[id] = lt++;
			h_insert(0, id);
			items[id].data = expected_data(id);	/* payload initialised before publication (plain store) */
			if (hlist) cds_hlist_add_head_rcu(&items[id].hn, &hhead);
			else cds_list_add_rcu(&items[id].list, &head);
			vrt_log("RET add");
			t_add_e[id] = lt++;
			nstate[id] = N_LIVE;
			for (i = na; i > 0; i--) alist[i] = alist[i - 1];
			alist[0] = id; na++;
			hist_ops[0]++;
		} else if (c < 45) {
			id = new_node();
			if (!id) break;
			vrt_point();
			vrt_log("CALL addtail n%d", id);
			t_add_b[id] = lt++;
			h_insert(nh, id);
			items[id].data = expected_data(id);
			cds_list_add_tail_rcu(&items[id].list, &head);
			vrt_log("RET addtail");
			t_add_e[id] = lt++;
			nstate[id] = N_LIVE;
			alist[na++] = id;
			hist_ops[1]++;
		} else if (c < 75 || hlist) {
			i = vrt_rand() % na;
			old = alist[i];
			vrt_point();
			vrt_log("CALL del n%d", old);
			t_rem_b[old] = lt++;
			if (hlist) cds_hlist_del_rcu(&items[old].hn);
			else cds_list_del_rcu(&items[old].list);
			vrt_log("RET del");
			t_rem_e[old] = lt++;
			nstate[old] = N_REMOVED;
			for (; i < na - 1; i++) alist[i] = alist[i + 1];
			na--;
			pending[npending++] = old;
			hist_ops[2]++;
		} else {
			i = vrt_rand() % na;
			old = alist[i];
			id = new_node();
			if (!id) break;
			vrt_point();
			vrt_log("CALL repl n%d n%d", old, id);
			t_add_b[id] = t_rem_b[old] = lt++;
			h_insert(hpos(old), id);
			items[id].data = expected_data(id);
			cds_list_replace_rcu(&items[old].list, &items[id].list);
			vrt_log("RET repl");
			t_add_e[id] = t_rem_e[old] = lt++;
			nstate[id] = N_LIVE;
			nstate[old] = N_REMOVED;
			alist[i] = id;
			pending[npending++] = old;
			hist_ops[3]++;
		}
		if (!nofree && npending && vrt_rand() % 3 == 0) {
			grace_period_and_free();
			hist_ops[4]++;
		}
		if (vrt_failed)
			break;
		if (park < 0 && vrt_rand() % 4 == 0)
			vrt_sleep(1 + vrt_rand() % 12);
	}
	if (!nofree && npending) {
		grace_period_and_free();
		hist_ops[4]++;
	}
	return NULL;
}

int main(int argc, char **argv)
{
	int i;
	argc = vrt_init(argc, argv);
	for (i = 1; i < argc; i++) {
		if (!strcmp(argv[i], "--hlist")) hlist = 1;
		else if (!strcmp(argv[i], "--readers") && i + 1 < argc) nreaders = atoi(argv[++i]);
		else if (!strcmp(argv[i], "--uops") && i + 1 < argc) uops = atoi(argv[++i]);
		else if (!strcmp(argv[i], "--travs") && i + 1 < argc) travs = atoi(argv[++i]);
		else if (!strcmp(argv[i], "--park") && i + 1 < argc) park = atoi(argv[++i]);
		else if (!strcmp(argv[i], "--nofree")) nofree = 1;
		else if (!strcmp(argv[i], "--prefill") && i + 1 < argc) prefill = atoi(argv[++i]);
		else if (!strcmp(argv[i], "--abort") && i + 1 < argc) abort_pct = atoi(argv[++i]);
	}
	if (nreaders > MAXR) nreaders = MAXR;
	if (uops > MAXN) uops = MAXN;
	vrt_tsan_quiet++;
	poison.list.next = poison.list.prev = &poison.list;
	poison.hn.next = poison.hn.prev = &poison.hn;
	poison.data = -1;
	if (hlist) {
		vrt_name(&hhead.next, sizeof(void *), "h.next");
		vrt_name(&poison.hn.next, sizeof(void *), "poison.next");
	} else {
		vrt_name(&head.next, sizeof(void *), "h.next");
		vrt_name(&head.prev, sizeof(void *), "h.prev");
		vrt_name(&poison.list.next, sizeof(void *), "poison.next");
	}
	vrt_name(&poison.data, sizeof(long), "poison.data");
	vrt_tsan_quiet--;
	vrt_raw("CFG kind=%s readers=%d uops=%d travs=%d park=%d prefill=%d", hlist ? "hlist" : "list", nreaders, uops, travs, park, prefill);
	vrt_spawn("updater", updater, NULL);
	for (i = 1; i <= nreaders; i++)
		vrt_spawn("reader", reader, (void *)(long)i);
	for (i = 1; i <= nreaders + 1; i++)
		vrt_join(i);
	vrt_raw("# STATS add=%lu addtail=%lu del=%lu repl=%lu gp=%lu trav_complete=%lu trav_aborted=%lu visits=%lu visits_of_removed=%lu",
		hist_ops[0], hist_ops[1], hist_ops[2], hist_ops[3], hist_ops[4], hist_trav[0], hist_trav[1], n_visits, n_on_removed);
	vrt_finish();
	return vrt_failed ? 3 : 0;
}
