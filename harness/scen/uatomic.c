/*
 * C20 tie: runs the REAL <urcu/uatomic.h> (no shim, nothing replaced) and prints, for every
 * operation executed, what the implementation returned and the 16-byte memory image around the
 * operand.  Driver/Uatomic.lean replays every printed line on the Lean model (`exec`).
 *
 * Built several times by props/c20.py from the same text:
 *   default                          -> urcu/uatomic/x86.h + generic.h          (impl x86)
 *   -DCONFIG_RCU_USE_ATOMIC_BUILTINS -> urcu/uatomic/builtins-generic.h         (impl builtins)
 *   -std=gnu99                       -> x86.h with the CMM_STORE_SHARED/CMM_LOAD_SHARED set/read
 *   -DUATOMIC_DISASM -c              -> one non-inlined function per op/width for `objdump -d`
 *
 * line format (deterministic for a given seed):
 *   impl <x86|builtins> stdc <n>
 *   <op> <width> <signed> <offset> <old image, 32 hex> [<kind>:<hex> [<kind>:<hex>]] -> <result|-> <new image>
 *     kind = C type of the operand expression handed to the macro:
 *            n pointee type, i int, j unsigned int, l long, u unsigned long; hex = its bit pattern
 *     result = the returned expression converted to unsigned long *directly* (no intermediate
 *              assignment to the pointee type, so a missing cast in a macro is visible), 16 hex
 *   rtype <op> <width> <signed> <sizeof(result expression)> <its signedness>
 *   hammer ...   (multi-thread supporting exploration; deterministic summary only)
 *
 * Independent oracle (plain C on uint64_t, uses neither the headers under test nor the model):
 * expected result + expected image (only bytes [off, off+w/8) may change, canaries before and after
 * the window included).  Any mismatch: `ORACLE ...` on stderr, exit status 3.
 *
 * usage: uatomic <seed> directed [light] | exh8 <stride> | random <n> | rtype | hammer <threads> <iters> | litmus <rounds>
 *        | plainstore   ("plain C store then RMW" facet; built at -O1, -O2, -O3)
 */
#include <stdio.h>
#include <stdlib.h>
#include <stdint.h>
#include <string.h>
#include <pthread.h>
#include <urcu/uatomic.h>

enum { OP_SET, OP_READ, OP_XCHG, OP_CMPXCHG, OP_ADD_RETURN, OP_SUB_RETURN, OP_ADD, OP_SUB, OP_INC, OP_DEC,
       OP_AND, OP_OR, NOPS };
static const char *opname[NOPS] = { "set", "read", "xchg", "cmpxchg", "add_return", "sub_return", "add", "sub",
				    "inc", "dec", "and", "or" };
static const int op_nargs[NOPS] = { 1, 0, 1, 2, 1, 1, 1, 1, 0, 0, 1, 1 };

#ifdef UATOMIC_DISASM
/* ------------------------------------------------------------------------------------------ */
/* one function per op / width, for the disassembly check */
#define DIS(W, T)												\
__attribute__((noinline, used)) void f_set_##W(T *p, T a) { uatomic_set(p, a); }				\
__attribute__((noinline, used)) void f_setsc_##W(T *p, T a) { uatomic_set(p, a, CMM_SEQ_CST); }			\
__attribute__((noinline, used)) void f_setscf_##W(T *p, T a) { uatomic_set(p, a, CMM_SEQ_CST_FENCE); }		\
__attribute__((noinline, used)) T f_read_##W(T *p) { return uatomic_read(p); }					\
__attribute__((noinline, used)) T f_xchg_##W(T *p, T a) { return uatomic_xchg(p, a); }				\
__attribute__((noinline, used)) T f_cmpxchg_##W(T *p, T a, T b) { return uatomic_cmpxchg(p, a, b); }		\
__attribute__((noinline, used)) T f_add_return_##W(T *p, T a) { return uatomic_add_return(p, a); }		\
__attribute__((noinline, used)) T f_sub_return_##W(T *p, T a) { return uatomic_sub_return(p, a); }		\
__attribute__((noinline, used)) void f_add_##W(T *p, T a) { uatomic_add(p, a); }				\
__attribute__((noinline, used)) void f_sub_##W(T *p, T a) { uatomic_sub(p, a); }				\
__attribute__((noinline, used)) void f_inc_##W(T *p) { uatomic_inc(p); }					\
__attribute__((noinline, used)) void f_dec_##W(T *p) { uatomic_dec(p); }					\
__attribute__((noinline, used)) void f_and_##W(T *p, T a) { uatomic_and(p, a); }				\
__attribute__((noinline, used)) void f_or_##W(T *p, T a) { uatomic_or(p, a); }
DIS(8, unsigned char)
DIS(16, unsigned short)
DIS(32, unsigned int)
DIS(64, unsigned long)
#else
/* ------------------------------------------------------------------------------------------ */
enum { K_N, K_I, K_J, K_L, K_U, NKINDS };
static const char kindch[NKINDS] = { 'n', 'i', 'j', 'l', 'u' };

/* the code under test: one function per (pointee type, operand type) */
#define DEF(TN, T, KN, OT)											\
static void run_##TN##_##KN(int op, void *p_, uint64_t araw, uint64_t braw, uint64_t *res, int *has)		\
{														\
	T *p = (T *) p_;											\
	OT a = (OT) araw;											\
	OT b = (OT) braw;											\
	*has = 1;												\
	switch (op) {												\
	case OP_SET: uatomic_set(p, a); *has = 0; break;							\
	case OP_READ: *res = (uint64_t) (uatomic_read(p)); break;						\
	case OP_XCHG: *res = (uint64_t) (uatomic_xchg(p, a)); break;						\
	case OP_CMPXCHG: *res = (uint64_t) (uatomic_cmpxchg(p, a, b)); break;					\
	case OP_ADD_RETURN: *res = (uint64_t) (uatomic_add_return(p, a)); break;				\
	case OP_SUB_RETURN: *res = (uint64_t) (uatomic_sub_return(p, a)); break;				\
	case OP_ADD: uatomic_add(p, a); *has = 0; break;							\
	case OP_SUB: uatomic_sub(p, a); *has = 0; break;							\
	case OP_INC: uatomic_inc(p); *has = 0; break;								\
	case OP_DEC: uatomic_dec(p); *has = 0; break;								\
	case OP_AND: uatomic_and(p, a); *has = 0; break;							\
	case OP_OR: uatomic_or(p, a); *has = 0; break;								\
	}													\
}
#define DEFT(TN, T)			\
	DEF(TN, T, n, T)		\
	DEF(TN, T, i, int)		\
	DEF(TN, T, j, unsigned int)	\
	DEF(TN, T, l, long)		\
	DEF(TN, T, u, unsigned long)
DEFT(s8, signed char)
DEFT(u8, unsigned char)
DEFT(s16, short)
DEFT(u16, unsigned short)
DEFT(s32, int)
DEFT(u32, unsigned int)
DEFT(s64, long)
DEFT(u64, unsigned long)

typedef void (*runfn)(int, void *, uint64_t, uint64_t, uint64_t *, int *);
#define ROW(TN) { run_##TN##_n, run_##TN##_i, run_##TN##_j, run_##TN##_l, run_##TN##_u }
static const runfn dispatch[8][NKINDS] = { ROW(s8), ROW(u8), ROW(s16), ROW(u16), ROW(s32), ROW(u32), ROW(s64), ROW(u64) };
static const int t_width[8] = { 8, 8, 16, 16, 32, 32, 64, 64 };
static const int t_signed[8] = { 1, 0, 1, 0, 1, 0, 1, 0 };

/* result-expression types */
#define IS_SIGNED_EXPR(e) (((__typeof__(e)) -1) < (__typeof__(e)) 1)
#define RTYPE(TN, T)												\
static void rtype_##TN(int w, int s)										\
{														\
	T x = 0; T *p = &x; T a = 1;										\
	printf("rtype read %d %d %zu %d\n", w, s, sizeof(uatomic_read(p)), (int) IS_SIGNED_EXPR(uatomic_read(p)));	\
	printf("rtype xchg %d %d %zu %d\n", w, s, sizeof(uatomic_xchg(p, a)), (int) IS_SIGNED_EXPR(uatomic_xchg(p, a)));	\
	printf("rtype cmpxchg %d %d %zu %d\n", w, s, sizeof(uatomic_cmpxchg(p, a, a)), (int) IS_SIGNED_EXPR(uatomic_cmpxchg(p, a, a)));	\
	printf("rtype add_return %d %d %zu %d\n", w, s, sizeof(uatomic_add_return(p, a)), (int) IS_SIGNED_EXPR(uatomic_add_return(p, a)));	\
	printf("rtype sub_return %d %d %zu %d\n", w, s, sizeof(uatomic_sub_return(p, a)), (int) IS_SIGNED_EXPR(uatomic_sub_return(p, a)));	\
}
RTYPE(s8, signed char) RTYPE(u8, unsigned char) RTYPE(s16, short) RTYPE(u16, unsigned short)
RTYPE(s32, int) RTYPE(u32, unsigned int) RTYPE(s64, long) RTYPE(u64, unsigned long)

/* ------------------------------------------------------------------------------------------ */
static uint64_t rng_s;
static uint64_t rnd(void)
{
	rng_s ^= rng_s << 13; rng_s ^= rng_s >> 7; rng_s ^= rng_s << 17;
	return rng_s;
}

static struct {
	unsigned char pre[16];
	unsigned char win[16];
	unsigned char post[16];
} B __attribute__((aligned(64)));

static int oracle_fail;
static unsigned long ncases, nprinted;

/* ---- the independent reference ----------------------------------------------------------- */
static uint64_t mask(int w) { return w == 64 ? ~0ULL : ((1ULL << w) - 1); }
static uint64_t sext(uint64_t v, int w)
{
	v &= mask(w);
	if (w < 64 && ((v >> (w - 1)) & 1))
		v |= ~mask(w);
	return v;
}
/* mathematical value (mod 2^64) of an operand expression of the given C type */
static uint64_t opnd64(int kind, int tsigned, int w, uint64_t raw)
{
	switch (kind) {
	case K_N: return tsigned ? sext(raw, w) : (raw & mask(w));
	case K_I: return sext(raw, 32);
	case K_J: return raw & mask(32);
	default: return raw;
	}
}
/* bit pattern of the operand as the C variable holds it (what is printed) */
static uint64_t opnd_bits(int kind, int w, uint64_t raw)
{
	switch (kind) {
	case K_N: return raw & mask(w);
	case K_I: case K_J: return raw & mask(32);
	default: return raw;
	}
}
static void ref(int op, int w, uint64_t old, uint64_t A, uint64_t Bv, uint64_t *newv, uint64_t *ret, int *has)
{
	uint64_t m = mask(w), a = A & m, b = Bv & m;
	*has = 0; *ret = 0; *newv = old;
	switch (op) {
	case OP_SET: *newv = a; break;
	case OP_READ: *ret = old; *has = 1; break;
	case OP_XCHG: *newv = a; *ret = old; *has = 1; break;
	case OP_CMPXCHG: if (old == a) *newv = b; *ret = old; *has = 1; break;
	case OP_ADD_RETURN: *newv = (old + a) & m; *ret = *newv; *has = 1; break;
	case OP_SUB_RETURN: *newv = (old - a) & m; *ret = *newv; *has = 1; break;
	case OP_ADD: *newv = (old + a) & m; break;
	case OP_SUB: *newv = (old - a) & m; break;
	case OP_INC: *newv = (old + 1) & m; break;
	case OP_DEC: *newv = (old - 1) & m; break;
	case OP_AND: *newv = old & a; break;
	case OP_OR: *newv = old | a; break;
	}
}

static void hex16(char *dst, const unsigned char *p)
{
	static const char d[] = "0123456789abcdef";
	int i;
	for (i = 0; i < 16; i++) { dst[2 * i] = d[p[i] >> 4]; dst[2 * i + 1] = d[p[i] & 15]; }
	dst[32] = 0;
}

/* run one case on the implementation, check it against the reference, optionally print it */
static void do_case(int op, int tix, int off, int kind, uint64_t araw, uint64_t braw, const unsigned char *img,
		    int print)
{
	int w = t_width[tix], s = t_signed[tix], nb = w / 8, i, has = 0, rhas;
	uint64_t res = 0, old = 0, rnew, rret, eres;
	unsigned char exp[16], pre[16], post[16];
	char h1[33], h2[33];

	for (i = 0; i < 16; i++) {
		pre[i] = (unsigned char) (0xA5 ^ (i * 29) ^ (unsigned) ncases);
		post[i] = (unsigned char) (0x5A ^ (i * 31) ^ (unsigned) (ncases >> 3));
	}
	memcpy(B.pre, pre, 16);
	memcpy(B.post, post, 16);
	memcpy(B.win, img, 16);
	for (i = nb - 1; i >= 0; i--)
		old = (old << 8) | img[off + i];

	dispatch[tix][kind](op, B.win + off, araw, braw, &res, &has);

	ref(op, w, old, opnd64(kind, s, w, araw), opnd64(kind, s, w, braw), &rnew, &rret, &rhas);
	memcpy(exp, img, 16);
	for (i = 0; i < nb; i++)
		exp[off + i] = (unsigned char) (rnew >> (8 * i));
	eres = s ? sext(rret, w) : (rret & mask(w));
	ncases++;
	if (has != rhas || (has && res != eres) || memcmp(exp, B.win, 16) || memcmp(pre, B.pre, 16)
	    || memcmp(post, B.post, 16)) {
		if (oracle_fail < 10) {
			hex16(h1, img); hex16(h2, B.win);
			fprintf(stderr, "ORACLE %s width=%d signed=%d off=%d kind=%c a=%016llx b=%016llx old=%llx: "
				"impl result %016llx image %s, reference result %016llx new value %llx%s%s (old image %s)\n",
				opname[op], w, s, off, kindch[kind], (unsigned long long) opnd_bits(kind, w, araw),
				(unsigned long long) opnd_bits(kind, w, braw), (unsigned long long) old,
				(unsigned long long) res, h2, (unsigned long long) eres, (unsigned long long) rnew,
				memcmp(exp, B.win, 16) ? " IMAGE-DIFFERS" : "",
				(memcmp(pre, B.pre, 16) || memcmp(post, B.post, 16)) ? " CANARY-CLOBBERED" : "", h1);
		}
		oracle_fail++;
		print = 1;
	}
	if (print) {
		hex16(h1, img); hex16(h2, B.win);
		printf("%s %d %d %d %s", opname[op], w, s, off, h1);
		if (op_nargs[op] >= 1) printf(" %c:%llx", kindch[kind], (unsigned long long) opnd_bits(kind, w, araw));
		if (op_nargs[op] >= 2) printf(" %c:%llx", kindch[kind], (unsigned long long) opnd_bits(kind, w, braw));
		if (has) printf(" -> %016llx %s\n", (unsigned long long) res, h2);
		else printf(" -> - %s\n", h2);
		nprinted++;
	}
}

/* image with the old value planted at off */
static void mkimg(unsigned char *img, int style, int off, int w, uint64_t old)
{
	int i;
	for (i = 0; i < 16; i++)
		img[i] = style == 0 ? 0x00 : style == 1 ? 0xff : (unsigned char) rnd();
	for (i = 0; i < w / 8; i++)
		img[off + i] = (unsigned char) (old >> (8 * i));
}

/* boundary values of a w-bit object */
static int boundary(int w, uint64_t *v)
{
	uint64_t m = mask(w), sb = 1ULL << (w - 1);
	int n = 0;
	v[n++] = 0; v[n++] = 1; v[n++] = m /* -1 */; v[n++] = sb /* min */; v[n++] = sb - 1 /* max */;
	v[n++] = sb + 1; v[n++] = m - 1 /* -2 */; v[n++] = 2; v[n++] = 0x5555555555555555ULL & m;
	v[n++] = rnd() & m;
	return n;
}

/* operand raw values for (kind, w): boundary values of the object width, each also with different bits
 * above bit w (operand types wider than the object), and the boundary values of the operand type itself */
static int operands(int kind, int w, uint64_t *v)
{
	uint64_t b[16], m = mask(w);
	int nb = boundary(w, b), n = 0, i, kw = kind == K_N ? w : (kind == K_I || kind == K_J) ? 32 : 64;
	for (i = 0; i < nb; i++) {
		v[n++] = b[i];
		if (kw > w) {
			v[n++] = b[i] | ~m;			/* all upper bits set */
			v[n++] = b[i] | (1ULL << w);		/* just the bit above */
			v[n++] = b[i] | (rnd() & ~m);		/* random upper bits */
		}
	}
	if (kw != w) {
		uint64_t km = mask(kw), ks = 1ULL << (kw - 1);
		v[n++] = km; v[n++] = ks; v[n++] = ks - 1; v[n++] = km - 1; v[n++] = ks + 1;
	}
	return n;
}

static unsigned long rot;	/* rotates offsets / image styles so that all are used */

static void directed(int light)
{
	int op, tix, kind, io, ia, ib, na, no, nbv;
	uint64_t olds[16], as[80], bs[16];
	unsigned char img[16];

	for (op = 0; op < NOPS; op++)
	for (tix = 0; tix < 8; tix++) {
		int w = t_width[tix], noff = 16 / (w / 8);
		for (kind = 0; kind < NKINDS; kind++) {
			if (op_nargs[op] == 0 && kind != K_N)
				continue;
			if (light && op != OP_SET && op != OP_READ && (kind == K_J || kind == K_L))
				continue;
			no = boundary(w, olds);
			na = op_nargs[op] >= 1 ? operands(kind, w, as) : 1;
			for (io = 0; io < no; io++)
			for (ia = 0; ia < na; ia++) {
				int off = (int) (rot % noff) * (w / 8);
				uint64_t a = op_nargs[op] >= 1 ? as[ia] : 0;
				rot++;
				if (op == OP_CMPXCHG) {
					/* expected: the operand list (mostly failing compares), plus values that
					 * truncate to the old value (succeeding compares, equal only below bit w) */
					nbv = boundary(w, bs);
					for (ib = 0; ib < 3; ib++) {
						uint64_t bnew = bs[(ia + ib * 3 + io) % nbv] | ((ib == 1) ? ~mask(w) : 0);
						mkimg(img, (int) (rot % 3), off, w, olds[io]);
						do_case(op, tix, off, kind, a, bnew, img, 1);
						mkimg(img, (int) ((rot + 1) % 3), off, w, olds[io]);
						do_case(op, tix, off, kind, (a & ~mask(w)) | olds[io], bnew, img, 1);
					}
				} else {
					mkimg(img, (int) (rot % 3), off, w, olds[io]);
					do_case(op, tix, off, kind, a, 0, img, 1);
				}
			}
		}
	}
}

/* every 8-bit (old, operand) pair of every operation, both signednesses.  The oracle checks every
 * case; every stride-th case is printed for the Lean driver (stride 1: all). */
static void exh8(unsigned long stride, unsigned long seed)
{
	int op, tix, old, a;
	unsigned char img[16];
	unsigned long idx = seed;

	for (tix = 0; tix < 2; tix++)
	for (op = 0; op < NOPS; op++) {
		int passes = op == OP_CMPXCHG ? 2 : 1, pass;
		for (pass = 0; pass < passes; pass++)
		for (old = 0; old < 256; old++)
		for (a = 0; a < (op_nargs[op] ? 256 : 1); a++) {
			int off = (int) (idx % 16), kind = (idx / 16) % 3 == 2 ? K_I : K_N;
			uint64_t araw = (uint64_t) a, braw = 0;
			if (kind == K_I)	/* same low byte, operand is an int with random upper bits */
				araw |= rnd() & 0xffffff00u;
			if (op == OP_CMPXCHG) {
				if (pass == 0) {	/* all (old, expected) pairs, new derived */
					braw = (uint64_t) ((old * 7 + a * 13 + 1) & 0xff);
				} else {		/* all (old, new) pairs, compare succeeds */
					braw = araw;
					araw = (uint64_t) old | (kind == K_I ? (rnd() & 0xffffff00u) : 0);
				}
			}
			mkimg(img, 2, off, 8, (uint64_t) old);
			do_case(op, tix, off, kind, araw, braw, img, (idx % stride) == 0);
			idx++;
		}
	}
}

static void randomized(unsigned long n)
{
	unsigned long k;
	unsigned char img[16];
	uint64_t bv[16];

	for (k = 0; k < n; k++) {
		int op = (int) (rnd() % NOPS), tix = (int) (rnd() % 8), w = t_width[tix], kind = (int) (rnd() % NKINDS);
		int off = (int) (rnd() % (16 / (w / 8))) * (w / 8), nb;
		uint64_t old, a, b;
		nb = boundary(w, bv);
		old = (rnd() & 3) ? (rnd() & mask(w)) : bv[rnd() % nb];
		a = (rnd() & 3) ? rnd() : (bv[rnd() % nb] | ((rnd() & 1) ? ~mask(w) : 0));
		b = (rnd() & 3) ? rnd() : bv[rnd() % nb];
		if (op == OP_CMPXCHG && (rnd() & 1))
			a = (a & ~mask(w)) | old;	/* succeeding compare */
		if (op_nargs[op] == 0)
			kind = K_N;
		mkimg(img, (int) (rnd() % 3), off, w, old);
		do_case(op, tix, off, kind, a, b, img, 1);
	}
}

/* ------------------------------------------------------------------------------------------ */
/* Multi-thread hammer: supporting exploration only (the no-lost-update theorems are about the model;
 * that a lock-prefixed instruction is atomic is the hardware assumption this exercises). */
#define MAXT 16
static struct {
	unsigned char pre[64];
	unsigned char win[16] __attribute__((aligned(16)));
	unsigned char post[64];
} H __attribute__((aligned(64)));
static int h_threads;
static unsigned long h_iters;
static int h_w, h_phase;
static pthread_barrier_t h_bar;
static uint64_t h_delta[MAXT][16];	/* per thread, per location: sum of what it added */
static uint64_t h_held[MAXT];		/* token held by thread (xchg phase) */
static uint64_t h_retsum[MAXT];
static int h_mono_viol[MAXT];

#define HAMMER_ADD(T)												\
	do {													\
		T *base = (T *) H.win;										\
		for (i = 0; i < h_iters; i++) {									\
			unsigned j = (unsigned) ((i + (unsigned long) t * 3) % nloc);				\
			uint64_t r = (x ^= x << 13, x ^= x >> 7, x ^= x << 17, x);				\
			T v = (T) (r >> 8);									\
			switch (r & 7) {									\
			case 0: uatomic_add(&base[j], v); d[j] += (uint64_t) v; break;				\
			case 1: uatomic_sub(&base[j], v); d[j] -= (uint64_t) v; break;				\
			case 2: uatomic_inc(&base[j]); d[j] += 1; break;					\
			case 3: uatomic_dec(&base[j]); d[j] -= 1; break;					\
			case 4: (void) uatomic_add_return(&base[j], v); d[j] += (uint64_t) v; break;		\
			case 5: (void) uatomic_sub_return(&base[j], v); d[j] -= (uint64_t) v; break;		\
			case 6: uatomic_add(&base[j], -1); d[j] -= 1; break;					\
			default: {	/* cmpxchg increment loop */						\
				T o, o2 = uatomic_read(&base[j]);						\
				do { o = o2; o2 = uatomic_cmpxchg(&base[j], o, (T) (o + 3)); } while (o2 != o);	\
				d[j] += 3; break; }								\
			}											\
		}												\
	} while (0)

#define HAMMER_XCHG(T)												\
	do {													\
		T *base = (T *) H.win;										\
		T held = (T) h_held[t];										\
		for (i = 0; i < h_iters; i++) {									\
			uint64_t r = (x ^= x << 13, x ^= x >> 7, x ^= x << 17, x);				\
			held = uatomic_xchg(&base[r % nloc], held);						\
		}												\
		h_held[t] = (uint64_t) held;									\
	} while (0)

#define HAMMER_ADDRET(T)											\
	do {													\
		T *ctr = (T *) H.win + (nloc - 1);								\
		T last = 0;											\
		for (i = 0; i < h_iters; i++) {									\
			T r = uatomic_add_return(ctr, 1);							\
			if (i && r <= last) h_mono_viol[t]++;							\
			last = r; h_retsum[t] += (uint64_t) r;							\
		}												\
	} while (0)

static void *hammer_thread(void *arg)
{
	int t = (int) (long) arg;
	unsigned nloc = 16 / (h_w / 8);
	uint64_t x = 0x9E3779B97F4A7C15ULL * (uint64_t) (t + 1) + (uint64_t) h_w + rng_s;
	uint64_t *d = h_delta[t];
	unsigned long i;

	pthread_barrier_wait(&h_bar);
	if (h_phase == 0) {
		switch (h_w) {
		case 8: HAMMER_ADD(unsigned char); break;
		case 16: HAMMER_ADD(short); break;
		case 32: HAMMER_ADD(unsigned int); break;
		default: HAMMER_ADD(long); break;
		}
	} else if (h_phase == 1) {
		switch (h_w) {
		case 8: HAMMER_XCHG(unsigned char); break;
		case 16: HAMMER_XCHG(unsigned short); break;
		case 32: HAMMER_XCHG(int); break;
		default: HAMMER_XCHG(unsigned long); break;
		}
	} else {
		switch (h_w) {
		case 32: HAMMER_ADDRET(unsigned int); break;
		default: HAMMER_ADDRET(unsigned long); break;
		}
	}
	return NULL;
}

static void h_run(void)
{
	pthread_t th[MAXT];
	int t;
	pthread_barrier_init(&h_bar, NULL, (unsigned) h_threads);
	for (t = 0; t < h_threads; t++)
		pthread_create(&th[t], NULL, hammer_thread, (void *) (long) t);
	for (t = 0; t < h_threads; t++)
		pthread_join(th[t], NULL);
	pthread_barrier_destroy(&h_bar);
}

static uint64_t h_get(int w, unsigned j)
{
	uint64_t v = 0;
	int i;
	for (i = w / 8 - 1; i >= 0; i--)
		v = (v << 8) | H.win[j * (unsigned) (w / 8) + (unsigned) i];
	return v;
}
static void h_put(int w, unsigned j, uint64_t v)
{
	int i;
	for (i = 0; i < w / 8; i++)
		H.win[j * (unsigned) (w / 8) + (unsigned) i] = (unsigned char) (v >> (8 * i));
}

static int cmp_u64(const void *a, const void *b)
{
	uint64_t x = *(const uint64_t *) a, y = *(const uint64_t *) b;
	return x < y ? -1 : x > y;
}

static void hammer(int threads, unsigned long iters)
{
	static const int ws[4] = { 8, 16, 32, 64 };
	int wi, t, bad;
	unsigned j;

	if (threads > MAXT) threads = MAXT;
	h_threads = threads; h_iters = iters;
	for (wi = 0; wi < 4; wi++) {
		int w = ws[wi];
		unsigned nloc = 16 / (unsigned) (w / 8);
		uint64_t init[16], toks[16 + MAXT], toks2[16 + MAXT];
		h_w = w;
		memset(H.pre, 0xC3, sizeof H.pre); memset(H.post, 0x3C, sizeof H.post);

		/* phase 0: additive RMWs on adjacent objects of one 16-byte line */
		h_phase = 0; memset(h_delta, 0, sizeof h_delta);
		for (j = 0; j < nloc; j++) { init[j] = rnd() & mask(w); h_put(w, j, init[j]); }
		h_run();
		bad = 0;
		for (j = 0; j < nloc; j++) {
			uint64_t e = init[j];
			for (t = 0; t < threads; t++) e += h_delta[t][j];
			if ((e & mask(w)) != h_get(w, j)) {
				fprintf(stderr, "ORACLE hammer lost-update width=%d location=%u: final %llx expected %llx "
					"(%d threads x %lu additive RMWs on adjacent objects)\n", w, j,
					(unsigned long long) h_get(w, j), (unsigned long long) (e & mask(w)), threads, iters);
				bad = 1;
			}
		}
		for (j = 0; j < sizeof H.pre; j++) if (H.pre[j] != 0xC3 || H.post[j] != 0x3C) bad = 2;
		if (bad == 2) fprintf(stderr, "ORACLE hammer canary clobbered width=%d\n", w);
		if (bad) oracle_fail++;
		printf("hammer add width=%d threads=%d iters=%lu locations=%u %s\n", w, threads, iters, nloc, bad ? "FAIL" : "ok");

		/* phase 1: token exchange */
		h_phase = 1;
		for (j = 0; j < nloc; j++) { toks[j] = (j + 1) & mask(w); h_put(w, j, toks[j]); }
		for (t = 0; t < threads; t++) { h_held[t] = toks[nloc + (unsigned) t] = (uint64_t) (100 + t) & mask(w); }
		h_run();
		for (j = 0; j < nloc; j++) toks2[j] = h_get(w, j);
		for (t = 0; t < threads; t++) toks2[nloc + (unsigned) t] = h_held[t] & mask(w);
		qsort(toks, nloc + (unsigned) threads, sizeof toks[0], cmp_u64);
		qsort(toks2, nloc + (unsigned) threads, sizeof toks2[0], cmp_u64);
		bad = memcmp(toks, toks2, (nloc + (unsigned) threads) * sizeof toks[0]) != 0;
		if (bad) {
			fprintf(stderr, "ORACLE hammer xchg tokens not conserved width=%d (%d threads x %lu exchanges)\n", w, threads, iters);
			oracle_fail++;
		}
		printf("hammer xchg width=%d threads=%d iters=%lu slots=%u %s\n", w, threads, iters, nloc, bad ? "FAIL" : "ok");

		/* phase 2: add_return returns every value exactly once (no wrap for 32/64 bit) */
		if (w >= 32 && (uint64_t) threads * iters < 0x7fffffffULL) {
			uint64_t n = (uint64_t) threads * iters, sum = 0;
			h_phase = 2; memset(h_retsum, 0, sizeof h_retsum); memset(h_mono_viol, 0, sizeof h_mono_viol);
			memset(H.win, 0, 16);
			h_run();
			bad = h_get(w, nloc - 1) != n;
			for (t = 0; t < threads; t++) { sum += h_retsum[t]; if (h_mono_viol[t]) bad = 1; }
			if (sum != n * (n + 1) / 2) bad = 1;
			if (bad) {
				fprintf(stderr, "ORACLE hammer add_return values not a permutation of 1..%llu width=%d\n", (unsigned long long) n, w);
				oracle_fail++;
			}
			printf("hammer add_return width=%d threads=%d iters=%lu %s\n", w, threads, iters, bad ? "FAIL" : "ok");
		}
	}
}

/* Store-buffering litmus on the real hardware (supporting exploration; counts go to stderr as INFO
 * because they are not deterministic).  variant 0: plain uatomic_set / uatomic_read; 1..4: an RMW on a
 * third location between the store and the load. */
static struct { int x __attribute__((aligned(64))); int y __attribute__((aligned(64)));
		int z[2] __attribute__((aligned(64))); int go __attribute__((aligned(64)));
		int done __attribute__((aligned(64))); } L;
static int l_variant, l_r[2];
static volatile int l_zero;	/* run-time zero operand: an RMW that changes nothing must still be a full barrier */
static unsigned long l_rounds;

static void *litmus_thread(void *arg)
{
	int t = (int) (long) arg;
	int *mine = t ? &L.y : &L.x, *other = t ? &L.x : &L.y;
	unsigned long r;
	for (r = 1; r <= l_rounds; r++) {
		while ((unsigned long) uatomic_read(&L.go) != r)
			caa_cpu_relax();
		uatomic_set(mine, 1);
		switch (l_variant) {
		case 1: (void) uatomic_xchg(&L.z[t], (int) r); break;
		case 2: (void) uatomic_cmpxchg(&L.z[t], uatomic_read(&L.z[t]), (int) r); break;
		case 3: (void) uatomic_add_return(&L.z[t], 1); break;
		case 4: (void) uatomic_sub_return(&L.z[t], 1); break;
		case 5: (void) uatomic_add_return(&L.z[t], l_zero); break;
		case 6: (void) uatomic_sub_return(&L.z[t], l_zero); break;
		case 7: (void) uatomic_add_return(&L.z[t], 0); break;
		case 8: (void) uatomic_cmpxchg(&L.z[t], -12345, (int) r); break;	/* comparison fails: still a barrier */
		case 9: (void) uatomic_xchg(&L.z[t], 0); break;			/* stores the value already there */
		default: break;
		}
		l_r[t] = uatomic_read(other);
		cmm_smp_mb();
		uatomic_inc(&L.done);
		while ((unsigned long) uatomic_read(&L.go) == r)
			caa_cpu_relax();
	}
	return NULL;
}

static void litmus(unsigned long rounds)
{
	static const char *vn[10] = { "plain", "xchg", "cmpxchg", "add_return", "sub_return", "add_return(zero operand)",
				      "sub_return(zero operand)", "add_return(constant 0)", "cmpxchg(failing)", "xchg(same value)" };
	int v;
	l_rounds = rounds;
	for (v = 0; v < 10; v++) {
		pthread_t th[2];
		unsigned long r, both0 = 0;
		l_variant = v;
		memset(&L, 0, sizeof L);
		pthread_create(&th[0], NULL, litmus_thread, (void *) 0L);
		pthread_create(&th[1], NULL, litmus_thread, (void *) 1L);
		for (r = 1; r <= rounds; r++) {
			L.x = 0; L.y = 0; uatomic_set(&L.done, 0);
			cmm_smp_mb();
			uatomic_set(&L.go, (int) r);
			while (uatomic_read(&L.done) != 2)
				caa_cpu_relax();
			cmm_smp_mb();
			if (l_r[0] == 0 && l_r[1] == 0)
				both0++;
			if (r == rounds)
				uatomic_set(&L.go, 0);
			else
				uatomic_set(&L.go, -(int) r);	/* release the threads from the end-of-round wait */
		}
		pthread_join(th[0], NULL);
		pthread_join(th[1], NULL);
		fprintf(stderr, "INFO litmus sb variant=%s rounds=%lu both_zero=%lu\n", vn[v], rounds, both0);
		if (v > 0 && both0) {
			fprintf(stderr, "ORACLE litmus: r0=r1=0 observed %lu times with uatomic_%s between store and load\n", both0, vn[v]);
			oracle_fail++;
		}
		printf("litmus sb variant=%s rounds=%lu %s\n", vn[v], rounds, (v > 0 && both0) ? "FAIL" : "ok");
	}
}

/* ------------------------------------------------------------------------------------------ */
/* "plain store then RMW" facet (compiler contract of the inline asm / builtins).
 *
 * Genuine defect found on the unchanged tree (repaired in /repo by "fix: x86 uatomic add/sub/inc/dec/and/or
 * read their memory operand"): __uatomic_and/or/add/inc/dec declared their memory operand write-only ("=m"),
 * so gcc -O2 deleted a preceding PLAIN C store to the same object as dead:
 *     g = 5; cmm_barrier(); g = 10; uatomic_inc(&g);   left g == 6.
 * The streams above never have a plain store and the RMW in one function, so they cannot see this.  Here,
 * for every RMW op x pointee type, separate noinline/noclone functions (this file is built at -O1, -O2 and
 * -O3 for this mode) do
 *     fwd : *p = a; cmm_barrier(); *p = b; uatomic_op(p, v); return *p;     (expected op(b, v))
 *     fwd1:                        *p = b; uatomic_op(p, v); return *p;
 *     rev : before = *p; uatomic_op(p, v); return *p;                       (the load after must be fresh)
 * on a global, a function-local static, an object malloc'ed inside the function and through a pointer
 * parameter.  Checked by the plain-C reference `ref` (oracle level: this is about what the compiler may
 * assume about the asm operands, which the Lean model of the header text does not represent); each case is
 * also printed as an ordinary operation line (old image = the value of the latest plain store) so that
 * the driver replays it on the model as well. */
struct ps_res { uint64_t ret, fin, before; };
typedef struct ps_res (*psfn)(uint64_t, uint64_t, uint64_t, uint64_t, void *);

#define PSDO_add(p, v, v2, r)		uatomic_add(p, v)
#define PSDO_sub(p, v, v2, r)		uatomic_sub(p, v)
#define PSDO_inc(p, v, v2, r)		uatomic_inc(p)
#define PSDO_dec(p, v, v2, r)		uatomic_dec(p)
#define PSDO_and(p, v, v2, r)		uatomic_and(p, v)
#define PSDO_or(p, v, v2, r)		uatomic_or(p, v)
#define PSDO_add_return(p, v, v2, r)	r = uatomic_add_return(p, v)
#define PSDO_sub_return(p, v, v2, r)	r = uatomic_sub_return(p, v)
#define PSDO_xchg(p, v, v2, r)		r = uatomic_xchg(p, v)
#define PSDO_cmpxchg(p, v, v2, r)	r = uatomic_cmpxchg(p, v, v2)

#define PS_ATTR __attribute__((noinline, noclone)) static struct ps_res
#define PSFN(TN, T, OP)												\
T psobj_##TN##_##OP;												\
PS_ATTR ps_glob_##TN##_##OP(uint64_t a_, uint64_t b_, uint64_t v_, uint64_t v2_, void *unused)			\
{														\
	struct ps_res res = { 0, 0, 0 }; T a = (T) a_, b = (T) b_, v = (T) v_, v2 = (T) v2_, r = 0;		\
	(void) unused; (void) v; (void) v2;									\
	psobj_##TN##_##OP = a; cmm_barrier(); psobj_##TN##_##OP = b;						\
	PSDO_##OP(&psobj_##TN##_##OP, v, v2, r);								\
	res.fin = (uint64_t) psobj_##TN##_##OP; res.ret = (uint64_t) r; return res;				\
}														\
PS_ATTR ps_stat_##TN##_##OP(uint64_t a_, uint64_t b_, uint64_t v_, uint64_t v2_, void *unused)			\
{														\
	static T s;												\
	struct ps_res res = { 0, 0, 0 }; T a = (T) a_, b = (T) b_, v = (T) v_, v2 = (T) v2_, r = 0;		\
	(void) unused; (void) v; (void) v2;									\
	s = a; cmm_barrier(); s = b;										\
	PSDO_##OP(&s, v, v2, r);										\
	res.fin = (uint64_t) s; res.ret = (uint64_t) r; return res;						\
}														\
PS_ATTR ps_heap_##TN##_##OP(uint64_t a_, uint64_t b_, uint64_t v_, uint64_t v2_, void *unused)			\
{														\
	struct ps_res res = { 0, 0, 0 }; T a = (T) a_, b = (T) b_, v = (T) v_, v2 = (T) v2_, r = 0;		\
	T *p = (T *) malloc(sizeof(T));										\
	(void) unused; (void) v; (void) v2;									\
	if (!p) abort();											\
	*p = a; cmm_barrier(); *p = b;										\
	PSDO_##OP(p, v, v2, r);											\
	res.fin = (uint64_t) *p; res.ret = (uint64_t) r; free(p); return res;					\
}														\
PS_ATTR ps_ptr_##TN##_##OP(uint64_t a_, uint64_t b_, uint64_t v_, uint64_t v2_, void *p_)			\
{														\
	struct ps_res res = { 0, 0, 0 }; T a = (T) a_, b = (T) b_, v = (T) v_, v2 = (T) v2_, r = 0;		\
	T *p = (T *) p_;											\
	(void) v; (void) v2;											\
	*p = a; cmm_barrier(); *p = b;										\
	PSDO_##OP(p, v, v2, r);											\
	res.fin = (uint64_t) *p; res.ret = (uint64_t) r; return res;						\
}														\
PS_ATTR ps_fwd1_##TN##_##OP(uint64_t a_, uint64_t b_, uint64_t v_, uint64_t v2_, void *p_)			\
{														\
	struct ps_res res = { 0, 0, 0 }; T b = (T) b_, v = (T) v_, v2 = (T) v2_, r = 0;				\
	T *p = (T *) p_;											\
	(void) a_; (void) v; (void) v2;										\
	*p = b;													\
	PSDO_##OP(p, v, v2, r);											\
	res.fin = (uint64_t) *p; res.ret = (uint64_t) r; return res;						\
}														\
PS_ATTR ps_rev_##TN##_##OP(uint64_t a_, uint64_t b_, uint64_t v_, uint64_t v2_, void *p_)			\
{														\
	struct ps_res res = { 0, 0, 0 }; T v = (T) v_, v2 = (T) v2_, r = 0, before;				\
	T *p = (T *) p_;											\
	(void) a_; (void) b_; (void) v; (void) v2;								\
	before = *p;												\
	PSDO_##OP(p, v, v2, r);											\
	res.fin = (uint64_t) *p; res.before = (uint64_t) before; res.ret = (uint64_t) r; return res;		\
}
#define PSFNS(TN, T)												\
	PSFN(TN, T, add) PSFN(TN, T, sub) PSFN(TN, T, inc) PSFN(TN, T, dec) PSFN(TN, T, and) PSFN(TN, T, or)	\
	PSFN(TN, T, add_return) PSFN(TN, T, sub_return) PSFN(TN, T, xchg) PSFN(TN, T, cmpxchg)
PSFNS(s8, signed char) PSFNS(u8, unsigned char) PSFNS(s16, short) PSFNS(u16, unsigned short)
PSFNS(s32, int) PSFNS(u32, unsigned int) PSFNS(s64, long) PSFNS(u64, unsigned long)

enum { PS_GLOB, PS_STAT, PS_HEAP, PS_PTR, PS_FWD1, PS_REV, PS_NVAR };
static const char *ps_varname[PS_NVAR] = { "fwd-global", "fwd-static", "fwd-malloc", "fwd-pointer", "fwd1-pointer", "rev-pointer" };
#define PSROW(TN, OP) { ps_glob_##TN##_##OP, ps_stat_##TN##_##OP, ps_heap_##TN##_##OP, ps_ptr_##TN##_##OP, ps_fwd1_##TN##_##OP, ps_rev_##TN##_##OP }
#define PSROWS(TN) { PSROW(TN, add), PSROW(TN, sub), PSROW(TN, inc), PSROW(TN, dec), PSROW(TN, and), PSROW(TN, or),	\
		     PSROW(TN, add_return), PSROW(TN, sub_return), PSROW(TN, xchg), PSROW(TN, cmpxchg) }
static const psfn ps_table[8][10][PS_NVAR] = { PSROWS(s8), PSROWS(u8), PSROWS(s16), PSROWS(u16), PSROWS(s32), PSROWS(u32),
						PSROWS(s64), PSROWS(u64) };
static const int ps_ops[10] = { OP_ADD, OP_SUB, OP_INC, OP_DEC, OP_AND, OP_OR, OP_ADD_RETURN, OP_SUB_RETURN, OP_XCHG, OP_CMPXCHG };

/* the caller-side plain store for the `rev` variant, opaque to the optimizer */
__attribute__((noinline, noclone)) static void ps_plant(void *p, int w, uint64_t v)
{
	memcpy(p, &v, (size_t) (w / 8));	/* little endian host (x86-64) */
	__asm__ __volatile__("" : : "r"(p) : "memory");
}

static void plainstore(void)
{
	static union { unsigned char c[16]; unsigned long l; } cell __attribute__((aligned(16)));
	int tix, oi, var, k, i;
	char h1[33], h2[33];
	unsigned char img[16];

	for (tix = 0; tix < 8; tix++)
	for (oi = 0; oi < 10; oi++) {
		int op = ps_ops[oi], w = t_width[tix], s = t_signed[tix], nv;
		uint64_t m = mask(w), vals[8][4], bv[16];
		nv = 0;
		boundary(w, bv);
		/* (a, b, v, v2): the demo's values, boundary values, random */
		vals[nv][0] = 5; vals[nv][1] = 10; vals[nv][2] = 3; vals[nv][3] = 7; nv++;
		vals[nv][0] = 0; vals[nv][1] = bv[4] /* max */; vals[nv][2] = 1; vals[nv][3] = bv[3]; nv++;
		vals[nv][0] = m; vals[nv][1] = bv[3] /* min */; vals[nv][2] = m /* -1 */; vals[nv][3] = 0; nv++;
		vals[nv][0] = 0x5555555555555555ULL & m; vals[nv][1] = 0xAAAAAAAAAAAAAAAAULL & m; vals[nv][2] = 0x0F0F0F0F0F0F0F0FULL & m; vals[nv][3] = m; nv++;
		vals[nv][0] = rnd() & m; vals[nv][1] = rnd() & m; vals[nv][2] = rnd() & m; vals[nv][3] = rnd() & m; nv++;
		vals[nv][0] = rnd() & m; vals[nv][1] = m; vals[nv][2] = rnd() & m; vals[nv][3] = rnd() & m; nv++;
		for (var = 0; var < PS_NVAR; var++)
		for (k = 0; k < nv + (op == OP_CMPXCHG ? nv : 0); k++) {
			uint64_t a = vals[k % nv][0], b = vals[k % nv][1], v = vals[k % nv][2], v2 = vals[k % nv][3];
			uint64_t rnew, rret, eres, efin;
			struct ps_res res;
			int rhas, badv;
			if (op == OP_CMPXCHG && k >= nv)
				v = b;	/* succeeding compare */
			memset(&cell, 0xEE, sizeof cell);
			if (var == PS_REV)
				ps_plant(&cell, w, b);
			res = ps_table[tix][oi][var](a, b, v, v2, &cell);
			ref(op, w, b, opnd64(K_N, s, w, v), opnd64(K_N, s, w, v2), &rnew, &rret, &rhas);
			eres = rhas ? (s ? sext(rret, w) : (rret & m)) : 0;
			efin = s ? sext(rnew, w) : (rnew & m);
			ncases++;
			badv = res.fin != efin || res.ret != eres || (var == PS_REV && (res.before & m) != b);
			if (badv) {
				if (oracle_fail < 10)
					fprintf(stderr, "ORACLE plainstore %s uatomic_%s width=%d signed=%d: plain stores a=%llx then b=%llx, "
						"operand %llx %llx: object afterwards %llx, returned %llx; reference: object %llx, returned %llx "
						"(a plain C store before the RMW, or the load after it, was not honoured)\n",
						ps_varname[var], opname[op], w, s, (unsigned long long) a, (unsigned long long) b,
						(unsigned long long) v, (unsigned long long) v2, (unsigned long long) res.fin,
						(unsigned long long) res.ret, (unsigned long long) efin, (unsigned long long) eres);
				oracle_fail++;
			}
			/* the same case as an ordinary operation line for the Lean driver */
			memset(img, 0, 16);
			for (i = 0; i < w / 8; i++) img[i] = (unsigned char) (b >> (8 * i));
			hex16(h1, img);
			for (i = 0; i < w / 8; i++) img[i] = (unsigned char) (res.fin >> (8 * i));
			hex16(h2, img);
			printf("# plainstore %s\n", ps_varname[var]);
			printf("%s %d %d 0 %s", opname[op], w, s, h1);
			if (op_nargs[op] >= 1) printf(" n:%llx", (unsigned long long) (v & m));
			if (op_nargs[op] >= 2) printf(" n:%llx", (unsigned long long) (v2 & m));
			if (rhas) printf(" -> %016llx %s\n", (unsigned long long) res.ret, h2);
			else printf(" -> - %s\n", h2);
			nprinted++;
		}
	}
}

int main(int argc, char **argv)
{
	unsigned long seed = argc > 1 ? strtoul(argv[1], 0, 0) : 1;
	const char *mode = argc > 2 ? argv[2] : "directed";
	int i;

	rng_s = seed * 0x9E3779B97F4A7C15ULL + 0x7654321;
	for (i = 0; i < 5; i++) rnd();
	rot = seed;
#ifdef CONFIG_RCU_USE_ATOMIC_BUILTINS
	printf("impl builtins stdc %ld\n", (long) __STDC_VERSION__);
#else
	printf("impl x86 stdc %ld\n", (long) __STDC_VERSION__);
#endif
	if (!strcmp(mode, "directed")) {
		directed(argc > 3 && !strcmp(argv[3], "light"));
	} else if (!strcmp(mode, "exh8")) {
		exh8(argc > 3 ? strtoul(argv[3], 0, 0) : 1, seed);
	} else if (!strcmp(mode, "random")) {
		randomized(argc > 3 ? strtoul(argv[3], 0, 0) : 1000);
	} else if (!strcmp(mode, "rtype")) {
		rtype_s8(8, 1); rtype_u8(8, 0); rtype_s16(16, 1); rtype_u16(16, 0);
		rtype_s32(32, 1); rtype_u32(32, 0); rtype_s64(64, 1); rtype_u64(64, 0);
	} else if (!strcmp(mode, "hammer")) {
		hammer(argc > 3 ? atoi(argv[3]) : 4, argc > 4 ? strtoul(argv[4], 0, 0) : 100000);
	} else if (!strcmp(mode, "plainstore")) {
#ifdef __OPTIMIZE__
		printf("# optimize 1\n");
#endif
		plainstore();
	} else if (!strcmp(mode, "litmus")) {
		litmus(argc > 3 ? strtoul(argv[3], 0, 0) : 20000);
	} else {
		fprintf(stderr, "unknown mode %s\n", mode);
		return 2;
	}
	printf("# cases %lu printed %lu\n", ncases, nprinted);
	if (oracle_fail) {
		fprintf(stderr, "ORACLE total mismatches: %d\n", oracle_fail);
		return 3;
	}
	return 0;
}
#endif /* UATOMIC_DISASM */
