/*
 * C16 tie, hash-table part: the cds_lfht atfork hooks (src/rculfhash.c: cds_lfht_before_fork /
 * after_fork_parent / after_fork_child with the nesting counter) and the work-queue handlers they
 * call (src/workqueue.c: urcu_workqueue_pause_worker / resume_worker / create_worker), reached
 * through the documented call_rcu handlers of the flavor (src/urcu-call-rcu-impl.h).
 *
 * One source file, three translation units (static helpers of the library sources clash otherwise):
 *   -DTU_FLAVOR : vrt_shim.h + src/urcu.c (memb)   -DTU_WQ : vrt_shim.h + src/workqueue.c
 *   (default)   : vrt_shim.h + src/rculfhash.c + the scenario
 * linked with the unshimmed rculfhash-mm-*.c, compat_arch.c, vrt.c, vrt_compat_futex.c.
 *
 * Run: a resizable (CDS_LFHT_AUTO_RESIZE) table is filled so that lazy resizes are queued on the
 * resize worker; at a seed-chosen point the handlers are called around vrt_fork() – `--nest N` times
 * each, as an application registered with N flavors would (nesting counter) –; parent and child then
 * go on adding, looking up, resizing explicitly and lazily, removing, and destroy the table.
 * Oracles: every key added and not removed is found, in either process; the nesting counter is 0 and
 * cds_lfht_fork_mutex is free after the handlers, non-zero/held in between; cds_lfht_destroy()
 * succeeds; the worker thread exists in the child (a queued resize is executed there); termination
 * (DEADLOCK exit 4 / BUDGET exit 5).  Informational: `WQFUTEX v` = value of the work queue's futex
 * right after the handlers (v < -1 in the child means the re-created worker never sleeps).
 */
#ifdef TU_FLAVOR
#include "vrt_shim.h"
#include "urcu.c"
#elif defined(TU_WQ)
#include "vrt_shim.h"
#include "workqueue.c"
int scn_wq_futex(struct urcu_workqueue *wq) { return wq ? (int)wq->futex : 0; }
unsigned long scn_wq_flags(struct urcu_workqueue *wq) { return wq ? wq->flags : 0; }
void scn_wq_name(struct urcu_workqueue *wq)
{
	if (!wq) return;
	vrt_name(&wq->flags, sizeof(wq->flags), "wq.flags");
	vrt_name(&wq->futex, sizeof(wq->futex), "wq.futex");
	vrt_name(&wq->qlen, sizeof(wq->qlen), "wq.qlen");
	vrt_name(&wq->cbs_tail.p, sizeof(wq->cbs_tail.p), "wq.tail");
	vrt_name(&wq->cbs_head.node, sizeof(wq->cbs_head.node), "wq.head");
}
#else
#define _LGPL_SOURCE
#include "vrt_shim.h"
#include <urcu/urcu-memb.h>
#include "rculfhash.c"
#include <stdbool.h>

extern int scn_wq_futex(struct urcu_workqueue *wq);
extern unsigned long scn_wq_flags(struct urcu_workqueue *wq);
extern void scn_wq_name(struct urcu_workqueue *wq);

#define MAXK 512
struct knode { struct cds_lfht_node node; unsigned long key; int in; };
static struct knode pool[MAXK];
static struct cds_lfht *ht;
static int nest = 1, pre = 40, post = 30, delay = -1, generation, fdepth;
static int child_pid;

static int match(struct cds_lfht_node *n, const void *k) { return caa_container_of(n, struct knode, node)->key == *(const unsigned long *)k; }
static unsigned long hash_of(unsigned long k) { return k * 0x9E3779B97F4A7C15UL; }

static void add_key(unsigned long k)
{
	if (pool[k].in) return;
	pool[k].key = k;
	cds_lfht_node_init(&pool[k].node);
	vrt_log("CALL add %lu", k);
	urcu_memb_read_lock();
	cds_lfht_add(ht, hash_of(k), &pool[k].node);
	urcu_memb_read_unlock();
	vrt_log("RET add");
	pool[k].in = 1;
}

static void del_key(unsigned long k)
{
	int r;
	if (!pool[k].in) return;
	vrt_log("CALL del %lu", k);
	urcu_memb_read_lock();
	r = cds_lfht_del(ht, &pool[k].node);
	urcu_memb_read_unlock();
	vrt_log("RET del %d", r);
	if (r) vrt_fail("lfht", "generation %d: del of present key %lu failed (%d)", generation, k, r);
	pool[k].in = 0;
}

static void check_all(const char *when)
{
	unsigned long k;
	struct cds_lfht_iter it;
	vrt_log("CALL check %s", when);
	for (k = 0; k < MAXK; k++) {
		struct cds_lfht_node *n;
		urcu_memb_read_lock();
		cds_lfht_lookup(ht, hash_of(k), match, &k, &it);
		n = cds_lfht_iter_get_node(&it);
		urcu_memb_read_unlock();
		if (!!n != !!pool[k].in)
			vrt_fail("lfht", "generation %d (%s): key %lu %s but lookup says %s", generation, when, k,
				 pool[k].in ? "present" : "absent", n ? "present" : "absent");
	}
	vrt_log("RET check");
}

static void work(int n)
{
	int i;
	for (i = 0; i < n; i++) {
		unsigned c = vrt_rand() % 100;
		unsigned long k = vrt_rand() % MAXK;
		if (c < 70) add_key(k);
		else if (c < 90) del_key(k);
		else if (c < 95) { vrt_log("CALL resize"); cds_lfht_resize(ht, 1UL << (1 + vrt_rand() % 6)); vrt_log("RET resize"); }
		else vrt_sleep(1 + vrt_rand() % 30);
	}
}

static void state_line(const char *tag)
{
	vrt_log("%s nesting=%d wq=%d WQFUTEX %d flags=%lu", tag, cds_lfht_workqueue_atfork_nesting, cds_lfht_workqueue != NULL,
		scn_wq_futex(cds_lfht_workqueue), scn_wq_flags(cds_lfht_workqueue));
}

static void finish(void)
{
	unsigned long k;
	int r;
	check_all("final");
	for (k = 0; k < MAXK; k++)
		del_key(k);
	vrt_log("CALL destroy");
	r = cds_lfht_destroy(ht, NULL);
	vrt_log("RET destroy %d", r);
	if (r) vrt_fail("lfht", "generation %d: cds_lfht_destroy failed (%d)", generation, r);
	vrt_log("CALL barrier");
	urcu_memb_barrier();
	vrt_log("RET barrier");
	urcu_memb_unregister_thread();
	if (child_pid)
		vrt_wait_child(child_pid);
	/* the library destructor (cds_lfht_exit) stops the worker */
	vrt_raw("# SUMMARY gen=%d", generation);
	cds_lfht_exit();
	vrt_finish();
}

static void do_fork(void)
{
	int i, pid, fd[2];
	struct call_rcu_data *d;
	state_line("PRE");
	for (i = 0; i < nest; i++) {
		vrt_log("CALL before_fork");
		urcu_memb_call_rcu_before_fork();
		vrt_log("RET before_fork");
		if (i + 1 < nest) {
			/* a second flavor's handler would take ITS call_rcu_mutex; ours is already held: release it
			 * behind the library's back is not possible from here, so the nested calls go straight to
			 * the hook the flavors share */
			break;
		}
	}
	for (i = 1; i < nest; i++) {
		vrt_log("CALL lfht_before_fork");
		cds_lfht_before_fork(NULL);
		vrt_log("RET lfht_before_fork");
	}
	state_line("ATFORK");
	if (cds_lfht_workqueue_atfork_nesting != nest)
		vrt_fail("nesting", "nesting counter %d after %d before_fork calls", cds_lfht_workqueue_atfork_nesting, nest);
	if (cds_lfht_workqueue && !(scn_wq_flags(cds_lfht_workqueue) & URCU_WORKQUEUE_PAUSED))
		vrt_fail("quiescent", "before_fork returned while the resize worker is not PAUSED");
	if (pipe(fd)) _exit(9);
	pid = vrt_fork();
	if (pid < 0) _exit(9);
	if (pid == 0) {
		close(fd[0]); if (write(fd[1], "x", 1) != 1) _exit(9); close(fd[1]);
		generation++;
		child_pid = 0;
		for (i = 1; i < nest; i++) {
			vrt_log("CALL lfht_after_fork_child");
			cds_lfht_after_fork_child(NULL);
			vrt_log("RET lfht_after_fork_child");
			if (cds_lfht_workqueue_atfork_nesting != nest - i)
				vrt_fail("nesting", "child: nesting counter %d, expected %d", cds_lfht_workqueue_atfork_nesting, nest - i);
		}
		vrt_log("CALL after_fork_child");
		urcu_memb_call_rcu_after_fork_child();
		vrt_log("RET after_fork_child");
		state_line("CHILD");
		if (cds_lfht_workqueue_atfork_nesting != 0)
			vrt_fail("nesting", "child: nesting counter %d after the handlers", cds_lfht_workqueue_atfork_nesting);
		if (scn_wq_flags(cds_lfht_workqueue) & (URCU_WORKQUEUE_PAUSE | URCU_WORKQUEUE_PAUSED))
			vrt_fail("resume", "child: work queue still has PAUSE/PAUSED");
		check_all("child");
		work(post);
		vrt_sleep(200);		/* let the worker drain and (try to) go to sleep */
		state_line("CHILD_IDLE");
		if (fdepth > 0 && generation <= fdepth) { do_fork(); work(10); }
		finish();
		exit(vrt_failed ? 3 : 0);
	}
	close(fd[1]); { char ch; if (read(fd[0], &ch, 1) != 1) fprintf(stderr, "fork_lfht: child died early\n"); } close(fd[0]);
	for (i = 1; i < nest; i++) {
		vrt_log("CALL lfht_after_fork_parent");
		cds_lfht_after_fork_parent(NULL);
		vrt_log("RET lfht_after_fork_parent");
	}
	vrt_log("CALL after_fork_parent");
	urcu_memb_call_rcu_after_fork_parent();
	vrt_log("RET after_fork_parent");
	state_line("PARENT");
	if (cds_lfht_workqueue_atfork_nesting != 0)
		vrt_fail("nesting", "parent: nesting counter %d after the handlers", cds_lfht_workqueue_atfork_nesting);
	if (scn_wq_flags(cds_lfht_workqueue) & (URCU_WORKQUEUE_PAUSE | URCU_WORKQUEUE_PAUSED))
		vrt_fail("resume", "parent: work queue still has PAUSE/PAUSED");
	child_pid = pid;
	(void)d;
}

int main(int argc, char **argv)
{
	int i;
	argc = vrt_init(argc, argv);
	for (i = 1; i < argc; i++) {
		if (!strcmp(argv[i], "--nest") && i + 1 < argc) nest = atoi(argv[++i]);
		else if (!strcmp(argv[i], "--pre") && i + 1 < argc) pre = atoi(argv[++i]);
		else if (!strcmp(argv[i], "--post") && i + 1 < argc) post = atoi(argv[++i]);
		else if (!strcmp(argv[i], "--delay") && i + 1 < argc) delay = atoi(argv[++i]);
		else if (!strcmp(argv[i], "--depth") && i + 1 < argc) fdepth = atoi(argv[++i]);
	}
	vrt_name(&cds_lfht_fork_mutex, sizeof(cds_lfht_fork_mutex), "lfht_fork_mutex");
	vrt_raw("CFG flavor=lfht-memb nest=%d", nest);
	urcu_memb_register_thread();
	ht = cds_lfht_new_flavor(1, 1, 1UL << 10, CDS_LFHT_AUTO_RESIZE, &urcu_memb_flavor, NULL);
	if (!ht) _exit(9);
	scn_wq_name(cds_lfht_workqueue);
	work(pre);
	if (delay < 0) delay = (int)(vrt_rand() % 60);
	if (delay) vrt_sleep((unsigned long)delay);
	do_fork();
	check_all("parent");
	work(post);
	finish();
	return vrt_failed ? 3 : 0;
}
#endif
