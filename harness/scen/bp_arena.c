/*
 * C15 (bp part) tie: runs the REAL src/urcu-bp.c (included below by include path, unmodified) and
 * prints one line per atomic section / interposed library call.  Driver/BpArena.lean replays the
 * same lines on the Lean models `UrcuVerif.BpArena.step` (registry arena) and
 * `BpArena.Sig.step` (registration versus signals).
 *
 * Interposed BEFORE the source is parsed (macros; nothing in /repo changes):
 *   mmap / munmap / mremap      own bump allocator inside one reserved region: the harness decides
 *                               from the seed whether mremap succeeds in place or returns MAP_FAILED;
 *                               honours MREMAP_MAYMOVE by really moving (and poisoning the old range)
 *   pthread_sigmask             records the mask window, checks the real mask
 *   pthread_mutex_lock/unlock   init_lock / rcu_registry_lock / rcu_gp_lock ownership; the arena
 *                               lines are printed at the end of each critical section, from what the
 *                               section did; a self-deadlock is reported instead of hanging
 *   pthread_setspecific / pthread_key_create (the destructor is wrapped) / pthread_key_delete /
 *   pthread_self
 *
 * Modes
 *   sim <seed> <nops>   "threads" are simulated on the main thread: the TLS pointer
 *                       URCU_TLS(urcu_bp_reader) is context-switched, pthread_self() answers the
 *                       simulated id, thread exit runs the key destructor the way pthread does
 *                       (value reset to NULL, destructor, repeat while the value is non-NULL).  The
 *                       real urcu_bp_read_lock() / urcu_bp_thread_exit_notifier() /
 *                       urcu_bp_before_fork()+urcu_bp_after_fork_child() / _urcu_bp_init() /
 *                       urcu_bp_exit() run.  Up to 140 threads.
 *   thr <seed> <nops>   the same generator on real pthreads (one runs at a time): real TLS, real
 *                       key destructor at thread exit, real fork().  Up to 70 threads.
 *   dl <which>          directed: raise a signal while urcu_bp_exit() (which=0, thread exit path) or
 *                       _urcu_bp_init() called with signals open (which=1) holds init_lock.  which=0
 *                       is the regression for the defect repaired by /repo commit 760a93b (mask
 *                       restored before urcu_bp_exit(): the handler re-registers and self-deadlocks
 *                       on init_lock); on the repaired code the signal stays pending until the mask is
 *                       restored.
 * A SIGUSR1 handler that executes urcu_bp_read_lock()/urcu_bp_read_unlock() is raised at hook
 * visits chosen from the seed (before/after every interposed call of an operation).
 *
 * Independent oracle (plain C, does not use the model), checked after every atomic section; a
 * violation prints `ORACLE <kind>: ...` on stderr and exits 3 (deadlock: 4):
 *   moved      a live thread's reader address changed / its chunk was unmapped  (slot_stable)
 *   shared     two live threads share a reader address           (slot_unique)
 *   used       chunk->used != number of alloc flags set          (used_counts_exact)
 *   registry   registry list != set of live readers / duplicate  (registry_matches_alloc)
 *   reuse      expansion although a free slot existed, or the slot returned is not the first free
 *   capacity   chunk capacities not INIT, then doubling; mapping length != capacity formula
 *   exit       reader still allocated / listed / TLS set after the exit notifier or thread exit
 *   prune      foreign slot survives after_fork_child
 *   window     lock/add/mmap outside the blocked window, handler entered inside it, mask restored
 *              while the registry lock is held
 *   twice      add_thread ran for a thread that already has a reader
 *   deadlock   a thread waits for a mutex that one of its own interrupted frames holds
 */
#define _GNU_SOURCE
#include <stdio.h>
#include <stdlib.h>
#include <stdint.h>
#include <string.h>
#include <stdbool.h>
#include <stdarg.h>
#include <errno.h>
#include <poll.h>
#include <unistd.h>
#include <signal.h>
#include <pthread.h>
#include <semaphore.h>
#include <assert.h>
#include <sys/mman.h>
#include <sys/wait.h>
#include <sys/syscall.h>

/* real functions, captured before the macros below exist */
static void *real_mmap(void *a, size_t l, int p, int f, int fd, off_t o) { return mmap(a, l, p, f, fd, o); }
static int real_munmap(void *a, size_t l) { return munmap(a, l); }
static int real_sigmask(int how, const sigset_t *s, sigset_t *o) { return pthread_sigmask(how, s, o); }
static int real_lock(pthread_mutex_t *m) { return pthread_mutex_lock(m); }
static int real_unlock(pthread_mutex_t *m) { return pthread_mutex_unlock(m); }
static int real_setspecific(pthread_key_t k, const void *v) { return pthread_setspecific(k, v); }
static int real_key_create(pthread_key_t *k, void (*d)(void *)) { return pthread_key_create(k, d); }
static int real_key_delete(pthread_key_t k) { return pthread_key_delete(k); }
static pthread_t real_self(void) { return pthread_self(); }

static void *h_mmap(void *a, size_t l, int p, int f, int fd, off_t o);
static int h_munmap(void *a, size_t l);
static void *h_mremap(void *old, size_t oldsz, size_t newsz, int flags, ...);
static int h_sigmask(int how, const sigset_t *s, sigset_t *o);
static int h_lock(pthread_mutex_t *m);
static int h_unlock(pthread_mutex_t *m);
static int h_setspecific(pthread_key_t k, const void *v);
static int h_key_create(pthread_key_t *k, void (*d)(void *));
static int h_key_delete(pthread_key_t k);
static pthread_t h_self(void);

#define mmap h_mmap
#define munmap h_munmap
#define mremap h_mremap
#define pthread_sigmask h_sigmask
#define pthread_mutex_lock h_lock
#define pthread_mutex_unlock h_unlock
#define pthread_setspecific h_setspecific
#define pthread_key_create h_key_create
#define pthread_key_delete h_key_delete
#define pthread_self h_self

#include "urcu-bp.c"		/* the real source, found through -I$REPO/src */

#undef mmap
#undef munmap
#undef mremap
#undef pthread_sigmask
#undef pthread_mutex_lock
#undef pthread_mutex_unlock
#undef pthread_setspecific
#undef pthread_key_create
#undef pthread_key_delete
#undef pthread_self

/* ------------------------------------------------------------------------------------------ */
#define MAXT 141
enum { SIM, THR };
static int h_started, h_mode = SIM;
static int sim_cur;			/* sim: logical id of the running simulated thread */
static __thread int thr_tid;		/* thr: logical id of this real thread (0 = main) */
static int sig_trace;			/* print S lines */
static int in_child;

static uint64_t rng_s;
static uint64_t rnd(void)
{
	rng_s ^= rng_s << 13; rng_s ^= rng_s >> 7; rng_s ^= rng_s << 17;
	return rng_s;
}

static int cur_tid(void) { return h_mode == SIM ? sim_cur : thr_tid; }

static void oracle(const char *kind, const char *fmt, ...)
{
	va_list ap;
	fflush(stdout);
	fprintf(stderr, "ORACLE %s: ", kind);
	va_start(ap, fmt); vfprintf(stderr, fmt, ap); va_end(ap);
	fprintf(stderr, "\n");
	fflush(stderr);
	_exit(3);
}

/* per logical thread */
static struct urcu_bp_reader *tlsp[MAXT];	/* its URCU_TLS(urcu_bp_reader): set/cleared at the end of the
						   registry-lock section that added/removed it */
static struct urcu_bp_reader *addr0[MAXT];	/* address recorded at registration (oracle) */
static int slot0[MAXT][2];			/* slot id recorded at registration (oracle) */
static void *sim_keyval[MAXT];			/* sim: value of urcu_bp_key */
static pthread_t ptid[MAXT];
static int nlive(void) { int t, n = 0; for (t = 1; t < MAXT; t++) if (tlsp[t]) n++; return n; }

/* ---- memory: bump allocator inside one reserved region ------------------------------------- */
#define REGION (1024UL << 20)
static char *region, *bump;
static char *last_base; static size_t last_size;	/* most recent allocation (the only growable one) */
static int n_mmap, n_mremap_ok, n_mremap_fail, n_munmap, n_moved;
static int grow_bias;			/* 0 always in place, 1 always MAP_FAILED, 2 random */
static struct { char *base; size_t len; int live; } maps[8192];
static int nmaps;

static int really_blocked(void)
{
	sigset_t cur;
	real_sigmask(SIG_BLOCK, NULL, &cur);
	return sigismember(&cur, SIGUSR1);
}

static void pt(int post);
static __thread int win;		/* depth of BLOCK(all) .. SETMASK windows of this real thread */

static void *h_mmap(void *a, size_t l, int p, int f, int fd, off_t o)
{
	char *r;
	(void)a; (void)p; (void)f; (void)fd; (void)o;
	if (!region) {
		region = real_mmap(NULL, REGION, PROT_READ | PROT_WRITE, MAP_PRIVATE | MAP_ANONYMOUS | MAP_NORESERVE, -1, 0);
		if (region == MAP_FAILED) { perror("mmap"); _exit(2); }
		bump = region;
	}
	if (h_started && !really_blocked()) oracle("window", "mmap (expand_arena) with signals not blocked");
	l = (l + 4095) & ~4095UL;
	r = bump; bump += l + 4096;	/* guard gap */
	if (bump > region + REGION || nmaps >= 8192) { fprintf(stderr, "harness region exhausted\n"); _exit(2); }
	last_base = r; last_size = l;
	maps[nmaps].base = r; maps[nmaps].len = l; maps[nmaps].live = 1; nmaps++;
	n_mmap++;
	return r;
}

static int h_munmap(void *a, size_t l)
{
	int i;
	if (!region || (char *)a < region || (char *)a >= region + REGION) return real_munmap(a, l);
	if (nlive() > 0) oracle("moved", "chunk unmapped while %d threads are registered", nlive());
	for (i = 0; i < nmaps; i++)
		if (maps[i].base == (char *)a && maps[i].live) {
			maps[i].live = 0;
			memset(a, 0xA5, maps[i].len);	/* use after unmap becomes visible */
			n_munmap++;
			return 0;
		}
	oracle("capacity", "munmap of an address that is not a live chunk");
	return -1;
}

static void *h_mremap(void *old, size_t oldsz, size_t newsz, int flags, ...)
{
	int inplace;
	if (h_started && !really_blocked()) oracle("window", "mremap (expand_arena) with signals not blocked");
	if (grow_bias == 0) inplace = 1; else if (grow_bias == 1) inplace = 0; else inplace = rnd() & 1;
	if ((char *)old != last_base) inplace = 0;
	if (flags & MREMAP_MAYMOVE) {
		/* the kernel may move the mapping: do it */
		char *r = h_mmap(NULL, newsz, 0, 0, -1, 0);
		int i;
		n_mmap--;
		memcpy(r, old, oldsz);
		for (i = 0; i < nmaps; i++) if (maps[i].base == (char *)old) maps[i].live = 0;
		memset(old, 0xA5, oldsz);
		n_moved++;
		n_mremap_ok++;
		return r;
	}
	if (!inplace) { n_mremap_fail++; errno = ENOMEM; return MAP_FAILED; }
	{
		size_t nl = (newsz + 4095) & ~4095UL;
		int i;
		bump = last_base + nl + 4096;
		if (bump > region + REGION) { fprintf(stderr, "harness region exhausted\n"); _exit(2); }
		for (i = 0; i < nmaps; i++) if (maps[i].base == last_base && maps[i].live) maps[i].len = nl;
		last_size = nl;
	}
	n_mremap_ok++;
	return old;
}

/* ---- state inspection ---------------------------------------------------------------------- */
static int logical_of(pthread_t p)
{
	int t;
	if (h_mode == SIM) return ((long)p >= 1000 && (long)p < 1000 + MAXT) ? (int)((long)p - 1000) : -1;
	for (t = 0; t < MAXT; t++) if (ptid[t] && pthread_equal(ptid[t], p)) return t;
	return -1;
}

/* slot id of a reader pointer by the harness' own walk of the chunk list */
static int slot_of(struct urcu_bp_reader *r, int *k, int *i)
{
	struct registry_chunk *c;
	int n = 0;
	cds_list_for_each_entry(c, &registry_arena.chunk_list, node) {
		if ((char *)r >= (char *)&c->readers[0] && (char *)r < (char *)&c->readers[c->capacity]) {
			*k = n; *i = (int)(r - &c->readers[0]);
			return 0;
		}
		n++;
	}
	return -1;
}

static void print_state(void)
{
	struct registry_chunk *c;
	struct urcu_bp_reader *r;
	size_t j;
	int n = 0;
	printf("st %d", urcu_bp_refcount);
	cds_list_for_each_entry(c, &registry_arena.chunk_list, node) {
		printf(" c=%zu:%zu:", c->capacity, c->used);
		for (j = 0; j < c->capacity; j++) {
			if (j) putchar(',');
			if (!c->readers[j].alloc) { if (c->readers[j].tid) printf("!"); else printf("-"); }
			else { int t = logical_of(c->readers[j].tid); if (t < 0) printf("?"); else printf("%d", t); }
		}
	}
	cds_list_for_each_entry(r, &registry, node) {
		int k, i;
		if (++n > 100000) break;
		if (slot_of(r, &k, &i)) printf(" r=?"); else printf(" r=%d.%d", k, i);
	}
	printf("\n");
}

/* slot_stable / slot_unique on real pointers; runs before anything walks the registry list */
static void check_addrs(const char *after)
{
	int t, u, k, i;
	for (t = 1; t < MAXT; t++) {
		if (!tlsp[t]) continue;
		if (tlsp[t] != addr0[t]) oracle("moved", "after %s: reader of live thread %d moved", after, t);
		if (slot_of(tlsp[t], &k, &i)) oracle("moved", "after %s: the reader address of live thread %d is no longer inside any chunk (chunk moved or unmapped)", after, t);
		if (slot0[t][0] != k || slot0[t][1] != i) oracle("moved", "after %s: reader of live thread %d was slot %d.%d, its address is now slot %d.%d", after, t, slot0[t][0], slot0[t][1], k, i);
		for (u = 1; u < t; u++)
			if (tlsp[u] == tlsp[t]) oracle("shared", "after %s: threads %d and %d share a reader", after, u, t);
	}
}

static void check_all(const char *after)
{
	struct registry_chunk *c;
	struct urcu_bp_reader *r;
	int t, u, live = 0, nreg = 0, nch = 0;
	size_t j, tot = 0;
	cds_list_for_each_entry(c, &registry_arena.chunk_list, node) {
		size_t pop = 0;
		for (j = 0; j < c->capacity; j++) if (c->readers[j].alloc) pop++;
		if (pop != c->used) oracle("used", "after %s: chunk %d used=%zu but %zu alloc flags set", after, nch, c->used, pop);
		tot += c->used;
		nch++;
	}
	for (t = 1; t < MAXT; t++) {
		int k, i;
		if (!tlsp[t]) continue;
		live++;
		if (tlsp[t] != addr0[t]) oracle("moved", "after %s: reader of live thread %d moved", after, t);
		if (slot_of(tlsp[t], &k, &i)) oracle("moved", "after %s: reader of live thread %d is in no chunk", after, t);
		if (!tlsp[t]->alloc) oracle("registry", "after %s: live thread %d has alloc=0", after, t);
		if (logical_of(tlsp[t]->tid) != t) oracle("registry", "after %s: reader of thread %d carries the tid of %d", after, t, logical_of(tlsp[t]->tid));
		for (u = 1; u < t; u++)
			if (tlsp[u] == tlsp[t]) oracle("shared", "after %s: threads %d and %d share a reader", after, u, t);
	}
	cds_list_for_each_entry(r, &registry, node) {
		int found = 0;
		if (++nreg > 100000) oracle("registry", "after %s: registry list is cyclic", after);
		for (t = 1; t < MAXT; t++) if (tlsp[t] == r) found++;
		if (found != 1) oracle("registry", "after %s: a registry node is the reader of %d live threads", after, found);
	}
	if (nreg != live) oracle("registry", "after %s: %d registry nodes, %d live threads", after, nreg, live);
	if ((int)tot != live) oracle("used", "after %s: sum of used=%zu, live threads=%d", after, tot, live);
}

/* first free slot by the oracle's own scan of the alloc flags; -1 if the arena is full */
static int first_free(int *k, int *i)
{
	struct registry_chunk *c;
	int n = 0;
	size_t j;
	cds_list_for_each_entry(c, &registry_arena.chunk_list, node) {
		for (j = 0; j < c->capacity; j++)
			if (!c->readers[j].alloc) { *k = n; *i = (int)j; return 0; }
		n++;
	}
	return -1;
}

static int count_chunks(size_t *lastcap)
{
	struct registry_chunk *c; int n = 0;
	*lastcap = 0;
	cds_list_for_each_entry(c, &registry_arena.chunk_list, node) { n++; *lastcap = c->capacity; }
	return n;
}

/* ---- what a critical section did ------------------------------------------------------------ */
static int hist[16];
enum { H_REG_NO, H_REG_FIRST, H_REG_INPLACE, H_REG_NEW, H_UNREG, H_USE, H_PRUNE, H_LIBINIT, H_LIBEXIT, H_LIBEXIT_FREE, H_REUSE, H_REREG };
static int in_exit[MAXT];		/* the thread is inside its exit notifier */

static struct {
	struct urcu_bp_reader *tls0; int k0, i0;
	int m0, ok0, f0, hadfree, fk, fi, nch0, added;
	size_t lastcap0;
} RS;
static struct { int ref0, mu0; } IS;
static int key_live;

static void rs_begin(void)
{
	RS.tls0 = URCU_TLS(urcu_bp_reader);
	RS.k0 = RS.i0 = -1;
	if (RS.tls0) slot_of(RS.tls0, &RS.k0, &RS.i0);
	RS.m0 = n_mmap; RS.ok0 = n_mremap_ok; RS.f0 = n_mremap_fail;
	RS.hadfree = !first_free(&RS.fk, &RS.fi);
	RS.nch0 = count_chunks(&RS.lastcap0);
	RS.added = 0;
}

static void rs_end(void)
{
	int t = cur_tid(), k, i;
	struct urcu_bp_reader *r = URCU_TLS(urcu_bp_reader);
	if (RS.added) {
		int dm = n_mmap - RS.m0, dok = n_mremap_ok - RS.ok0, df = n_mremap_fail - RS.f0, nch1;
		size_t lastcap1;
		const char *g;
		if (!r) oracle("exit", "thread %d: add_thread left the TLS reader pointer NULL", t);
		if (slot_of(r, &k, &i)) oracle("moved", "reader given to thread %d is in no chunk", t);
		nch1 = count_chunks(&lastcap1);
		if (dm == 0 && dok == 0 && df == 0) g = "no";
		else if (dm == 1 && dok == 0 && df == 0 && RS.nch0 == 0) g = "first";
		else if (dm == 0 && dok == 1 && df == 0) g = "inplace";
		else if (dm == 1 && dok == 0 && df == 1) g = "new";
		else g = "multi";
		if (RS.hadfree) {
			if (strcmp(g, "no")) oracle("reuse", "register %d: arena expanded (%s) although slot %d.%d was free", t, g, RS.fk, RS.fi);
			if (k != RS.fk || i != RS.fi) oracle("reuse", "register %d: got slot %d.%d, the first free slot was %d.%d", t, k, i, RS.fk, RS.fi);
			if (RS.nch0 && (RS.fk < RS.nch0 - 1 || (size_t)RS.fi * 2 < RS.lastcap0 || 1)) hist[H_REUSE]++;
		} else if (!strcmp(g, "no")) oracle("reuse", "register %d: no free slot, no expansion, yet slot %d.%d returned", t, k, i);
		if (!strcmp(g, "first")) {
			if (lastcap1 != INIT_READER_COUNT || nch1 != 1) oracle("capacity", "first chunk has capacity %zu (chunks %d)", lastcap1, nch1);
		} else if (!strcmp(g, "inplace")) {
			if (lastcap1 != 2 * RS.lastcap0 || nch1 != RS.nch0) oracle("capacity", "in-place growth: capacity %zu -> %zu, chunks %d -> %d", RS.lastcap0, lastcap1, RS.nch0, nch1);
		} else if (!strcmp(g, "new")) {
			if (lastcap1 != 2 * RS.lastcap0 || nch1 != RS.nch0 + 1) oracle("capacity", "new chunk: last capacity %zu -> %zu, chunks %d -> %d", RS.lastcap0, lastcap1, RS.nch0, nch1);
		} else if (!strcmp(g, "multi")) oracle("reuse", "register %d: more than one expansion in one allocation", t);
		if (dm + dok && last_size != ((lastcap1 * sizeof(struct urcu_bp_reader) + sizeof(struct registry_chunk) + 4095) & ~4095UL))
			oracle("capacity", "mapping length %zu does not match capacity %zu", last_size, lastcap1);
		{
			/* the real find_chunk() against the harness' own walk of the chunk list */
			struct registry_chunk *fc = find_chunk(r), *c;
			int n = 0;
			cds_list_for_each_entry(c, &registry_arena.chunk_list, node) { if (n == k) break; n++; }
			if (fc != c) oracle("moved", "find_chunk(reader of thread %d) does not return chunk %d", t, k);
		}
		tlsp[t] = addr0[t] = r; slot0[t][0] = k; slot0[t][1] = i;
		check_addrs("register");
		printf("reg %d %s %d %d\n", t, g, k, i);
		hist[!strcmp(g, "no") ? H_REG_NO : !strcmp(g, "first") ? H_REG_FIRST : !strcmp(g, "inplace") ? H_REG_INPLACE : H_REG_NEW]++;
		if (in_exit[t]) hist[H_REREG]++;
		print_state();
		check_all("register");
	} else if (RS.tls0 && !r) {
		struct urcu_bp_reader *q, *old = RS.tls0;
		tlsp[t] = NULL;
		check_addrs("unregister");
		if (old->alloc || old->tid || old->ctr) oracle("exit", "thread %d removed, its reader still has alloc=%d tid=%ld ctr=%lu", t, old->alloc, (long)old->tid, old->ctr);
		cds_list_for_each_entry(q, &registry, node)
			if (q == old) oracle("exit", "thread %d removed, its reader is still in the registry", t);
		printf("unreg %d %d %d\n", t, RS.k0, RS.i0);
		hist[H_UNREG]++;
		print_state();
		check_all("unregister");
	}
}

static void is_begin(void) { IS.ref0 = urcu_bp_refcount; IS.mu0 = n_munmap; }
static void is_end(void)
{
	int d = urcu_bp_refcount - IS.ref0;
	if (d == 1) { printf("libinit\n"); hist[H_LIBINIT]++; }
	else if (d == -1) {
		/* flag: the last reference went away (every chunk unmapped, chunk list re-initialised, key deleted) */
		int last = urcu_bp_refcount == 0;
		if (last && (!cds_list_empty(&registry_arena.chunk_list) || key_live))
			oracle("exit", "last reference dropped but chunk list / key still there");
		if (!last && n_munmap != IS.mu0) oracle("moved", "chunks unmapped while urcu_bp_refcount=%d", urcu_bp_refcount);
		printf("libexit %d\n", last);
		hist[last ? H_LIBEXIT_FREE : H_LIBEXIT]++;
	}
	else if (d) oracle("exit", "urcu_bp_refcount changed by %d in one init_lock section", d);
	else return;
	check_addrs("init_lock section");
	print_state();
	check_all("init_lock section");
}

/* ---- S events (signal model) and the interposed calls --------------------------------------- */
static void sev(const char *ev)
{
	if (h_started && sig_trace) printf("S %d %s\n", cur_tid(), ev);
}

static pthread_t owner[3]; static int held[3];
static int midx(pthread_mutex_t *m) { return m == &init_lock ? 0 : m == &rcu_registry_lock ? 1 : m == &rcu_gp_lock ? 2 : -1; }
static const char *mnm[3] = { "I", "R", "G" };
static int mine(int i) { return held[i] && pthread_equal(owner[i], real_self()); }

static int h_sigmask(int how, const sigset_t *s, sigset_t *o)
{
	int r, full = 0;
	if (!h_started) return real_sigmask(how, s, o);
	if (how == SIG_BLOCK && s)
		full = sigismember(s, SIGUSR1) && sigismember(s, SIGUSR2) && sigismember(s, SIGTERM);
	if (how == SIG_BLOCK && full) {
		pt(0);
		sev("MASK");
		r = real_sigmask(how, s, o);
		win++;
		pt(1);
		return r;
	}
	if (how == SIG_SETMASK) {
		pt(0);
		if (mine(1)) oracle("window", "signal mask restored while this thread holds rcu_registry_lock");
		sev("UNMASK");
		win--;
		r = real_sigmask(how, s, o);	/* a pending signal is delivered in here */
		pt(1);
		return r;
	}
	return real_sigmask(how, s, o);
}

static int h_lock(pthread_mutex_t *m)
{
	int i = midx(m), r;
	char b[16];
	if (!h_started || i < 0) return real_lock(m);
	pt(0);
	if (mine(i)) {
		snprintf(b, sizeof b, "DEADLOCK %s", mnm[i]);
		sev(b);
		fflush(stdout);
		fprintf(stderr, "ORACLE deadlock: thread %d waits for %s which one of its own interrupted frames holds\n",
			cur_tid(), i == 0 ? "init_lock" : i == 1 ? "rcu_registry_lock" : "rcu_gp_lock");
		_exit(4);
	}
	if (i == 1 && !really_blocked()) oracle("window", "rcu_registry_lock taken with signals not blocked");
	r = real_lock(m);
	held[i] = 1; owner[i] = real_self();
	if (i == 1) rs_begin();
	if (i == 0) is_begin();
	snprintf(b, sizeof b, "LOCK %s", mnm[i]);
	sev(b);
	pt(1);
	return r;
}

static int h_unlock(pthread_mutex_t *m)
{
	int i = midx(m), r;
	char b[16];
	if (!h_started || i < 0) return real_unlock(m);
	pt(0);
	if (i == 1 && !really_blocked()) oracle("window", "rcu_registry_lock released with signals not blocked");
	if (i == 1) rs_end();
	if (i == 0) is_end();
	snprintf(b, sizeof b, "UNLOCK %s", mnm[i]);
	sev(b);
	held[i] = 0;
	r = real_unlock(m);
	pt(1);
	return r;
}

static int h_setspecific(pthread_key_t k, const void *v)
{
	int t = cur_tid();
	if (!h_started) return real_setspecific(k, v);
	pt(0);
	if (!really_blocked()) oracle("window", "add_thread with signals not blocked");
	if (!mine(1)) oracle("window", "add_thread without rcu_registry_lock");
	if (URCU_TLS(urcu_bp_reader) != NULL || tlsp[t] != NULL)
		oracle("twice", "add_thread runs for thread %d which already has a reader", t);
	if (RS.added) oracle("twice", "add_thread ran twice in one critical section (thread %d)", t);
	RS.added = 1;
	sev("ADD");
	pt(1);
	if (h_mode == THR) return real_setspecific(k, v);
	sim_keyval[t] = (void *)v;
	return 0;
}

/* the key destructor is wrapped so that every invocation is visible */
static void (*real_destructor)(void *);
static void h_destructor(void *v)
{
	int t = cur_tid();
	struct urcu_bp_reader *r = v;
	if (!tlsp[t] || tlsp[t] != r) oracle("exit", "key destructor of thread %d called with a pointer that is not its reader", t);
	in_exit[t] = 1;
	printf("S %d CALL_EXIT\n", t);
	real_destructor(v);
	printf("S %d RET\n", t);
	in_exit[t] = 0;
	if (URCU_TLS(urcu_bp_reader) != tlsp[t]) oracle("exit", "thread %d: TLS reader pointer and registration state disagree after the exit notifier", t);
}

static int h_key_create(pthread_key_t *k, void (*d)(void *))
{
	if (h_started && key_live) oracle("exit", "pthread_key_create while the key exists");
	key_live = 1;
	real_destructor = d;
	return real_key_create(k, h_destructor);
}
static int h_key_delete(pthread_key_t k)
{
	if (h_started && !key_live) oracle("exit", "pthread_key_delete without key");
	key_live = 0;
	return real_key_delete(k);
}
static pthread_t h_self(void)
{
	if (h_mode == SIM && h_started) return (pthread_t)(1000 + sim_cur);
	return real_self();
}

/* ---- signal injection ---------------------------------------------------------------------- */
static int visit;			/* hook visits of the current operation */
static int fire_at[4], nfire;		/* visits at which to raise */
static int sig_enabled;
static int handler_depth;
static int sig_phase;			/* 0 pre, 1 post */
static int deferred;
static int n_raised, n_skipped_dl, n_entered;
static int dl_point = -1;		/* directed: fire when init_lock is held by this thread */
static int n_dl_fired, n_dl_open;

static void handler(int sig)
{
	int ph = sig_phase;
	(void)sig;
	if (deferred) { ph = 1; deferred = 0; }
	n_entered++;
	handler_depth++;
	if (sig_trace) printf("S %d SIG_ENTER %s\n", cur_tid(), ph ? "post" : "pre");
	if (win > 0) oracle("window", "signal handler entered between pthread_sigmask(SIG_BLOCK) and its restoration (thread %d)", cur_tid());
	urcu_bp_read_lock();
	if (!URCU_TLS(urcu_bp_reader)) oracle("exit", "handler: no reader after read_lock");
	urcu_bp_read_unlock();
	if (sig_trace) printf("S %d SIG_RET\n", cur_tid());
	handler_depth--;
}

static void do_raise(int post)
{
	n_raised++;
	if (really_blocked()) deferred = 1; else sig_phase = post;
	if (h_mode == THR) pthread_kill(real_self(), SIGUSR1); else raise(SIGUSR1);
}

static void pt(int post)
{
	int i, danger;
	if (!h_started || !sig_enabled) return;
	visit++;
	/* init_lock held by this thread while signals are open: delivering here deadlocks the real
	 * code (finding); excluded from the random plans, exercised by the directed mode `dl`. */
	danger = mine(0) && !really_blocked();
	if (dl_point >= 0) {
		/* directed: the first visit at which this thread holds init_lock */
		if (mine(0) && dl_point-- == 0) { n_dl_fired++; if (danger) n_dl_open++; do_raise(post); }
		return;
	}
	for (i = 0; i < nfire; i++)
		if (fire_at[i] == visit) {
			if (danger) { n_skipped_dl++; return; }
			if (handler_depth >= 3) return;
			do_raise(post);
			return;
		}
}

static void plan_signals(int span)
{
	unsigned r = rnd() % 100;
	int i;
	visit = 0; nfire = 0;
	if (r < 50) return;
	nfire = r < 82 ? 1 : r < 94 ? 2 : 3;
	for (i = 0; i < nfire; i++) fire_at[i] = 1 + rnd() % span;
}

/* ---- running code "as thread t" ------------------------------------------------------------ */
struct worker { pthread_t th; sem_t go, done; int cmd; int started; };
static struct worker W[MAXT];
enum { CMD_RL, CMD_EXIT, CMD_FORK };
static void child_report(int t);

static void do_fork_as(int t)
{
	pid_t p;
	int st;
	urcu_bp_before_fork();
	fflush(stdout);
	p = fork();
	if (p == 0) {
		in_child = 1;
		urcu_bp_after_fork_child();
		child_report(t);
		fflush(stdout);
		_exit(0);
	}
	urcu_bp_after_fork_parent();
	waitpid(p, &st, 0);
	if (!WIFEXITED(st) || WEXITSTATUS(st)) {
		fflush(stdout);
		fprintf(stderr, "ORACLE prune: forked child failed (status %d)\n", st);
		_exit(WIFEXITED(st) ? WEXITSTATUS(st) : 2);
	}
}

static void rl_body(int t)
{
	struct urcu_bp_reader *r;
	printf("S %d CALL_RL\n", t);
	urcu_bp_read_lock();
	r = URCU_TLS(urcu_bp_reader);
	if (!r || !(r->ctr & URCU_BP_GP_CTR_NEST_MASK)) oracle("exit", "thread %d: read_lock did not enter a section on a reader", t);
	urcu_bp_read_unlock();
	printf("S %d RET\n", t);
	if (URCU_TLS(urcu_bp_reader) != tlsp[t]) oracle("exit", "thread %d: TLS reader pointer and registration state disagree after read_lock", t);
}

static void *worker_main(void *arg)
{
	int t = (int)(long)arg;
	thr_tid = t;
	for (;;) {
		sem_wait(&W[t].go);
		if (W[t].cmd == CMD_RL) rl_body(t);
		else if (W[t].cmd == CMD_FORK) do_fork_as(t);
		else return NULL;	/* pthread runs the key destructor: urcu_bp_thread_exit_notifier */
		sem_post(&W[t].done);
	}
}

static void ensure_worker(int t)
{
	if (W[t].started) return;
	sem_init(&W[t].go, 0, 0); sem_init(&W[t].done, 0, 0);
	W[t].started = 1;
	if (pthread_create(&W[t].th, NULL, worker_main, (void *)(long)t)) { perror("pthread_create"); _exit(2); }
	ptid[t] = W[t].th;
}

static void as_read_lock(int t)
{
	if (h_mode == SIM) {
		sim_cur = t;
		URCU_TLS(urcu_bp_reader) = tlsp[t];
		rl_body(t);
		URCU_TLS(urcu_bp_reader) = NULL;
		sim_cur = 0;
	} else {
		ensure_worker(t);
		W[t].cmd = CMD_RL; sem_post(&W[t].go); sem_wait(&W[t].done);
	}
}

static void as_exit(int t)
{
	if (h_mode == SIM) {
		int it = 0;
		sim_cur = t;
		URCU_TLS(urcu_bp_reader) = tlsp[t];
		/* what pthread does with a key at thread exit */
		while (sim_keyval[t] && it++ < 4) {
			void *v = sim_keyval[t];
			sim_keyval[t] = NULL;
			h_destructor(v);
		}
		URCU_TLS(urcu_bp_reader) = NULL;
		sim_cur = 0;
	} else {
		W[t].cmd = CMD_EXIT; sem_post(&W[t].go);
		pthread_join(W[t].th, NULL);
		W[t].started = 0; ptid[t] = 0;
		sem_destroy(&W[t].go); sem_destroy(&W[t].done);
	}
	if (tlsp[t]) oracle("exit", "thread %d has exited but is still registered", t);
}

/* ---- operations ----------------------------------------------------------------------------- */
static void op_register(int t)
{
	sig_enabled = 1; plan_signals(16);
	as_read_lock(t);
	sig_enabled = 0;
	if (!tlsp[t]) oracle("exit", "thread %d has no reader after its first read-side call", t);
}

static void op_use(int t)
{
	int k, i;
	struct urcu_bp_reader *before = tlsp[t];
	sig_enabled = 1; plan_signals(4);
	as_read_lock(t);
	sig_enabled = 0;
	if (tlsp[t] != before) oracle("moved", "thread %d: reader pointer changed by a read-side call", t);
	if (slot_of(tlsp[t], &k, &i)) oracle("moved", "reader of thread %d is in no chunk", t);
	printf("use %d %d %d\n", t, k, i);
	hist[H_USE]++;
}

static void op_unregister(int t)
{
	sig_enabled = 1; plan_signals(16);
	as_exit(t);
	sig_enabled = 0;
}

static void child_report(int t)
{
	struct registry_chunk *c;
	int u, n = 0, k = 0;
	size_t j;
	/* oracle: only the forking thread's slot survives */
	cds_list_for_each_entry(c, &registry_arena.chunk_list, node) {
		for (j = 0; j < c->capacity; j++)
			if (c->readers[j].alloc && &c->readers[j] != tlsp[t])
				oracle("prune", "after_fork_child by thread %d: foreign slot %d.%zu survives", t, k, j);
		k++;
	}
	for (u = 1; u < MAXT; u++) if (u != t) { if (tlsp[u]) n++; tlsp[u] = NULL; sim_keyval[u] = NULL; }
	check_addrs("prune");
	printf("prune %d %d\n", t, n);
	print_state();
	check_all("prune");
}

static void op_prune(int t)
{
	int tr = sig_trace;
	sig_trace = 0;
	if (h_mode == SIM) {
		sim_cur = t;
		URCU_TLS(urcu_bp_reader) = tlsp[t];
		urcu_bp_before_fork();
		urcu_bp_after_fork_child();
		URCU_TLS(urcu_bp_reader) = NULL;
		sim_cur = 0;
		child_report(t);
	} else {
		printf("fork %d\n", t);
		if (t == 0) do_fork_as(0);
		else { ensure_worker(t); W[t].cmd = CMD_FORK; sem_post(&W[t].go); sem_wait(&W[t].done); }
		printf("endfork\n");
	}
	sig_trace = tr;
	hist[H_PRUNE]++;
}

static void op_lib(int init)
{
	int tr = sig_trace;
	sig_trace = 0;
	if (init) _urcu_bp_init(); else urcu_bp_exit();
	sig_trace = tr;
}

static int pick(int want_live)
{
	int t, n = 0, c, lim = h_mode == THR ? 71 : MAXT;
	for (t = 1; t < lim; t++) if (!!tlsp[t] == want_live) n++;
	if (!n) return 0;
	c = rnd() % n;
	for (t = 1; t < lim; t++) if (!!tlsp[t] == want_live && c-- == 0) return t;
	return 0;
}

static void install_handler(void)
{
	struct sigaction sa;
	memset(&sa, 0, sizeof sa);
	sa.sa_handler = handler;
	sa.sa_flags = SA_NODEFER;
	sigemptyset(&sa.sa_mask);
	sigaction(SIGUSR1, &sa, NULL);
}

static int run_random(unsigned long seed, int nops)
{
	static const int targets[] = { 0, 3, 8, 9, 16, 17, 24, 33, 40, 65, 70, 129, 140 };
	int n, target, extra_ref = 1, t, hold = 0;
	rng_s = seed * 0x9E3779B97F4A7C15ULL + 0x1234567;
	for (n = 0; n < 5; n++) rnd();
	grow_bias = rnd() % 4; if (grow_bias == 3) grow_bias = 2;
	target = targets[rnd() % 13];
	/* every fourth seed first climbs to the largest population (beyond 128 simulated / 64 real threads) */
	if (seed % 4 == 0) { target = h_mode == THR ? 70 : 140; hold = 1; }
	printf("# seed %lu mode %s grow_bias %d INIT_READER_COUNT %d\n", seed, h_mode == SIM ? "sim" : "thr", grow_bias, INIT_READER_COUNT);
	printf("init %d\n", urcu_bp_refcount);
	print_state();
	for (n = 0; n < nops; n++) {
		unsigned r = rnd() % 100;
		int live = nlive();
		if (hold && live >= target) hold = 0;
		if (!hold && rnd() % 30 == 0) {
			/* new episode: population target (0 = drain completely so that the chunks get unmapped) and growth mode */
			target = (rnd() % 3 == 0) ? 0 : targets[rnd() % 13];
			grow_bias = rnd() % 4; if (grow_bias == 3) grow_bias = 2;
			printf("# episode target %d grow_bias %d\n", target, grow_bias);
		}
		if (live == 0 && target == 0) {
			if (extra_ref > 0) { op_lib(0); extra_ref--; }	/* last reference: every chunk is unmapped */
			else if (rnd() & 1) { op_lib(1); extra_ref++; }
			target = targets[1 + rnd() % 12];
			continue;
		}
		if (r < 3) {
			/* fork child: sim prunes in place (the run continues as the child), thr forks for real */
			if (h_mode == SIM && live > 20 && rnd() % 4) continue;	/* keep populations large most of the time */
			t = (rnd() % 4) ? pick(1) : pick(0);
			if (h_mode == THR && (rnd() % 5) == 0) t = 0;
			op_prune(t);
		} else if (r < 5) {
			if (extra_ref > 0) { op_lib(0); extra_ref--; } else { op_lib(1); extra_ref++; }
		} else if (r < 15 && live) {
			op_use(pick(1));
		} else {
			int up = live < target ? 85 : live > target ? 12 : 50;
			if ((int)(rnd() % 100) < up) { t = pick(0); if (t) op_register(t); }
			else { t = pick(1); if (t) op_unregister(t); }
		}
	}
	while ((t = pick(1))) op_unregister(t);
	if (extra_ref > 0) op_lib(0);
	printf("# ops reg_no=%d reg_first=%d reg_inplace=%d reg_new=%d unreg=%d use=%d prune=%d libinit=%d libexit=%d libexit_free=%d reuse=%d rereg_in_exit=%d raised=%d entered=%d skipped_dl=%d\n",
	       hist[H_REG_NO], hist[H_REG_FIRST], hist[H_REG_INPLACE], hist[H_REG_NEW], hist[H_UNREG], hist[H_USE],
	       hist[H_PRUNE], hist[H_LIBINIT], hist[H_LIBEXIT], hist[H_LIBEXIT_FREE], hist[H_REUSE], hist[H_REREG], n_raised, n_entered, n_skipped_dl);
	return 0;
}

/* directed: a signal raised while init_lock is held.  which = 0: in urcu_bp_exit() on the thread-exit
 * path; which = 1: in _urcu_bp_init() called with signals open (constructor situation). */
static int run_dl(int which)
{
	printf("# directed: signal raised while init_lock is held (%s)\n", which ? "_urcu_bp_init" : "urcu_bp_exit");
	printf("init %d\n", urcu_bp_refcount);
	print_state();
	if (which == 0) {
		op_register(1);
		sig_enabled = 1; dl_point = 0; visit = 0; nfire = 0;
		as_exit(1);
		sig_enabled = 0;
	} else {
		sim_cur = 1;
		sig_trace = 0;
		sig_enabled = 1; dl_point = 0; visit = 0; nfire = 0;
		_urcu_bp_init();
		sig_enabled = 0;
	}
	printf("# no deadlock: fired=%d with_signals_open=%d entered=%d\n", n_dl_fired, n_dl_open, n_entered);
	if (!n_dl_fired || !n_entered) oracle("window", "directed run did not deliver its signal");
	return 0;
}

int main(int argc, char **argv)
{
	unsigned long seed = argc > 2 ? strtoul(argv[2], 0, 0) : 1;
	int nops = argc > 3 ? atoi(argv[3]) : 200, rc;
	const char *mode = argc > 1 ? argv[1] : "sim";
	setvbuf(stdout, NULL, _IOFBF, 1 << 16);
	install_handler();
	sig_trace = 1;
	if (!strcmp(mode, "thr")) h_mode = THR;
	h_started = 1;
	if (!strcmp(mode, "dl")) rc = run_dl(argc > 2 ? atoi(argv[2]) : 0);
	else rc = run_random(seed, nops);
	fflush(stdout);
	_exit(rc);
}
