/*
 * C15 (bp part) tie: runs the REAL src/urcu-bp.c (included below by include path, unmodified) and
 * prints one line per operation / interposed library call.  Driver/BpArena.lean replays the same
 * lines on the Lean models `UrcuVerif.BpArena.step` (registry arena) and `BpArena.Sig.step`
 * (registration versus signals).
 *
 * Interposed BEFORE the source is parsed (macros; nothing in /repo changes):
 *   mmap / munmap / mremap      own bump allocator inside one reserved region: the harness decides
 *                               from the seed whether mremap succeeds in place or returns MAP_FAILED;
 *                               honours MREMAP_MAYMOVE by really moving (and poisoning the old range)
 *   pthread_sigmask             records the mask window, checks the real mask
 *   pthread_mutex_lock/unlock   records init_lock / rcu_registry_lock / rcu_gp_lock ownership,
 *                               detects self-deadlock instead of hanging
 *   pthread_setspecific / pthread_key_create / pthread_key_delete / pthread_self
 *
 * Modes
 *   sim <seed> <nops>   "threads" are simulated on the main thread: the TLS pointer
 *                       URCU_TLS(urcu_bp_reader) is context-switched and pthread_self() answers the
 *                       simulated id; the real urcu_bp_read_lock() / urcu_bp_thread_exit_notifier() /
 *                       urcu_bp_before_fork()+urcu_bp_after_fork_child() / _urcu_bp_init() /
 *                       urcu_bp_exit() run.  Up to 140 threads.
 *   thr <seed> <nops>   the same operation generator on real pthreads (one runs at a time): real TLS,
 *                       real pthread key destructor at thread exit, real fork().
 *   dl <point>          directed: deliver a signal while urcu_bp_exit()/_urcu_bp_init() holds
 *                       init_lock with signals unblocked (finding: self-deadlock).
 *   xdl                 directed (used for the mutant "mask restored before unlock").
 * A signal handler that executes urcu_bp_read_lock()/urcu_bp_read_unlock() is raised at hook
 * visits chosen from the seed (before/after every interposed call of an operation).
 *
 * Independent oracle (plain C, does not use the model), checked after every operation; any
 * violation prints `ORACLE <kind> ...` on stderr and exits 3:
 *   moved      a live thread's reader address changed            (slot_stable)
 *   shared     two live threads share a reader address           (slot_unique)
 *   used       chunk->used != number of alloc flags set          (used_counts_exact)
 *   registry   registry list != set of live readers / duplicate  (registry_matches_alloc)
 *   reuse      expansion although a free slot existed, or the slot returned is not the first free
 *   capacity   chunk capacities not INIT, then doubling; mapping length != capacity formula
 *   exit       reader still allocated / listed / TLS set after the exit notifier
 *   prune      foreign slot survives after_fork_child
 *   window     lock/add/mmap outside the blocked window, handler entered inside it, mask restored
 *              while the registry lock is held
 *   twice      add_thread ran for a thread that already has a reader
 *   deadlock   a thread waits for a mutex that one of its own interrupted frames holds (exit 4)
 */
#define _GNU_SOURCE
#include <stdio.h>
#include <stdlib.h>
#include <stdint.h>
#include <string.h>
#include <stdbool.h>
#include <stdarg.h>
#include <errno.h>
#include <poll.h>
#include <unistd.h>
#include <signal.h>
#include <pthread.h>
#include <semaphore.h>
#include <assert.h>
#include <sys/mman.h>
#include <sys/wait.h>
#include <sys/syscall.h>

/* real functions, captured before the macros below exist */
static void *real_mmap(void *a, size_t l, int p, int f, int fd, off_t o) { return mmap(a, l, p, f, fd, o); }
static int real_munmap(void *a, size_t l) { return munmap(a, l); }
static int real_sigmask(int how, const sigset_t *s, sigset_t *o) { return pthread_sigmask(how, s, o); }
static int real_lock(pthread_mutex_t *m) { return pthread_mutex_lock(m); }
static int real_unlock(pthread_mutex_t *m) { return pthread_mutex_unlock(m); }
static int real_setspecific(pthread_key_t k, const void *v) { return pthread_setspecific(k, v); }
static int real_key_create(pthread_key_t *k, void (*d)(void *)) { return pthread_key_create(k, d); }
static int real_key_delete(pthread_key_t k) { return pthread_key_delete(k); }
static pthread_t real_self(void) { return pthread_self(); }

static void *h_mmap(void *a, size_t l, int p, int f, int fd, off_t o);
static int h_munmap(void *a, size_t l);
static void *h_mremap(void *old, size_t oldsz, size_t newsz, int flags, ...);
static int h_sigmask(int how, const sigset_t *s, sigset_t *o);
static int h_lock(pthread_mutex_t *m);
static int h_unlock(pthread_mutex_t *m);
static int h_setspecific(pthread_key_t k, const void *v);
static int h_key_create(pthread_key_t *k, void (*d)(void *));
static int h_key_delete(pthread_key_t k);
static pthread_t h_self(void);

#define mmap h_mmap
#define munmap h_munmap
#define mremap h_mremap
#define pthread_sigmask h_sigmask
#define pthread_mutex_lock h_lock
#define pthread_mutex_unlock h_unlock
#define pthread_setspecific h_setspecific
#define pthread_key_create h_key_create
#define pthread_key_delete h_key_delete
#define pthread_self h_self

#include "urcu-bp.c"		/* the real source, found through -I$REPO/src */

#undef mmap
#undef munmap
#undef mremap
#undef pthread_sigmask
#undef pthread_mutex_lock
#undef pthread_mutex_unlock
#undef pthread_setspecific
#undef pthread_key_create
#undef pthread_key_delete
#undef pthread_self

/* ------------------------------------------------------------------------------------------ */
#define MAXT 141
enum { SIM, THR };
static int h_started, h_mode = SIM;
static int sim_cur;			/* sim: logical id of the running simulated thread */
static __thread int thr_tid;		/* thr: logical id of this real thread (0 = main) */
static int sig_trace;			/* print S lines */
static int in_child;

static uint64_t rng_s;
static uint64_t rnd(void)
{
	rng_s ^= rng_s << 13; rng_s ^= rng_s >> 7; rng_s ^= rng_s << 17;
	return rng_s;
}

static int cur_tid(void) { return h_mode == SIM ? sim_cur : thr_tid; }

static void oracle(const char *kind, const char *fmt, ...)
{
	va_list ap;
	fflush(stdout);
	fprintf(stderr, "ORACLE %s: ", kind);
	va_start(ap, fmt); vfprintf(stderr, fmt, ap); va_end(ap);
	fprintf(stderr, "\n");
	fflush(stderr);
	_exit(3);
}

/* ---- memory: bump allocator inside one reserved region ------------------------------------- */
#define REGION (512UL << 20)
static char *region, *bump;
static char *last_base; static size_t last_size;	/* most recent allocation (the only growable one) */
static int n_mmap, n_mremap_ok, n_mremap_fail, n_munmap, n_moved;
static int grow_bias;			/* 0 always in place, 1 always MAP_FAILED, 2 random */
static size_t last_mmap_len;
#define MAXCH 64
static struct { char *base; size_t len; int live; } maps[4096];
static int nmaps;

static int really_blocked(void)
{
	sigset_t cur;
	real_sigmask(SIG_BLOCK, NULL, &cur);
	return sigismember(&cur, SIGUSR1);
}

static void pt(int post);
static __thread int win;		/* depth of BLOCK(all) .. SETMASK windows of this real thread */

static void *h_mmap(void *a, size_t l, int p, int f, int fd, off_t o)
{
	char *r;
	(void)a; (void)p; (void)f; (void)fd; (void)o;
	if (!region) {
		region = real_mmap(NULL, REGION, PROT_READ | PROT_WRITE, MAP_PRIVATE | MAP_ANONYMOUS | MAP_NORESERVE, -1, 0);
		if (region == MAP_FAILED) { perror("mmap"); _exit(2); }
		bump = region;
	}
	if (h_started && !really_blocked()) oracle("window", "mmap (expand_arena) with signals not blocked");
	l = (l + 4095) & ~4095UL;
	r = bump; bump += l + 4096;	/* guard gap */
	if (bump > region + REGION) { fprintf(stderr, "harness region exhausted\n"); _exit(2); }
	last_base = r; last_size = l;
	maps[nmaps].base = r; maps[nmaps].len = l; maps[nmaps].live = 1; nmaps++;
	n_mmap++;
	return r;
}

static int h_munmap(void *a, size_t l)
{
	int i;
	if (!region || (char *)a < region || (char *)a >= region + REGION) return real_munmap(a, l);
	for (i = 0; i < nmaps; i++)
		if (maps[i].base == (char *)a && maps[i].live) {
			maps[i].live = 0;
			memset(a, 0xA5, maps[i].len);	/* use after unmap becomes visible */
			n_munmap++;
			return 0;
		}
	oracle("capacity", "munmap of an address that is not a live chunk");
	return -1;
}

static void *h_mremap(void *old, size_t oldsz, size_t newsz, int flags, ...)
{
	int inplace;
	if (h_started && !really_blocked()) oracle("window", "mremap (expand_arena) with signals not blocked");
	if (grow_bias == 0) inplace = 1; else if (grow_bias == 1) inplace = 0; else inplace = rnd() & 1;
	if ((char *)old != last_base) inplace = 0;
	if (flags & MREMAP_MAYMOVE) {
		/* the kernel may move the mapping: do it */
		char *r = h_mmap(NULL, newsz, 0, 0, -1, 0);
		int i;
		n_mmap--;
		memcpy(r, old, oldsz);
		for (i = 0; i < nmaps; i++) if (maps[i].base == (char *)old) maps[i].live = 0;
		memset(old, 0xA5, oldsz);
		n_moved++;
		n_mremap_ok++;
		return r;
	}
	if (!inplace) { n_mremap_fail++; errno = ENOMEM; return MAP_FAILED; }
	{
		size_t nl = (newsz + 4095) & ~4095UL;
		int i;
		bump = last_base + nl + 4096;
		if (bump > region + REGION) { fprintf(stderr, "harness region exhausted\n"); _exit(2); }
		for (i = 0; i < nmaps; i++) if (maps[i].base == last_base && maps[i].live) maps[i].len = nl;
		last_size = nl;
	}
	n_mremap_ok++;
	return old;
}

/* ---- S events (signal model) --------------------------------------------------------------- */
static void sev(const char *ev)
{
	if (h_started && sig_trace) printf("S %d %s\n", cur_tid(), ev);
}

static const char *mname(pthread_mutex_t *m)
{
	if (m == &init_lock) return "I";
	if (m == &rcu_registry_lock) return "R";
	if (m == &rcu_gp_lock) return "G";
	return NULL;
}

static pthread_t owner[3]; static int held[3];
static int midx(pthread_mutex_t *m) { return m == &init_lock ? 0 : m == &rcu_registry_lock ? 1 : m == &rcu_gp_lock ? 2 : -1; }

static int h_sigmask(int how, const sigset_t *s, sigset_t *o)
{
	int r, full = 0;
	if (!h_started) return real_sigmask(how, s, o);
	if (how == SIG_BLOCK && s) {
		sigset_t f; sigfillset(&f);
		full = sigismember(s, SIGUSR1) && sigismember(s, SIGUSR2) && sigismember(s, SIGTERM);
	}
	if (how == SIG_BLOCK && full) {
		pt(0);
		sev("MASK");
		r = real_sigmask(how, s, o);
		win++;
		pt(1);
		return r;
	}
	if (how == SIG_SETMASK) {
		pt(0);
		if (held[1] && pthread_equal(owner[1], real_self()) && !in_child && h_mode != -1)
			oracle("window", "signal mask restored while this thread holds rcu_registry_lock");
		sev("UNMASK");
		win--;
		r = real_sigmask(how, s, o);	/* a pending signal is delivered in here */
		pt(1);
		return r;
	}
	return real_sigmask(how, s, o);
}

static int h_lock(pthread_mutex_t *m)
{
	int i = midx(m), r;
	char b[16];
	if (!h_started || i < 0) return real_lock(m);
	pt(0);
	if (held[i] && pthread_equal(owner[i], real_self())) {
		snprintf(b, sizeof b, "DEADLOCK %s", mname(m));
		sev(b);
		fflush(stdout);
		fprintf(stderr, "ORACLE deadlock: thread %d waits for %s which one of its own interrupted frames holds\n",
			cur_tid(), i == 0 ? "init_lock" : i == 1 ? "rcu_registry_lock" : "rcu_gp_lock");
		_exit(4);
	}
	if (i == 1 && !really_blocked()) oracle("window", "rcu_registry_lock taken with signals not blocked");
	r = real_lock(m);
	held[i] = 1; owner[i] = real_self();
	snprintf(b, sizeof b, "LOCK %s", mname(m));
	sev(b);
	pt(1);
	return r;
}

static int h_unlock(pthread_mutex_t *m)
{
	int i = midx(m), r;
	char b[16];
	if (!h_started || i < 0) return real_unlock(m);
	pt(0);
	if (i == 1 && !really_blocked()) oracle("window", "rcu_registry_lock released with signals not blocked");
	snprintf(b, sizeof b, "UNLOCK %s", mname(m));
	sev(b);
	held[i] = 0;
	r = real_unlock(m);
	pt(1);
	return r;
}

/* per logical thread */
static struct urcu_bp_reader *tlsp[MAXT];	/* its URCU_TLS(urcu_bp_reader) as last seen */
static struct urcu_bp_reader *addr0[MAXT];	/* address recorded at registration (oracle) */
static int adds[MAXT];				/* add_thread runs since the last removal */
static pthread_t ptid[MAXT];

static int h_setspecific(pthread_key_t k, const void *v)
{
	int t = cur_tid();
	if (!h_started) return real_setspecific(k, v);
	pt(0);
	if (!really_blocked()) oracle("window", "add_thread with signals not blocked");
	if (!(held[1] && pthread_equal(owner[1], real_self()))) oracle("window", "add_thread without rcu_registry_lock");
	if (URCU_TLS(urcu_bp_reader) != NULL || adds[t] != 0)
		oracle("twice", "add_thread runs for thread %d which already has a reader", t);
	adds[t]++;
	sev("ADD");
	pt(1);
	if (h_mode == THR) return real_setspecific(k, v);
	return 0;
}

static int key_live;
static int h_key_create(pthread_key_t *k, void (*d)(void *))
{
	if (h_started) { if (key_live) oracle("exit", "pthread_key_create while the key exists"); }
	key_live = 1;
	return real_key_create(k, d);
}
static int h_key_delete(pthread_key_t k)
{
	if (h_started) { if (!key_live) oracle("exit", "pthread_key_delete without key"); }
	key_live = 0;
	return real_key_delete(k);
}
static pthread_t h_self(void)
{
	if (h_mode == SIM && h_started) return (pthread_t)(1000 + sim_cur);
	return real_self();
}

/* ---- signal injection ---------------------------------------------------------------------- */
static int visit;			/* hook visits of the current operation */
static int fire_at[4], nfire;		/* visits at which to raise */
static int sig_enabled;
static int handler_depth;
static int sig_phase;			/* 0 pre, 1 post */
static int deferred;
static int n_raised, n_skipped_dl, n_entered;
static int dl_point = -1;		/* directed: fire when init_lock is held and signals are open */

static void handler(int sig)
{
	int ph = sig_phase;
	(void)sig;
	if (deferred) { ph = 1; deferred = 0; }
	n_entered++;
	handler_depth++;
	if (sig_trace) printf("S %d SIG_ENTER %s\n", cur_tid(), ph ? "post" : "pre");
	if (win > 0) oracle("window", "signal handler entered between pthread_sigmask(SIG_BLOCK) and its restoration (thread %d)", cur_tid());
	urcu_bp_read_lock();
	if (!URCU_TLS(urcu_bp_reader)) oracle("exit", "handler: no reader after read_lock");
	urcu_bp_read_unlock();
	if (sig_trace) printf("S %d SIG_RET\n", cur_tid());
	handler_depth--;
}

static void do_raise(int post)
{
	n_raised++;
	if (really_blocked()) deferred = 1; else sig_phase = post;
	if (h_mode == THR) pthread_kill(real_self(), SIGUSR1); else raise(SIGUSR1);
}

static void pt(int post)
{
	int i, danger;
	if (!h_started || !sig_enabled) return;
	visit++;
	/* init_lock held by this thread while signals are open: delivering here deadlocks the real
	 * code (finding); excluded from the random plans, exercised by the directed mode `dl`. */
	danger = held[0] && pthread_equal(owner[0], real_self()) && !really_blocked();
	if (dl_point >= 0) {
		if (danger && dl_point-- == 0) do_raise(post);
		return;
	}
	for (i = 0; i < nfire; i++)
		if (fire_at[i] == visit) {
			if (danger) { n_skipped_dl++; return; }
			if (handler_depth >= 3) return;
			do_raise(post);
			return;
		}
}

static void plan_signals(void)
{
	unsigned r = rnd() % 100;
	int i;
	visit = 0; nfire = 0;
	if (r < 55) return;
	nfire = r < 85 ? 1 : r < 95 ? 2 : 3;
	for (i = 0; i < nfire; i++) fire_at[i] = 1 + rnd() % 22;
}

/* ---- state inspection ---------------------------------------------------------------------- */
static int logical_of(pthread_t p)
{
	int t;
	if (h_mode == SIM) return ((long)p >= 1000 && (long)p < 1000 + MAXT) ? (int)((long)p - 1000) : -1;
	for (t = 0; t < MAXT; t++) if (ptid[t] && pthread_equal(ptid[t], p)) return t;
	return -1;
}

/* slot id of a reader pointer by the harness' own walk of the chunk list */
static int slot_of(struct urcu_bp_reader *r, int *k, int *i)
{
	struct registry_chunk *c;
	int n = 0;
	cds_list_for_each_entry(c, &registry_arena.chunk_list, node) {
		if ((char *)r >= (char *)&c->readers[0] && (char *)r < (char *)&c->readers[c->capacity]) {
			*k = n; *i = (int)(r - &c->readers[0]);
			return 0;
		}
		n++;
	}
	return -1;
}

static void print_state(void)
{
	struct registry_chunk *c;
	struct urcu_bp_reader *r;
	size_t j;
	printf("st %d", urcu_bp_refcount);
	cds_list_for_each_entry(c, &registry_arena.chunk_list, node) {
		printf(" c=%zu:%zu:", c->capacity, c->used);
		for (j = 0; j < c->capacity; j++) {
			if (j) putchar(',');
			if (!c->readers[j].alloc) { if (c->readers[j].tid) printf("!"); else printf("-"); }
			else { int t = logical_of(c->readers[j].tid); if (t < 0) printf("?"); else printf("%d", t); }
		}
	}
	cds_list_for_each_entry(r, &registry, node) {
		int k, i;
		if (slot_of(r, &k, &i)) printf(" r=?"); else printf(" r=%d.%d", k, i);
	}
	printf("\n");
}

/* oracle's own bookkeeping of chunks, from the mmap/mremap hooks only */
static int exp_nch; static size_t exp_lastcap;

static void check_all(const char *after)
{
	struct registry_chunk *c;
	struct urcu_bp_reader *r;
	int t, u, nlive = 0, nreg = 0, nch = 0;
	size_t j;
	/* chunks */
	cds_list_for_each_entry(c, &registry_arena.chunk_list, node) {
		size_t pop = 0;
		for (j = 0; j < c->capacity; j++) if (c->readers[j].alloc) pop++;
		if (pop != c->used) oracle("used", "after %s: chunk %d used=%zu but %zu alloc flags set", after, nch, c->used, pop);
		nch++;
	}
	/* live threads */
	for (t = 1; t < MAXT; t++) {
		if (!tlsp[t]) continue;
		nlive++;
		if (tlsp[t] != addr0[t]) oracle("moved", "after %s: reader of live thread %d moved", after, t);
		if (!tlsp[t]->alloc) oracle("registry", "after %s: live thread %d has alloc=0", after, t);
		if (logical_of(tlsp[t]->tid) != t) oracle("registry", "after %s: reader of thread %d carries tid of %d", after, t, logical_of(tlsp[t]->tid));
		for (u = 1; u < t; u++)
			if (tlsp[u] == tlsp[t]) oracle("shared", "after %s: threads %d and %d share a reader", after, u, t);
		{ int k, i; if (slot_of(tlsp[t], &k, &i)) oracle("moved", "after %s: reader of live thread %d is in no chunk", after, t); }
	}
	/* registry = live readers, no duplicates */
	cds_list_for_each_entry(r, &registry, node) {
		int found = 0;
		struct urcu_bp_reader *q;
		nreg++;
		if (nreg > 100000) oracle("registry", "after %s: registry list is cyclic", after);
		for (t = 1; t < MAXT; t++) if (tlsp[t] == r) found++;
		if (found != 1) oracle("registry", "after %s: registry node is the reader of %d live threads", after, found);
		cds_list_for_each_entry(q, &registry, node) { if (q == r) break; }
	}
	if (nreg != nlive) oracle("registry", "after %s: %d registry nodes, %d live threads", after, nreg, nlive);
	{
		size_t tot = 0;
		cds_list_for_each_entry(c, &registry_arena.chunk_list, node) tot += c->used;
		if ((int)tot != nlive) oracle("used", "after %s: sum of used=%zu, live threads=%d", after, tot, nlive);
	}
}

/* first free slot by the oracle's own scan of the alloc flags; -1 if the arena is full */
static int first_free(int *k, int *i)
{
	struct registry_chunk *c;
	int n = 0;
	size_t j;
	cds_list_for_each_entry(c, &registry_arena.chunk_list, node) {
		for (j = 0; j < c->capacity; j++)
			if (!c->readers[j].alloc) { *k = n; *i = (int)j; return 0; }
		n++;
	}
	return -1;
}

static int count_chunks(size_t *lastcap)
{
	struct registry_chunk *c; int n = 0;
	*lastcap = 0;
	cds_list_for_each_entry(c, &registry_arena.chunk_list, node) { n++; *lastcap = c->capacity; }
	return n;
}

/* ---- running code "as thread t" ------------------------------------------------------------ */
struct worker { pthread_t th; sem_t go, done; int cmd; int started; struct urcu_bp_reader *reader; int childrc; };
static struct worker W[MAXT];
enum { CMD_RL, CMD_EXIT, CMD_FORK };
static void child_report(int t);

static void do_fork_as(int t)
{
	pid_t p;
	int st;
	urcu_bp_before_fork();
	fflush(stdout);
	p = fork();
	if (p == 0) {
		in_child = 1;
		urcu_bp_after_fork_child();
		child_report(t);
		fflush(stdout);
		_exit(0);
	}
	urcu_bp_after_fork_parent();
	waitpid(p, &st, 0);
	if (!WIFEXITED(st) || WEXITSTATUS(st)) { fflush(stdout); fprintf(stderr, "ORACLE prune: child failed (status %d)\n", st); _exit(WIFEXITED(st) ? WEXITSTATUS(st) : 2); }
}

static void *worker_main(void *arg)
{
	int t = (int)(long)arg;
	thr_tid = t;
	for (;;) {
		sem_wait(&W[t].go);
		if (W[t].cmd == CMD_RL) {
			printf("S %d CALL_RL\n", t);
			urcu_bp_read_lock();
			urcu_bp_read_unlock();
			printf("S %d RET\n", t);
			W[t].reader = URCU_TLS(urcu_bp_reader);
		} else if (W[t].cmd == CMD_FORK) {
			do_fork_as(t);
		} else {
			printf("S %d CALL_EXIT\n", t);
			return NULL;	/* pthread runs the key destructor: urcu_bp_thread_exit_notifier */
		}
		sem_post(&W[t].done);
	}
}

static void ensure_worker(int t)
{
	if (W[t].started) return;
	sem_init(&W[t].go, 0, 0); sem_init(&W[t].done, 0, 0);
	W[t].started = 1;
	if (pthread_create(&W[t].th, NULL, worker_main, (void *)(long)t)) { perror("pthread_create"); _exit(2); }
	ptid[t] = W[t].th;
}

static void as_read_lock(int t)
{
	if (h_mode == SIM) {
		sim_cur = t;
		URCU_TLS(urcu_bp_reader) = tlsp[t];
		printf("S %d CALL_RL\n", t);
		urcu_bp_read_lock();
		urcu_bp_read_unlock();
		printf("S %d RET\n", t);
		tlsp[t] = URCU_TLS(urcu_bp_reader);
		URCU_TLS(urcu_bp_reader) = NULL;
		sim_cur = 0;
	} else {
		ensure_worker(t);
		W[t].cmd = CMD_RL; sem_post(&W[t].go); sem_wait(&W[t].done);
		tlsp[t] = W[t].reader;
	}
}

static void as_exit(int t)
{
	if (h_mode == SIM) {
		sim_cur = t;
		URCU_TLS(urcu_bp_reader) = tlsp[t];
		printf("S %d CALL_EXIT\n", t);
		urcu_bp_thread_exit_notifier(tlsp[t]);
		printf("S %d RET\n", t);
		tlsp[t] = URCU_TLS(urcu_bp_reader);
		URCU_TLS(urcu_bp_reader) = NULL;
		sim_cur = 0;
	} else {
		W[t].cmd = CMD_EXIT; sem_post(&W[t].go);
		pthread_join(W[t].th, NULL);
		thr_tid = t; printf("S %d RET\n", t); thr_tid = 0;
		W[t].started = 0; ptid[t] = 0;
		sem_destroy(&W[t].go); sem_destroy(&W[t].done);
		/* the thread is gone: whether its reader was released is what the oracle checks */
		tlsp[t] = NULL;
	}
}

/* ---- operations ----------------------------------------------------------------------------- */
static int hist[16];
enum { H_REG_NO, H_REG_FIRST, H_REG_INPLACE, H_REG_NEW, H_UNREG, H_UNREG_FREE, H_USE, H_PRUNE, H_LIBINIT, H_LIBEXIT, H_LIBEXIT_FREE, H_REUSE };

static void op_register(int t)
{
	int m0 = n_mmap, ok0 = n_mremap_ok, f0 = n_mremap_fail, fk, fi, hadfree, k, i, nch0;
	size_t lastcap0, lastcap1;
	const char *g;
	hadfree = !first_free(&fk, &fi);
	nch0 = count_chunks(&lastcap0);
	adds[t] = 0;
	sig_enabled = 1; plan_signals();
	as_read_lock(t);
	sig_enabled = 0;
	if (!tlsp[t]) oracle("exit", "thread %d has no reader after its first read-side call", t);
	addr0[t] = tlsp[t];
	if (slot_of(tlsp[t], &k, &i)) oracle("moved", "reader of thread %d is in no chunk", t);
	{
		int dm = n_mmap - m0, dok = n_mremap_ok - ok0, df = n_mremap_fail - f0;
		int nch1 = count_chunks(&lastcap1);
		if (dm == 0 && dok == 0 && df == 0) g = "no";
		else if (dm == 1 && dok == 0 && df == 0 && nch0 == 0) g = "first";
		else if (dm == 0 && dok == 1 && df == 0) g = "inplace";
		else if (dm == 1 && dok == 0 && df == 1) g = "new";
		else g = "multi";
		if (hadfree) {
			if (strcmp(g, "no")) oracle("reuse", "register %d: arena expanded (%s) although slot %d.%d was free", t, g, fk, fi);
			if (k != fk || i != fi) oracle("reuse", "register %d: got slot %d.%d, first free slot was %d.%d", t, k, i, fk, fi);
			hist[H_REUSE]++;
		} else if (!strcmp(g, "no")) oracle("reuse", "register %d: no free slot, no expansion, yet slot %d.%d returned", t, k, i);
		if (!strcmp(g, "first")) {
			if (lastcap1 != INIT_READER_COUNT || nch1 != 1) oracle("capacity", "first chunk has capacity %zu (chunks %d)", lastcap1, nch1);
		} else if (!strcmp(g, "inplace")) {
			if (lastcap1 != 2 * lastcap0 || nch1 != nch0) oracle("capacity", "in-place growth: capacity %zu -> %zu, chunks %d -> %d", lastcap0, lastcap1, nch0, nch1);
		} else if (!strcmp(g, "new")) {
			if (lastcap1 != 2 * lastcap0 || nch1 != nch0 + 1) oracle("capacity", "new chunk: last capacity %zu -> %zu, chunks %d -> %d", lastcap0, lastcap1, nch0, nch1);
		}
		if (dm == 1 && last_size != ((lastcap1 * sizeof(struct urcu_bp_reader) + sizeof(struct registry_chunk) + 4095) & ~4095UL))
			oracle("capacity", "mapping length %zu does not match capacity %zu", last_size, lastcap1);
	}
	printf("reg %d %s %d %d\n", t, g, k, i);
	hist[!strcmp(g, "no") ? H_REG_NO : !strcmp(g, "first") ? H_REG_FIRST : !strcmp(g, "inplace") ? H_REG_INPLACE : H_REG_NEW]++;
	print_state();
	check_all("register");
}

static void op_use(int t)
{
	int k, i;
	struct urcu_bp_reader *before = tlsp[t];
	sig_enabled = 1; plan_signals();
	as_read_lock(t);
	sig_enabled = 0;
	if (tlsp[t] != before) oracle("moved", "thread %d: reader pointer changed by a read-side call", t);
	if (slot_of(tlsp[t], &k, &i)) oracle("moved", "reader of thread %d is in no chunk", t);
	printf("use %d %d %d\n", t, k, i);
	hist[H_USE]++;
	print_state();
	check_all("use");
}

static void op_unregister(int t)
{
	int k, i, mu0 = n_munmap;
	struct urcu_bp_reader *r = tlsp[t];
	struct urcu_bp_reader *q;
	int nch;
	size_t lc;
	if (slot_of(r, &k, &i)) oracle("moved", "reader of thread %d is in no chunk", t);
	sig_enabled = 1; plan_signals();
	as_exit(t);
	sig_enabled = 0;
	nch = count_chunks(&lc);
	if (tlsp[t] && adds[t] < 2) oracle("exit", "thread %d: TLS reader pointer still set after exit", t);
	if (tlsp[t]) {
		/* a handler that ran after the removal registered the thread again: it is live */
		addr0[t] = tlsp[t];
		if (h_mode == THR) tlsp[t] = NULL;
	}
	if (n_munmap == mu0 && nch > 0 && !tlsp[t]) {
		if (r->alloc || r->tid || r->ctr) oracle("exit", "thread %d exited, its reader still has alloc=%d tid=%ld ctr=%lu", t, r->alloc, (long)r->tid, r->ctr);
		cds_list_for_each_entry(q, &registry, node)
			if (q == r) oracle("exit", "thread %d exited, its reader is still in the registry", t);
	}
	printf("unreg %d %d %d %d\n", t, k, i, n_munmap != mu0);
	if (tlsp[t]) {
		int k2, i2;
		if (slot_of(tlsp[t], &k2, &i2)) oracle("moved", "reader of thread %d is in no chunk", t);
		printf("rereg %d %d %d\n", t, k2, i2);
	}
	adds[t] = tlsp[t] ? 1 : 0;
	hist[n_munmap != mu0 ? H_UNREG_FREE : H_UNREG]++;
	print_state();
	check_all("unregister");
}

static void child_report(int t)
{
	struct registry_chunk *c;
	int u, n = 0;
	size_t j;
	/* oracle: only the forking thread's slot survives */
	cds_list_for_each_entry(c, &registry_arena.chunk_list, node)
		for (j = 0; j < c->capacity; j++)
			if (c->readers[j].alloc && &c->readers[j] != tlsp[t])
				oracle("prune", "after_fork_child by thread %d: foreign slot %d.%zu survives", t, n, j);
	for (u = 1; u < MAXT; u++) if (u != t) { if (tlsp[u]) n++; tlsp[u] = NULL; }
	printf("prune %d %d\n", t, n);
	print_state();
	check_all("prune");
}

static void op_prune(int t)
{
	if (h_mode == SIM) {
		sim_cur = t;
		URCU_TLS(urcu_bp_reader) = tlsp[t];
		urcu_bp_before_fork();
		urcu_bp_after_fork_child();
		URCU_TLS(urcu_bp_reader) = NULL;
		sim_cur = 0;
		child_report(t);
	} else {
		printf("fork %d\n", t);
		if (t == 0) do_fork_as(0);
		else { ensure_worker(t); W[t].cmd = CMD_FORK; sem_post(&W[t].go); sem_wait(&W[t].done); }
		printf("endfork\n");
	}
	hist[H_PRUNE]++;
}

static void op_libexit(void)
{
	int mu0 = n_munmap;
	urcu_bp_exit();
	printf("libexit %d\n", n_munmap != mu0);
	hist[n_munmap != mu0 ? H_LIBEXIT_FREE : H_LIBEXIT]++;
	print_state();
	check_all("libexit");
}

static void op_libinit(void)
{
	_urcu_bp_init();
	printf("libinit\n");
	hist[H_LIBINIT]++;
	print_state();
	check_all("libinit");
}

static int nlive(void) { int t, n = 0; for (t = 1; t < MAXT; t++) if (tlsp[t]) n++; return n; }

static int pick(int want_live)
{
	int t, n = 0, c;
	for (t = 1; t < MAXT; t++) if (!!tlsp[t] == want_live) n++;
	if (!n) return 0;
	c = rnd() % n;
	for (t = 1; t < MAXT; t++) if (!!tlsp[t] == want_live && c-- == 0) return t;
	return 0;
}

static void install_handler(void)
{
	struct sigaction sa;
	memset(&sa, 0, sizeof sa);
	sa.sa_handler = handler;
	sa.sa_flags = SA_NODEFER;
	sigemptyset(&sa.sa_mask);
	sigaction(SIGUSR1, &sa, NULL);
}

static int run_random(unsigned long seed, int nops)
{
	static const int targets[] = { 0, 3, 8, 9, 16, 17, 24, 33, 40, 65, 70, 129, 140 };
	int n, target, extra_ref = 1, t;
	rng_s = seed * 0x9E3779B97F4A7C15ULL + 0x1234567;
	for (n = 0; n < 5; n++) rnd();
	grow_bias = rnd() % 4; if (grow_bias == 3) grow_bias = 2;
	target = targets[rnd() % 13];
	if (h_mode == THR && target > 70) target = 70;
	printf("# seed %lu mode %s grow_bias %d init %d\n", seed, h_mode == SIM ? "sim" : "thr", grow_bias, INIT_READER_COUNT);
	printf("init %d\n", urcu_bp_refcount);
	print_state();
	for (n = 0; n < nops; n++) {
		unsigned r = rnd() % 100;
		int live = nlive();
		if (rnd() % 40 == 0) { target = targets[rnd() % 13]; if (h_mode == THR && target > 70) target = 70; }
		if (r < 4) {
			/* fork child: sim prunes in place (continues as the child), thr forks for real */
			t = (rnd() % 4) ? pick(1) : pick(0);
			if (h_mode == SIM && live > 20 && rnd() % 3) continue;	/* keep populations large most of the time */
			op_prune(t);
		} else if (r < 7) {
			if (extra_ref > 0) { op_libexit(); extra_ref--; } else { op_libinit(); extra_ref++; }
		} else if (r < 20 && live) {
			op_use(pick(1));
		} else {
			int up = live < target ? 80 : live > target ? 20 : 50;
			if ((int)(rnd() % 100) < up) { t = pick(0); if (t) op_register(t); }
			else { t = pick(1); if (t) op_unregister(t); }
		}
	}
	/* drain */
	while ((t = pick(1))) op_unregister(t);
	if (extra_ref > 0) op_libexit();
	printf("# ops reg_no=%d reg_first=%d reg_inplace=%d reg_new=%d unreg=%d unreg_free=%d use=%d prune=%d libinit=%d libexit=%d libexit_free=%d reuse=%d raised=%d entered=%d skipped_dl=%d\n",
	       hist[H_REG_NO], hist[H_REG_FIRST], hist[H_REG_INPLACE], hist[H_REG_NEW], hist[H_UNREG], hist[H_UNREG_FREE], hist[H_USE],
	       hist[H_PRUNE], hist[H_LIBINIT], hist[H_LIBEXIT], hist[H_LIBEXIT_FREE], hist[H_REUSE], n_raised, n_entered, n_skipped_dl);
	return 0;
}

/* directed: a signal while init_lock is held with signals open.  which = 0: in urcu_bp_exit() of
 * the thread-exit path (after the mask has been restored); which = 1: in _urcu_bp_init() called
 * from the constructor path (libinit). */
static int run_dl(int which)
{
	printf("# directed: signal while init_lock is held with signals open (%s)\n", which ? "_urcu_bp_init" : "urcu_bp_exit");
	printf("init %d\n", urcu_bp_refcount);
	print_state();
	if (which == 0) {
		op_register(1);
		sig_enabled = 1; dl_point = 0; visit = 0;
		adds[1] = 1;
		as_exit(1);
		sig_enabled = 0;
		printf("unreg 1 0 0 0\n");
	} else {
		sim_cur = 1;
		printf("S 1 CALL_INIT\n");
		sig_enabled = 1; dl_point = 0; visit = 0;
		_urcu_bp_init();
		sig_enabled = 0;
		printf("S 1 RET\n");
	}
	printf("# no deadlock\n");
	return 0;
}

int main(int argc, char **argv)
{
	unsigned long seed = argc > 2 ? strtoul(argv[2], 0, 0) : 1;
	int nops = argc > 3 ? atoi(argv[3]) : 200, rc;
	const char *mode = argc > 1 ? argv[1] : "sim";
	setvbuf(stdout, NULL, _IOFBF, 1 << 16);
	install_handler();
	sig_trace = 1;
	if (!strcmp(mode, "thr")) h_mode = THR;
	h_started = 1;
	if (!strcmp(mode, "dl")) rc = run_dl(argc > 2 ? atoi(argv[2]) : 0);
	else rc = run_random(seed, nops);
	fflush(stdout);
	_exit(rc);
}
