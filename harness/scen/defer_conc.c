/*
 * C13 tie, concurrent part: the REAL src/urcu.c (memb or mb flavor) and the REAL
 * src/urcu-defer-impl.h under the macro shim and the cooperative runtime.
 *
 * urcu.c includes urcu-defer-impl.h itself; here its include guard is pre-defined so that urcu.c
 * is compiled without it, and the header is then included once more BY INCLUDE PATH with
 * `synchronize_rcu` mapped to a wrapper that brackets the real synchronize_rcu() of urcu.c with
 * CALL/RET markers (the driver treats the grace period as one abstract GpSpec step and checks its
 * guarantee on the model's clock).  No line of /repo is copied or changed.
 *
 * Every access of the algorithm to q[], head, tail, defer_thread_futex, defer_thread_stop is a
 * uatomic_load/uatomic_store/uatomic_dec in this source, i.e. seen by the macro shim (event +
 * scheduling point): no -fsanitize=thread instrumentation is needed for this component.  The
 * remaining plain accesses (owner reading its own head / last_fct_in; runner reading tail,
 * writing last_head / last_fct_out under rcu_defer_mutex) are thread-private or mutex-protected
 * and are folded into the adjacent events (DESIGN §2).
 *
 * threads: 1-3 owners (defer_rcu streams incl. the adversarial bit patterns, own flushes,
 * rcu_defer_barrier(), unregister/register churn), the real defer thread (pthread_create is
 * shimmed), optional barrier caller, 0-3 readers with open sections.
 *
 * Independent oracle (implementation side, no model):
 *   order/extra : per owner, the k-th invocation is the k-th queued (fct, arg); nothing else runs;
 *   early       : no invocation while a section that was open when defer_rcu was called is still open;
 *   lost        : every queued call has run when its owner has unregistered;
 *   notrun      : (--quiesce / sweep) queued calls run without any further API call: a bounded
 *                 logical wait; failure = lost wake-up of the defer thread;
 *   DEADLOCK / BUDGET from the runtime.
 * --overrun: directed schedule (ring filled behind a long section, defer thread preempted in the middle of its batch,
 *   burst of calls meanwhile): the interleaving in which `tail` must not be published before the batch is consumed.
 */
#include "vrt_shim.h"
#define _URCU_DEFER_IMPL_H
#include "urcu.c"
#undef _URCU_DEFER_IMPL_H

#define MAXO 3
#define MAXR 3
#define MAXCALLS 40000

static long lclock = 1;
static long in_cs_since[MAXR + 1];

static void vsync(void)
{
	vrt_log("CALL sync");
	synchronize_rcu();	/* the flavor's real synchronize_rcu() defined in urcu.c above */
	vrt_log("RET sync");
}
#undef synchronize_rcu
#define synchronize_rcu vsync
#include "urcu-defer-impl.h"

/* ---- oracle bookkeeping ---- */
struct call { void (*f)(void *); void *p; long open[MAXR + 1]; };
static struct call *Q[MAXO + 1];
static long nq[MAXO + 1], ninv[MAXO + 1];
static int nowners = 1, nreaders = 1, ncalls = 200, use_bar, churn = 3, quiesce, sweep, hog, p_same = 60, p_adv = 25, p_flush = 1;
static int owner_tid[MAXO + 1];
static long park = 20000;
static int overrun, filled, lib_tid, frozen_now;
static struct defer_queue *dq_ptr[MAXO + 1];

static void (*fn[MAXO + 1][3])(void *);

static void cb_common(int o, int k, void *p)
{
	void (*me)(void *) = fn[o][k];
	long n = ninv[o];
	int r;
	vrt_log("INVK %s %s", vrt_val((unsigned long)me), vrt_val((unsigned long)p));
	if (n >= nq[o])
		vrt_fail("extra", "owner %d: invocation %ld of (%s, %s) but only %ld calls were queued", o, n,
			 vrt_val((unsigned long)me), vrt_val((unsigned long)p), nq[o]);
	else {
		struct call *c = &Q[o][n];
		if (c->f != me || c->p != p)
			vrt_fail("order", "owner %d: invocation %ld is (%s, %s), queued call %ld was (%s, %s)", o, n,
				 vrt_val((unsigned long)me), vrt_val((unsigned long)p), n,
				 vrt_val((unsigned long)c->f), vrt_val((unsigned long)c->p));
		for (r = 1; r <= MAXR; r++)
			if (c->open[r] && in_cs_since[r] == c->open[r])
				vrt_fail("early", "owner %d: call %ld invoked while reader %d is still in the section (begun at %ld) that was open when defer_rcu was called",
					 o, n, r, c->open[r]);
	}
	ninv[o]++;
}

#define EVENCB(o, k) static void __attribute__((aligned(16), noinline, used)) F##o##k(void *p) { cb_common(o, k, p); }
EVENCB(1, 0) EVENCB(1, 1) EVENCB(2, 0) EVENCB(2, 1) EVENCB(3, 0) EVENCB(3, 1)
void __attribute__((noinline, used, visibility("hidden"))) vdc_impl1(void *p) { cb_common(1, 2, p); }
void __attribute__((noinline, used, visibility("hidden"))) vdc_impl2(void *p) { cb_common(2, 2, p); }
void __attribute__((noinline, used, visibility("hidden"))) vdc_impl3(void *p) { cb_common(3, 2, p); }
/* callable functions at ODD addresses (x86 needs no alignment): the 3-slot encoding */
__asm__(".text\n"
	".balign 16\n nop\n .globl vdc_odd1\n .hidden vdc_odd1\n .type vdc_odd1,@function\n vdc_odd1: jmp vdc_impl1\n"
	".balign 16\n nop\n .globl vdc_odd2\n .hidden vdc_odd2\n .type vdc_odd2,@function\n vdc_odd2: jmp vdc_impl2\n"
	".balign 16\n nop\n .globl vdc_odd3\n .hidden vdc_odd3\n .type vdc_odd3,@function\n vdc_odd3: jmp vdc_impl3\n");
extern void vdc_odd1(void *);
extern void vdc_odd2(void *);
extern void vdc_odd3(void *);

static void setup_fns(void)
{
	int o, k;
	fn[1][0] = F10; fn[1][1] = F11; fn[1][2] = vdc_odd1;
	fn[2][0] = F20; fn[2][1] = F21; fn[2][2] = vdc_odd2;
	fn[3][0] = F30; fn[3][1] = F31; fn[3][2] = vdc_odd3;
	for (o = 1; o <= MAXO; o++)
		for (k = 0; k < 3; k++)
			vrt_name((void *)((unsigned long)fn[o][k] & ~15UL), 16, "cb%d_%d", o, k);
}

/* ---- owners ---- */
static __thread void *my_ring;

static void do_register(int o)
{
	int ret;
	vrt_log("CALL dreg");
	ret = rcu_defer_register_thread();
	vrt_log("RET dreg");
	if (ret) { fprintf(stderr, "register failed\n"); _exit(9); }
	my_ring = URCU_TLS(defer_queue).q;
	vrt_name(my_ring, sizeof(void *) * DEFER_QUEUE_SIZE, "q%d", vrt_self());
}

static void do_unregister(int o)
{
	void *ring = my_ring;
	vrt_log("CALL dunreg");
	rcu_defer_unregister_thread();
	vrt_log("RET dunreg");
	vrt_unname(ring);
	my_ring = NULL;
	if (ninv[o] != nq[o])
		vrt_fail("lost", "owner %d unregistered: %ld calls queued, %ld invoked", o, nq[o], ninv[o]);
}

static void do_defer(int o, int *last_k)
{
	struct call *c;
	int k = *last_k, r;
	unsigned long x = vrt_rand();
	void *p;
	void (*f)(void *);
	if ((int)(x % 100) >= p_same)
		k = (int)((x >> 8) % 3);
	*last_k = k;
	f = fn[o][k];
	x = vrt_rand();
	if ((int)(x % 100) < p_adv) {
		switch ((x >> 8) % 5) {
		case 0: p = (void *)(((unsigned long)nq[o] << 4) | 1 | 0x100000); break;	/* odd */
		case 1: p = (void *)-2L; break;							/* the mark */
		case 2: p = (void *)-1L; break;							/* mark | 1 */
		case 3: p = (void *)((unsigned long)f | 1); break;				/* looks like fct|BIT */
		default: p = (void *)(unsigned long)fn[o][(k + 1) % 3]; break;		/* looks like a function */
		}
	} else
		p = (void *)(((unsigned long)nq[o] << 4) | 0x100000 | ((unsigned long)o << 28));
	if (nq[o] >= MAXCALLS) return;
	c = &Q[o][nq[o]];
	c->f = f; c->p = p;
	for (r = 1; r <= MAXR; r++) c->open[r] = in_cs_since[r];
	nq[o]++;
	lclock++;
	vrt_log("CALL defer %s %s", vrt_val((unsigned long)f), vrt_val((unsigned long)p));
	defer_rcu(f, p);
	vrt_log("RET defer");
}

/* wait (logical time only, no API call) until the defer thread has run everything queued by `o` */
static void wait_drained(int o, unsigned long patience)
{
	unsigned long until = vrt_steps() + patience;
	while (ninv[o] < nq[o] && vrt_steps() < until)
		vrt_sleep(40);
	if (ninv[o] < nq[o])
		vrt_fail("notrun", "owner %d: %ld of %ld queued calls not run by the defer thread without a further API call (lost wake-up)",
			 o, nq[o] - ninv[o], nq[o]);
}

static void *owner(void *arg)
{
	int o = (int)(long)arg, i, last_k = 0;
	owner_tid[o] = vrt_self();
	dq_ptr[o] = &URCU_TLS(defer_queue);
	vrt_name(&URCU_TLS(defer_queue), sizeof(struct defer_queue), "dq%d", vrt_self());
	vrt_log("OWNER %d", o);
	do_register(o);
	if (sweep == 2) {
		/* two calls back to back: the first wakes the defer thread, the forced preemption lets it run inside the
		 * second call's head-store -> mb -> futex-load window */
		do_defer(o, &last_k);
		do_defer(o, &last_k);
		do_defer(o, &last_k);
		wait_drained(o, 8000);
		do_unregister(o);
		return NULL;
	}
	if (sweep) {
		/* parked until the one forced preemption (or the end of everybody else's work) */
		vrt_sleep(1000000);
		do_defer(o, &last_k);
		wait_drained(o, 6000);
		do_unregister(o);
		return NULL;
	}
	if (overrun) {
		/* directed: fill the ring behind a long section, let the defer thread start its batch, have it
		 * preempted for a long time (kicker freezes it), and queue a burst meanwhile */
		unsigned long until;
		lib_tid = vrt_nthreads() - 1;
		for (i = 0; i < ncalls; i++)
			do_defer(o, &last_k);
		filled = 1;
		until = vrt_steps() + 400000;
		while (!frozen_now && vrt_steps() < until)
			vrt_sleep(3);
		for (i = 0; i < 600; i++)
			do_defer(o, &last_k);
		do_unregister(o);
		return NULL;
	}
	for (i = 0; i < ncalls; i++) {
		unsigned c = vrt_rand() % 1000;
		if (c < (unsigned)churn && !hog) {
			do_unregister(o);
			if (vrt_rand() % 2) vrt_sleep(vrt_rand() % 60);
			do_register(o);
		} else if (c < (unsigned)(churn + p_flush)) {
			vrt_log("CALL dbt");
			rcu_defer_barrier_thread();
			vrt_log("RET dbt");
		} else if (c < (unsigned)(churn + 2 * p_flush)) {
			vrt_log("CALL dbar");
			rcu_defer_barrier();
			vrt_log("RET dbar");
		} else if (c < (unsigned)(churn + 2 * p_flush + 6) && !hog) {
			vrt_sleep(vrt_rand() % 400);
		} else
			do_defer(o, &last_k);
	}
	if (quiesce)
		wait_drained(o, 30000);
	do_unregister(o);
	return NULL;
}

static void *barrier_caller(void *arg)
{
	int i;
	(void)arg;
	for (i = 0; i < 6; i++) {
		vrt_sleep(200 + vrt_rand() % 1500);
		vrt_log("CALL dbar");
		rcu_defer_barrier();
		vrt_log("RET dbar");
	}
	return NULL;
}

static int owners_left;

/* overrun mode: a long preemption of the defer thread in the middle of its batch */
static void *kicker(void *arg)
{
	unsigned long until = vrt_steps() + 2000000;
	(void)arg;
	long n0 = -1;
	/* wait until the defer thread is a few invocations into a batch that covers (almost) the whole ring
	 * (oracle-side peek at last_head: not part of the traced program) */
	while (owners_left > 0 && vrt_steps() < until) {
		if (filled && dq_ptr[1] && dq_ptr[1]->last_head >= 3500 && nq[1] - ninv[1] > 3000) {
			if (n0 < 0) n0 = ninv[1];
			if (ninv[1] >= n0 + 4) break;
		}
		vrt_sleep(1);
	}
	if (lib_tid > 0 && owners_left > 0 && n0 >= 0) {
		vrt_freeze(lib_tid, 1);
		frozen_now = 1;
		vrt_sleep(9000);
		vrt_freeze(lib_tid, 0);
	}
	frozen_now = 1;
	return NULL;
}

static void *reader(void *arg)
{
	int r = (int)(long)arg, i;
	vrt_log("READER %d", r);
	vrt_log("CALL rreg");
	rcu_register_thread();
	vrt_log("RET rreg");
	for (i = 0; owners_left > 0 && i < 4000; i++) {
		vrt_log("CALL lock");
		rcu_read_lock();
		vrt_log("RET lock %d", r);
		in_cs_since[r] = lclock++;
		if (overrun)
			while (!filled) vrt_sleep(200);
		else if (hog)
			vrt_sleep(park + vrt_rand() % (park + 1));	/* long section: the defer thread's grace period waits, the rings fill */
		else if (vrt_rand() % 3 == 0)
			vrt_sleep(vrt_rand() % 300);
		else
			vrt_point();
		in_cs_since[r] = 0;
		vrt_log("CALL unlock %d", r);
		rcu_read_unlock();
		vrt_log("RET unlock");
		if (vrt_rand() % 2) vrt_sleep(vrt_rand() % 200); else vrt_point();
	}
	vrt_log("CALL runreg");
	rcu_unregister_thread();
	vrt_log("RET runreg");
	return NULL;
}

static void *owner_wrap(void *arg)
{
	owner(arg);
	owners_left--;
	return NULL;
}

int main(int argc, char **argv)
{
	int i, o;
	argc = vrt_init(argc, argv);
	for (i = 1; i < argc; i++) {
		if (!strcmp(argv[i], "--owners") && i + 1 < argc) nowners = atoi(argv[++i]);
		else if (!strcmp(argv[i], "--readers") && i + 1 < argc) nreaders = atoi(argv[++i]);
		else if (!strcmp(argv[i], "--calls") && i + 1 < argc) ncalls = atoi(argv[++i]);
		else if (!strcmp(argv[i], "--churn") && i + 1 < argc) churn = atoi(argv[++i]);
		else if (!strcmp(argv[i], "--psame") && i + 1 < argc) p_same = atoi(argv[++i]);
		else if (!strcmp(argv[i], "--padv") && i + 1 < argc) p_adv = atoi(argv[++i]);
		else if (!strcmp(argv[i], "--pflush") && i + 1 < argc) p_flush = atoi(argv[++i]);
		else if (!strcmp(argv[i], "--park") && i + 1 < argc) park = atol(argv[++i]);
		else if (!strcmp(argv[i], "--bar")) use_bar = 1;
		else if (!strcmp(argv[i], "--quiesce")) quiesce = 1;
		else if (!strcmp(argv[i], "--hog")) hog = 1;
		else if (!strcmp(argv[i], "--overrun")) { overrun = 1; hog = 1; nowners = 1; nreaders = 1; p_same = 100; p_adv = 0; churn = 0; p_flush = 0; }
		else if (!strcmp(argv[i], "--oneshot-sweep")) { sweep = 1; nowners = 1; nreaders = 0; }
		else if (!strcmp(argv[i], "--oneshot-sweep2")) { sweep = 2; nowners = 1; nreaders = 0; }
	}
	if (nowners > MAXO) nowners = MAXO;
	if (nowners < 1) nowners = 1;
	if (nreaders > MAXR) nreaders = MAXR;
	if (ncalls > MAXCALLS) ncalls = MAXCALLS;
	for (o = 1; o <= MAXO; o++)
		Q[o] = calloc(MAXCALLS, sizeof(struct call));
	setup_fns();
	vrt_name(&defer_thread_futex, sizeof(defer_thread_futex), "dfutex");
	vrt_name(&defer_thread_stop, sizeof(defer_thread_stop), "dstop");
	vrt_name(&rcu_defer_mutex, sizeof(rcu_defer_mutex), "defer_mutex");
	vrt_name(&defer_thread_mutex, sizeof(defer_thread_mutex), "thread_mutex");
	vrt_name(&rcu_gp.ctr, sizeof(rcu_gp.ctr), "gp.ctr");
	vrt_name(&rcu_gp.futex, sizeof(rcu_gp.futex), "gp.futex");
	vrt_name(&rcu_gp_lock, sizeof(rcu_gp_lock), "gp_lock");
	vrt_name(&rcu_registry_lock, sizeof(rcu_registry_lock), "registry_lock");
	vrt_raw("CFG size=%d mask=%d owners=%d readers=%d head_off=%d tail_off=%d", (int)DEFER_QUEUE_SIZE, (int)DEFER_QUEUE_MASK,
		nowners, nreaders, (int)offsetof(struct defer_queue, head), (int)offsetof(struct defer_queue, tail));
	owners_left = nowners;
	for (o = 1; o <= nowners; o++)
		vrt_spawn("owner", owner_wrap, (void *)(long)o);
	for (i = 1; i <= nreaders; i++)
		vrt_spawn("reader", reader, (void *)(long)i);
	if (use_bar)
		vrt_spawn("bar", barrier_caller, NULL);
	if (overrun)
		vrt_spawn("kicker", kicker, NULL);
	vrt_finish();
	for (o = 1; o <= nowners; o++)
		if (ninv[o] != nq[o]) {
			fprintf(stderr, "ORACLE lost: owner %d: %ld queued, %ld invoked at the end\n", o, nq[o], ninv[o]);
			vrt_failed = 1;
		}
	fflush(stdout);
	fflush(stderr);
	_exit(vrt_failed ? 3 : 0);
}
