/*
 * C03/C04 tie for src/urcu-call-rcu-impl.h (included at the end of the real src/urcu.c, memb / mb
 * flavors) together with the wait-free queue of include/urcu/static/wfcqueue.h.
 *
 * The REAL source is compiled below under the macro shim: every uatomic_*, barrier, mutex, futex,
 * poll, pthread_create/join of the unmodified call_rcu text is an event + scheduling point; the
 * helper threads created by the library are cooperative threads of the deterministic runtime.
 *
 * build: gcc -DRCU_MEMBARRIER|-DRCU_MB|-DCALLRCU_QSBR|-DCALLRCU_BP callrcu.c vrt.c vrt_compat_futex.c compat_arch.c
 *        (memb / mb: src/urcu.c; qsbr: src/urcu-qsbr.c; bp: src/urcu-bp.c – all include the same urcu-call-rcu-impl.h)
 * run:   VRT_MEMBARRIER=0|1 callrcu --seed N --workers W --ops N --ncpus C [--admin A] [--park] [--rt PCT] [--chain PCT]
 *        [--predefault] [--nobarrier] [--oneshot K] + runtime options (--pswitch, --strategy pct|sweep, --preempt-at/-tid/-len, --faults …)
 *
 * Independent oracles (implementation side, plain C, no model):
 *   once:     every callback handed to call_rcu() has been invoked exactly once when the scenario ends
 *             (after final rcu_barrier()s and the teardown of every helper); never twice at any time;
 *   head:     the callback is invoked with the rcu_head it was registered with (container identity);
 *   gp:       at invocation no thread is still inside a read-side section that began (rcu_read_lock
 *             returned) before the call_rcu() call;
 *   barrier:  when rcu_barrier() returns, every callback whose call_rcu() had returned before the
 *             rcu_barrier() call has finished executing;
 *   uaf:      nothing writes to a completion object after its last urcu_ref_put (poison check), no
 *             call_rcu_data is freed twice, no enqueue lands in a freed call_rcu_data (poison check);
 *   deadlock / budget: from the runtime.
 */
#include "vrt_shim.h"
#include <fcntl.h>
#include <dirent.h>
#include <assert.h>
#include <ctype.h>
#include <limits.h>
#include <stdbool.h>
#include <sys/time.h>

/* ---- scenario-side interposition (this TU only; /repo untouched) ------------------------------ */
static void *scn_malloc(size_t n);
static void *scn_calloc(size_t a, size_t b);
static void scn_free(void *p);
static int scn_pthread_create(pthread_t *t, const pthread_attr_t *a, void *(*fn)(void *), void *arg);
static int scn_pthread_join(pthread_t t, void **ret);
#define malloc(n)			scn_malloc(n)
#define calloc(a, b)			scn_calloc(a, b)
#define free(p)				scn_free(p)
/* number of possible CPUs = vrt_cfg_ncpus (compat-smp.h: sysfs unavailable -> sysconf) */
#define open(p, f)			(-1)
#define opendir(p)			((DIR *)NULL)
#define sysconf(x)			((x) == _SC_NPROCESSORS_CONF ? (long)vrt_cfg_ncpus : sysconf(x))
#define sched_setaffinity(p, n, m)	0
#undef pthread_create
#define pthread_create(t, a, f, g)	scn_pthread_create(t, a, f, g)
/* pthread_t values are recycled by libc once a thread has been joined: join the NEWEST cooperative
 * thread carrying that pthread_t (vrt_pthread_join would pick the oldest, already joined one) */
#undef pthread_join
#define pthread_join(t, r)		scn_pthread_join(t, r)
#define HAVE_SYSCONF 1
#define HAVE_SCHED_GETCPU 1
#define HAVE_SCHED_SETAFFINITY 1

#if defined(CALLRCU_BP)
/* bp: registration / synchronize_rcu block signals; reader slots live in the library's arena and are reused by
 * later threads: (re)name the calling thread's slot before it releases any lock (before anybody can scan it) */
static int bp_sigmask(int how, const sigset_t *set, sigset_t *old)
{
	(void)set; (void)old;
	vrt_sig_block(how == SIG_BLOCK);
	vrt_log(how == SIG_BLOCK ? "SIGMASK block" : "SIGMASK restore");
	return 0;
}
#define pthread_sigmask(how, set, old) bp_sigmask(how, set, old)
static void bp_name_my_slot(void);
static int bp_unlock(pthread_mutex_t *m)
{
	bp_name_my_slot();
	return vrt_mutex_unlock(m);
}
#undef pthread_mutex_unlock
#define pthread_mutex_unlock(m) bp_unlock(m)
#include "urcu-bp.c"
#define FLAVOR "bp"
#define HAS_MEMB urcu_bp_has_sys_membarrier
static void name_reader(int tid)
{
	struct urcu_bp_reader *r = URCU_TLS(urcu_bp_reader);
	if (r)
		vrt_name(&r->ctr, sizeof(r->ctr), "reader%d.ctr", tid);
}
static void bp_name_my_slot(void) { name_reader(vrt_self()); }
static const char *bp_resolve(const void *p)
{
	struct urcu_bp_reader *r = URCU_TLS(urcu_bp_reader);
	if (r && p == (const void *)&r->ctr) {
		name_reader(vrt_self());
		return "x";
	}
	return NULL;
}
#elif defined(CALLRCU_QSBR)
#include "urcu-qsbr.c"
#define FLAVOR "qsbr"
#define HAS_MEMB 0
static void name_reader(int tid)
{
	vrt_name(&URCU_TLS(urcu_qsbr_reader).ctr, sizeof(unsigned long), "reader%d.ctr", tid);
	vrt_name(&URCU_TLS(urcu_qsbr_reader).waiting, sizeof(int), "reader%d.waiting", tid);
}
#else
#include "urcu.c"
#ifdef RCU_MEMBARRIER
#define FLAVOR "memb"
#define HAS_MEMB urcu_memb_has_sys_membarrier
#else
#define FLAVOR "mb"
#define HAS_MEMB 0
#endif
static void name_reader(int tid)
{
	vrt_name(&URCU_TLS(rcu_reader).ctr, sizeof(unsigned long), "reader%d.ctr", tid);
}
#endif

#undef malloc
#undef calloc
#undef free
#undef open
#undef opendir
#undef sysconf

#define MAXCB 4096
#define MAXW 8
#define MAXCRD 256

struct ucb {
	struct rcu_head head;
	int id;
	int chain;		/* number of further generations this callback re-enqueues */
	long call_time;		/* logical time of the call_rcu() call */
	long ret_time;		/* logical time call_rcu() returned (0: not yet) */
	int invoked, finished;
	unsigned long magic;
};

static struct ucb *cbs[MAXCB];
static int ncb;
static long lclock = 1;
static long in_cs_since[VRT_MAXT];	/* begin time of the outermost open section of thread tid, 0 = outside */
static int depth[VRT_MAXT];
static int nworkers = 2, nops = 40, use_admin, park, rtpct = 30, chainpct = 25, maxchain = 2, prebarrier, oneshot, nobarrier;
static int nworkers_done;
static volatile int w_started;

/* heap objects of the library, named at allocation */
static struct call_rcu_data *crd_obj[MAXCRD];
static int crd_freed[MAXCRD];
static int ncrd, ncompl, nwork, percpu_named;
struct compl_rec { void *p; int freed; };
static struct compl_rec compls[1024];

static int crd_id(struct call_rcu_data *p)
{
	int i;
	for (i = 1; i <= ncrd; i++)
		if (crd_obj[i] == p)
			return i;
	return 0;
}

static void *scn_malloc(size_t n)
{
	void *p = malloc(n);
	if (!p)
		abort();
	if (n == sizeof(struct call_rcu_data)) {
		struct call_rcu_data *c = p;
		int k = ++ncrd;
		if (k >= MAXCRD) { fprintf(stderr, "callrcu: too many helpers\n"); _exit(9); }
		crd_obj[k] = c;
		vrt_name(&c->cbs_tail.p, sizeof(c->cbs_tail.p), "crd%d.tail", k);
		vrt_name(&c->cbs_head.node, sizeof(c->cbs_head.node), "crd%d.head", k);
		vrt_name(&c->flags, sizeof(c->flags), "crd%d.flags", k);
		vrt_name(&c->futex, sizeof(c->futex), "crd%d.futex", k);
		vrt_name(&c->qlen, sizeof(c->qlen), "crd%d.qlen", k);
		vrt_log("ALLOC crd%d", k);
	} else if (vrt_cfg_ncpus > 0 && n == sizeof(void *) * (size_t)vrt_cfg_ncpus && cpus_array_len > 0 && !percpu_named) {
		/* alloc_cpu_call_rcu_data(): the first allocation of this size once cpus_array_len is set
		 * (free_all_cpu_call_rcu_data()'s scratch array has the same size but comes later) */
		percpu_named = 1;
		vrt_name(p, n, "percpu");
		vrt_log("ALLOC percpu %d", vrt_cfg_ncpus);
	}
	return p;
}

static void *scn_calloc(size_t a, size_t b)
{
	void *p = calloc(a, b);
	if (!p)
		abort();
	if (a == 1 && b == sizeof(struct call_rcu_completion)) {
		struct call_rcu_completion *c = p;
		int k = ++ncompl;
		if (k >= 1024) { fprintf(stderr, "callrcu: too many barriers\n"); _exit(9); }
		compls[k].p = p;
		vrt_name(&c->barrier_count, sizeof(c->barrier_count), "compl%d.count", k);
		vrt_name(&c->futex, sizeof(c->futex), "compl%d.futex", k);
		vrt_name(&c->ref, sizeof(c->ref), "compl%d.ref", k);
		vrt_log("ALLOC compl%d", k);
	} else if (a == 1 && b == sizeof(struct call_rcu_completion_work)) {
		struct call_rcu_completion_work *w = p;
		int k = ++nwork;
		vrt_name(&w->head, sizeof(w->head), "work%d", k);
		vrt_log("ALLOC work%d", k);
	}
	return p;
}

/* objects of the library are never recycled during a run: they are poisoned instead, so that any
 * later write is detected and names stay unique */
static void scn_free(void *p)
{
	int i;
	if (!p)
		return;
	if ((i = crd_id(p))) {
		if (crd_freed[i])
			vrt_fail("uaf", "call_rcu_data crd%d freed twice", i);
		crd_freed[i] = 1;
		vrt_log("FREE crd%d", i);
		memset(p, 0x5a, sizeof(struct call_rcu_data));
		return;
	}
	for (i = 1; i <= ncompl; i++)
		if (compls[i].p == p) {
			if (compls[i].freed)
				vrt_fail("uaf", "completion compl%d freed twice", i);
			compls[i].freed = 1;
			vrt_log("FREE compl%d", i);
			memset(p, 0x5a, sizeof(struct call_rcu_completion));
			return;
		}
	if (vrt_is_named(p)) {
		const char *nm = vrt_loc(p);
		if (!strncmp(nm, "work", 4)) {
			vrt_log("FREE %s", nm);
			memset(p, 0x5a, sizeof(struct call_rcu_completion_work));
			return;
		}
		if (!strcmp(nm, "percpu")) {
			vrt_log("FREE percpu");
			return;
		}
	}
	free(p);
}

static void poison_check(void)
{
	int i;
	size_t k;
	for (i = 1; i <= ncrd; i++)
		if (crd_freed[i])
			for (k = 0; k < sizeof(struct call_rcu_data); k++)
				if (((unsigned char *)crd_obj[i])[k] != 0x5a) {
					vrt_fail("uaf", "call_rcu_data crd%d written after free (offset %zu)", i, k);
					break;
				}
	for (i = 1; i <= ncompl; i++)
		if (compls[i].freed)
			for (k = 0; k < sizeof(struct call_rcu_completion); k++)
				if (((unsigned char *)compls[i].p)[k] != 0x5a) {
					vrt_fail("uaf", "completion compl%d written after its last urcu_ref_put (offset %zu)", i, k);
					break;
				}
}

struct tramp { void *(*fn)(void *); void *arg; };

static void *tramp_fn(void *p)
{
	struct tramp t = *(struct tramp *)p;
	free(p);
	name_reader(vrt_self());
	return t.fn(t.arg);
}

static struct { pthread_t pt; int tid; } spawned[VRT_MAXT];
static int nspawned;

static int scn_pthread_create(pthread_t *t, const pthread_attr_t *a, void *(*fn)(void *), void *arg)
{
	struct tramp *tr;
	int r;
	if (!vrt_active)
		return (pthread_create)(t, a, fn, arg);
	tr = malloc(sizeof(*tr));
	tr->fn = fn;
	tr->arg = arg;
	r = vrt_pthread_create(t, a, tramp_fn, tr);
	if (!r && nspawned < VRT_MAXT) {
		spawned[nspawned].pt = *t;
		spawned[nspawned].tid = vrt_nthreads() - 1;
		nspawned++;
	}
	return r;
}

static int scn_pthread_join(pthread_t t, void **ret)
{
	int i;
	if (!vrt_active)
		return (pthread_join)(t, ret);
	for (i = nspawned - 1; i >= 0; i--)
		if (pthread_equal(spawned[i].pt, t)) {
			vrt_point();
			vrt_log("JOIN T%d", spawned[i].tid);
			vrt_join(spawned[i].tid);
			if (ret)
				*ret = NULL;
			return 0;
		}
	return (pthread_join)(t, ret);
}

/* ---- read-side sections ------------------------------------------------------------------------ */
static void do_lock(void)
{
	int me = vrt_self();
	vrt_log("CALL lock");
	rcu_read_lock();
	vrt_log("RET lock");
	if (depth[me]++ == 0)
		in_cs_since[me] = lclock++;
}

static void do_unlock(void)
{
	int me = vrt_self();
	if (--depth[me] == 0)
		in_cs_since[me] = 0;	/* the section ends when rcu_read_unlock is called */
	vrt_log("CALL unlock");
	rcu_read_unlock();
	vrt_log("RET unlock");
}

/* ---- QSBR: quiescent states, offline around blocking calls ------------------------------------------ */
#ifdef CALLRCU_QSBR
#define IS_QSBR 1
/* a registered online thread announces a quiescent state between two operations (never inside a section) */
static void qs(void)
{
	if (URCU_TLS(urcu_qsbr_reader).registered && depth[vrt_self()] == 0 && _urcu_qsbr_read_ongoing()) {
		vrt_log("CALL qs");
		rcu_quiescent_state();
		vrt_log("RET qs");
	}
}
/* QSBR threads must be offline while they block on other threads (call_rcu_data_free() polls for the helper to stop,
 * pthread_join): an online thread that does not announce quiescent states blocks every grace period, in particular the
 * one the helper it waits for may be running */
static int go_offline(void)
{
	if (!URCU_TLS(urcu_qsbr_reader).registered || !_urcu_qsbr_read_ongoing())
		return 0;
	vrt_log("CALL offline");
	rcu_thread_offline();
	vrt_log("RET offline");
	return 1;
}
static void go_online(int was)
{
	if (!was)
		return;
	vrt_log("CALL online");
	rcu_thread_online();
	vrt_log("RET online");
}
#else
#define IS_QSBR 0
static void qs(void) { }
static int go_offline(void) { return 0; }
static void go_online(int was) { (void)was; }
#endif

/* ---- callbacks --------------------------------------------------------------------------------- */
static void user_cb(struct rcu_head *rhp);

static void do_call_rcu(int chain)
{
	struct ucb *cb;
	int id;
	if (ncb >= MAXCB - 1)
		return;
	cb = malloc(sizeof(*cb));
	memset(cb, 0, sizeof(*cb));
	id = ++ncb;
	cbs[id] = cb;
	cb->id = id;
	cb->chain = chain;
	cb->magic = 0xC0FFEE00UL + id;
	vrt_name(&cb->head, sizeof(cb->head), "cb%d", id);
	cb->call_time = lclock++;
	vrt_log("CALL call_rcu %d", id);
	call_rcu(&cb->head, user_cb);
	vrt_log("RET call_rcu");
	cb->ret_time = lclock++;
}

static void user_cb(struct rcu_head *rhp)
{
	struct ucb *cb = caa_container_of(rhp, struct ucb, head);
	int t;
	if (cb->id < 1 || cb->id > ncb || cbs[cb->id] != cb || cb->magic != 0xC0FFEE00UL + cb->id) {
		vrt_fail("head", "callback invoked with an rcu_head that was never registered (%p)", (void *)rhp);
		vrt_log("INVOKE 0");
		vrt_log("INVOKED 0");
		return;
	}
	vrt_log("INVOKE %d", cb->id);
	if (cb->invoked++)
		vrt_fail("once", "callback %d invoked %d times", cb->id, cb->invoked);
	for (t = 0; t < VRT_MAXT; t++)
		if (in_cs_since[t] && in_cs_since[t] < cb->call_time)
			vrt_fail("gp", "callback %d (call_rcu at %ld) invoked while T%d is still inside a section begun at %ld",
				 cb->id, cb->call_time, t, in_cs_since[t]);
	if (cb->chain > 0)
		do_call_rcu(cb->chain - 1);
	else if (vrt_rand() % 4 == 0) {
		/* a callback may use read-side sections (the helper thread is a registered reader), also long ones */
		do_lock();
		if (park && vrt_rand() % 3 == 0)
			vrt_sleep(100 + vrt_rand() % 500);
		do_unlock();
	}
	cb->finished = 1;
	vrt_log("INVOKED %d", cb->id);
}

static void do_barrier(void)
{
	long t0 = lclock++;
	int i, n = ncb, inside = depth[vrt_self()] > 0;
	vrt_log("CALL barrier");
	rcu_barrier();
	vrt_log("RET barrier");
	if (inside)
		return;		/* refused (error message), returns at once */
	for (i = 1; i <= n; i++)
		if (cbs[i]->ret_time && cbs[i]->ret_time < t0 && !cbs[i]->finished)
			vrt_fail("barrier", "rcu_barrier() (called at %ld) returned while callback %d (call_rcu returned at %ld) has not %s",
				 t0, i, cbs[i]->ret_time, cbs[i]->invoked ? "finished" : "been invoked");
}

/* ---- helper management ------------------------------------------------------------------------- */
static struct call_rcu_data *do_create(unsigned long flags, int cpu)
{
	struct call_rcu_data *h;
	vrt_log("CALL create %lu %d", flags, cpu);
	h = create_call_rcu_data(flags, cpu);
	vrt_log("RET create crd%d", crd_id(h));
	return h;
}

static void do_set_thread(struct call_rcu_data *h)
{
	vrt_log("CALL set_thread crd%d", crd_id(h));
	set_thread_call_rcu_data(h);
	vrt_log("RET set_thread");
}

static int do_set_cpu(int cpu, struct call_rcu_data *h)
{
	int r;
	vrt_log("CALL set_cpu %d crd%d", cpu, crd_id(h));
	r = set_cpu_call_rcu_data(cpu, h);
	vrt_log("RET set_cpu %d", r);
	return r;
}

static void do_free(struct call_rcu_data *h)
{
	int was = go_offline();
	vrt_log("CALL free crd%d", crd_id(h));
	call_rcu_data_free(h);
	vrt_log("RET free");
	go_online(was);
}

static void do_sync(void)
{
	vrt_log("CALL sync");
	synchronize_rcu();
	vrt_log("RET sync");
}

static void do_create_all(unsigned long flags)
{
	int r, was = go_offline();	/* may call call_rcu_data_free() when it loses a race for a slot */
	vrt_log("CALL create_all %lu", flags);
	r = create_all_cpu_call_rcu_data(flags);
	vrt_log("RET create_all %d", r);
	go_online(was);
}

static void do_free_all(void)
{
	int was = go_offline();
	vrt_log("CALL free_all");
	free_all_cpu_call_rcu_data();
	vrt_log("RET free_all");
	go_online(was);
}

static void set_my_cpu(int c)
{
	vrt_cfg_cpu_of[vrt_self()] = c;
}

/* ---- threads ------------------------------------------------------------------------------------ */
static void *worker(void *arg)
{
	int w = (int)(long)arg, i, me = vrt_self();
	struct call_rcu_data *myh = NULL;
	name_reader(me);
	vrt_log("WORKER %d", w);
	set_my_cpu((int)(vrt_rand() % (vrt_cfg_ncpus > 0 ? vrt_cfg_ncpus : 1)));
	vrt_log("CALL register");
	rcu_register_thread();
	vrt_log("RET register");
	for (i = 0; i < nops; i++) {
		unsigned c = vrt_rand() % 100;
		qs();
		if (c < 36) {
			int chain = (int)(vrt_rand() % 100) < chainpct ? 1 + (int)(vrt_rand() % maxchain) : 0;
			do_call_rcu(chain);
		} else if (c < 48) {
			if (depth[me] < 2) do_lock();
		} else if (c < 64) {
			if (depth[me] > 0) do_unlock();
		} else if (c < 71) {
			if (!nobarrier && (depth[me] == 0 || (!IS_QSBR && vrt_rand() % 4 == 0))) do_barrier();
		} else if (c < 79) {
			if (!myh) {
				myh = do_create((int)(vrt_rand() % 100) < rtpct ? URCU_CALL_RCU_RT : 0, -1);
				do_set_thread(myh);
			} else if (depth[me] == 0) {
				/* remove from per-thread use first (API contract), then destroy with callbacks pending.
				 * Not inside a read-side section: call_rcu_data_free() waits for the helper, which may
				 * be inside synchronize_rcu() (same rule as for synchronize_rcu / rcu_barrier). */
				do_set_thread(NULL);
				do_free(myh);
				myh = NULL;
			}
		} else if (c < 84) {
			set_my_cpu((int)(vrt_rand() % (vrt_cfg_ncpus > 0 ? vrt_cfg_ncpus : 1)));
		} else if (c < 86) {
			if (depth[me] == 0) do_sync();
		} else if (c < 87) {
			/* silently refused: the default helper is where leftovers go */
			if (default_call_rcu_data && depth[me] == 0) do_free(default_call_rcu_data);
		} else if (c < 92 && park && depth[me] > 0) {
			vrt_sleep(200 + vrt_rand() % 1200);
		} else {
			vrt_sleep(1 + vrt_rand() % 20);
		}
	}
	while (depth[me] > 0)
		do_unlock();
	if (myh) {
		do_set_thread(NULL);
		do_free(myh);
	}
	vrt_log("CALL unregister");
	rcu_unregister_thread();
	vrt_log("RET unregister");
	nworkers_done++;
	return NULL;
}

/* --oneshot K: minimal scenarios for the systematic one-preemption sweep (strategy sweep: non-preemptive base
 * schedule + ONE forced preemption).  T0 = main, T1 = this thread, T2 = the default helper.
 *   1: the helper is asleep when the single call_rcu() arrives (T1 parked first; force T1 inside the helper's
 *      dec / empty-check / FUTEX_WAIT window);
 *   2: the call_rcu() runs before the helper's first step (force T2 inside T1's enqueue / wake window);
 *   3: as 2, followed by rcu_barrier() at once (force T2 inside the barrier's dec / count test / FUTEX_WAIT window);
 *   4: as 1 with a re-enqueueing callback;
 *   5: T1's helper is the per-CPU helper of CPU 0 (T2); while T1 is inside call_rcu() (held there by --hold-at N
 *      --hold-tid 1 --hold-len M: descheduled unless nothing else can run) the main thread performs the documented
 *      teardown of that helper: set_cpu_call_rcu_data(0, NULL); synchronize_rcu(); call_rcu_data_free(H).  With the
 *      read-side section call_rcu() holds across lookup and enqueue the grace period waits for T1, T1 enqueues first
 *      and the leftover is handed over; without it T1 enqueues into the freed (poisoned) structure = `uaf`;
 *   6: as 5 with free_all_cpu_call_rcu_data() as the teardown;
 *   7: T1 queues one callback, waits (offline in qsbr) until it has run and the helper has gone back to sleep, then
 *      calls synchronize_rcu(): a helper that sleeps online (qsbr without rcu_thread_offline()) blocks it for ever.
 * A lost wake-up leaves the final rcu_barrier() (or this one) blocked for ever = DEADLOCK of the runtime. */
static void *oneshot_thread(void *arg)
{
	int me = vrt_self();
	(void)arg;
	name_reader(me);
	vrt_log("WORKER 1");
	vrt_log("CALL register");
	rcu_register_thread();
	vrt_log("RET register");
	if (oneshot == 1 || oneshot == 4) {
		int was = go_offline();
		vrt_sleep(1000000);
		go_online(was);
	}
	if (oneshot == 5 || oneshot == 6)
		set_my_cpu(0);
	w_started = 1;
	do_call_rcu(oneshot == 4 ? 1 : 0);
	if (oneshot == 7) {
		int was = go_offline(), k;
		for (k = 0; k < 200 && !cbs[1]->finished; k++)
			vrt_sleep(20);
		vrt_sleep(300);
		go_online(was);
		do_sync();
	}
	if (oneshot == 3)
		do_barrier();
	vrt_log("CALL unregister");
	rcu_unregister_thread();
	vrt_log("RET unregister");
	nworkers_done++;
	return NULL;
}

/* oneshot 5/6: an access through a pointer read from the poisoned (freed) call_rcu_data faults */
static void segv_uaf(int sig)
{
	(void)sig;
	vrt_fail("uaf", "call_rcu() followed a pointer read from a freed call_rcu_data (SIGSEGV on poisoned memory)");
	fflush(NULL);
	_exit(3);
}

/* per-CPU helper administration: one thread creates/destroys, a second one only creates */
static void *admin(void *arg)
{
	int a = (int)(long)arg, i, me = vrt_self();
	name_reader(me);
	vrt_log("ADMIN %d", a);
	vrt_log("CALL register");
	rcu_register_thread();
	vrt_log("RET register");
	for (i = 0; i < 6 && nworkers_done < nworkers; i++) {
		unsigned c = vrt_rand() % 100;
		qs();
		unsigned long fl = (int)(vrt_rand() % 100) < rtpct ? URCU_CALL_RCU_RT : 0;
		if (a == 0) {
			if (c < 40) {
				do_create_all(fl);
				vrt_sleep(50 + vrt_rand() % 600);
				do_free_all();
			} else if (c < 75) {
				int cpu = (int)(vrt_rand() % (vrt_cfg_ncpus + 1)) - (vrt_rand() % 8 == 0);	/* sometimes out of range */
				struct call_rcu_data *h = do_create(fl, cpu), *old;
				if (do_set_cpu(cpu, h) != 0) {
					do_free(h);
				} else {
					vrt_sleep(50 + vrt_rand() % 600);
					/* documented removal protocol: unpublish, wait for a grace period, free */
					do_lock();
					vrt_log("CALL get_cpu %d", cpu);
					old = get_cpu_call_rcu_data(cpu);
					vrt_log("RET get_cpu crd%d", crd_id(old));
					do_unlock();
					if (old) {
						do_set_cpu(cpu, NULL);
						do_sync();
						do_free(old);
					}
				}
			} else {
				do_free_all();
			}
		} else {
			if (c < 50) {
				do_create_all(fl);
			} else {
				int cpu = (int)(vrt_rand() % vrt_cfg_ncpus);
				struct call_rcu_data *h = do_create(fl, cpu);
				if (do_set_cpu(cpu, h) != 0)
					do_free(h);
			}
		}
		vrt_sleep(20 + vrt_rand() % 400);
	}
	vrt_log("CALL unregister");
	rcu_unregister_thread();
	vrt_log("RET unregister");
	return NULL;
}

int main(int argc, char **argv)
{
	int i, wt[MAXW], at[2], na = 0;
	argc = vrt_init(argc, argv);
	for (i = 1; i < argc; i++) {
		if (!strcmp(argv[i], "--workers") && i + 1 < argc) nworkers = atoi(argv[++i]);
		else if (!strcmp(argv[i], "--ops") && i + 1 < argc) nops = atoi(argv[++i]);
		else if (!strcmp(argv[i], "--admin") && i + 1 < argc) use_admin = atoi(argv[++i]);
		else if (!strcmp(argv[i], "--park")) park = 1;
		else if (!strcmp(argv[i], "--rt") && i + 1 < argc) rtpct = atoi(argv[++i]);
		else if (!strcmp(argv[i], "--chain") && i + 1 < argc) chainpct = atoi(argv[++i]);
		else if (!strcmp(argv[i], "--predefault")) prebarrier = 1;
		else if (!strcmp(argv[i], "--oneshot") && i + 1 < argc) oneshot = atoi(argv[++i]);
		else if (!strcmp(argv[i], "--nobarrier")) nobarrier = 1;
	}
	if (nworkers > MAXW) nworkers = MAXW;
	if (nworkers < 1) nworkers = 1;
	if (use_admin > 2) use_admin = 2;
	vrt_name(&rcu_gp.ctr, sizeof(rcu_gp.ctr), "gp.ctr");
#ifndef CALLRCU_BP
	vrt_name(&rcu_gp.futex, sizeof(rcu_gp.futex), "gp.futex");
	vrt_name(&gp_waiters.stack.head, sizeof(void *), "waiters.head");
#else
	vrt_unknown_hook = bp_resolve;
	vrt_name(&init_lock, sizeof(init_lock), "init_lock");
#endif
	vrt_name(&rcu_gp_lock, sizeof(rcu_gp_lock), "gp_lock");
	vrt_name(&rcu_registry_lock, sizeof(rcu_registry_lock), "registry_lock");
	name_reader(0);
	{
		/* symbolic name for the main thread's stack (on-stack wait nodes of synchronize_rcu) */
		char here;
		uintptr_t top = ((uintptr_t)&here + 4096) & ~(uintptr_t)4095;
		vrt_name((void *)(top - (1 << 20)), 1 << 20, "stack0");
	}
	vrt_name(&call_rcu_mutex, sizeof(call_rcu_mutex), "call_rcu_mutex");
	vrt_name(&default_call_rcu_data, sizeof(default_call_rcu_data), "dflt");
	vrt_name(&per_cpu_call_rcu_data, sizeof(per_cpu_call_rcu_data), "percpu_ptr");
	vrt_raw("CFG flavor=" FLAVOR " membarrier=%d ncpus=%d workers=%d admin=%d", HAS_MEMB, vrt_cfg_ncpus, nworkers, use_admin);
	if (prebarrier && !nobarrier) {
		/* rcu_barrier() with no helper at all, then the default helper created eagerly */
		do_barrier();
		vrt_log("CALL get_default");
		vrt_log("RET get_default crd%d", crd_id(get_default_call_rcu_data()));
	}
	if (oneshot) {
		nworkers = 1;
		use_admin = 0;
		wt[0] = vrt_spawn("worker", oneshot_thread, NULL);
		if (oneshot == 5 || oneshot == 6) {
			struct call_rcu_data *h;
			signal(SIGSEGV, segv_uaf);
			h = do_create(0, 0);
			do_set_cpu(0, h);
			/* T1 runs its call_rcu() now (polling threads run only when nobody else can); it is held
			 * somewhere inside by --hold-at, which is when this thread goes on */
			vrt_log("CALL wait_worker");
			while (!w_started)
				(void) poll(NULL, 0, 1);
			vrt_log("RET wait_worker");
			if (oneshot == 5) {
				do_set_cpu(0, NULL);
				do_sync();
				do_free(h);
			} else
				do_free_all();
		} else {
			vrt_log("CALL get_default");
			vrt_log("RET get_default crd%d", crd_id(get_default_call_rcu_data()));
		}
	}
	for (i = 0; i < nworkers && !oneshot; i++)
		wt[i] = vrt_spawn("worker", worker, (void *)(long)(i + 1));
	for (i = 0; i < use_admin; i++)
		at[na++] = vrt_spawn("admin", admin, (void *)(long)i);
	for (i = 0; i < nworkers; i++)
		vrt_join(wt[i]);
	for (i = 0; i < na; i++)
		vrt_join(at[i]);
	/* teardown: per-CPU helpers (leftovers go to the default helper), then one barrier per generation */
	vrt_log("FINAL");
	do_free_all();
	if (nobarrier) {
		/* C03 runs that do not execute rcu_barrier() at all: wait (logical time) until every callback has run */
		int k, left = 1;
		for (k = 0; k < 4000 && left; k++) {
			left = 0;
			for (i = 1; i <= ncb; i++)
				if (!cbs[i]->finished)
					left = 1;
			if (left)
				vrt_sleep(40);
		}
	} else
		for (i = 0; i <= maxchain; i++)
			do_barrier();
	for (i = 1; i <= ncb; i++)
		if (cbs[i]->invoked != 1 || !cbs[i]->finished)
			vrt_fail("once", "callback %d invoked %d times (finished=%d) at the end of the run", i, cbs[i]->invoked, cbs[i]->finished);
	/* stop the default helper through the library's own exit path (not under the sweep strategy: its
	 * lowest-tid-first rule would let the main thread's poll loop starve the helper's poll) */
	if (!oneshot) {
		vrt_log("CALL exit");
		urcu_call_rcu_exit();
		vrt_log("RET exit");
		if (default_call_rcu_data != NULL)
			vrt_fail("once", "default helper still has callbacks queued at exit");
	}
	poison_check();
	vrt_raw("# SUMMARY callbacks=%d helpers=%d barriers=%d", ncb, ncrd, ncompl);
	if (oneshot) {
		/* the default helper stays asleep (no exit path, see above): end the run without joining it */
		vrt_raw("# END oneshot failed=%d", vrt_failed);
		fflush(NULL);
		_exit(vrt_failed ? 3 : 0);
	}
	vrt_finish();
	return vrt_failed ? 3 : 0;
}
