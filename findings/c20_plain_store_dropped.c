/*
 * Side finding on the UNCHANGED library (not part of the mutation):
 * include/urcu/uatomic/x86.h declares the memory operand of uatomic_add/sub/
 * inc/dec/and/or as "=m" (write-only) instead of "+m".  GCC -O2 may therefore
 * delete a preceding plain store to the same object as dead.
 *   gcc -O2 -I<tree>/include side_finding_plain_store_dropped.c && ./a.out
 * prints 6 (wrong) with gcc 12.2 -O2, 11 with -O0.
 */
#include <stdio.h>
#include <urcu/uatomic.h>

long g;

__attribute__((noinline)) long f(long old)
{
	g = 5;
	cmm_barrier();
	g = old;		/* plain store: eliminated at -O2 */
	uatomic_inc(&g);
	return g;
}

int main(void)
{
	long r = f(10);

	printf("%ld (expected 11)\n", r);
	return r != 11;
}
