/*
 * C16 finding (QSBR): call_rcu_before_fork() called by a registered, ONLINE qsbr reader never
 * returns when a call_rcu helper is inside synchronize_rcu() for its batch: the helper waits for the
 * caller's quiescent state, the caller polls for the helper's PAUSED flag.
 * (rcu_barrier() goes offline around its wait for exactly this reason; before_fork did not.)
 * Repaired by /repo commit 1436da4 "fix: call_rcu_before_fork() goes offline in QSBR while waiting
 * for the call_rcu threads to pause".
 *
 * Stand-alone reproducer against the built library (no harness):
 *   gcc -O1 -I/repo/include -o /tmp/c16_qsbr c16_qsbr_online_before_fork.c \
 *       -L/repo/src/.libs -lurcu-qsbr -lurcu-common -lpthread
 *   LD_LIBRARY_PATH=/repo/src/.libs /tmp/c16_qsbr
 * exit 0 + "ok": before_fork returned (repaired library);  killed by SIGALRM / exit 1 + "HANG":
 * the defect (library before 1436da4).
 */
#include <stdio.h>
#include <stdlib.h>
#include <signal.h>
#include <unistd.h>
#include <sys/wait.h>
#include <urcu/urcu-qsbr.h>

static volatile int ran;

static void cb(struct rcu_head *h)
{
	(void)h;
	ran = 1;
}

static void on_alarm(int sig)
{
	static const char msg[] = "HANG: call_rcu_before_fork() did not return within 5 s (online qsbr caller)\n";
	(void)sig;
	if (write(2, msg, sizeof(msg) - 1) < 0) { }
	_exit(1);
}

int main(void)
{
	static struct rcu_head head;
	pid_t pid;
	int st;

	urcu_qsbr_register_thread();		/* registered and online, as the property allows */
	urcu_qsbr_call_rcu(&head, cb);		/* the default helper splices it and enters synchronize_rcu() ... */
	usleep(200 * 1000);			/* ... where it waits for THIS thread's quiescent state (we announce none) */
	if (ran) {
		fprintf(stderr, "callback already ran: the helper was not caught inside its grace period\n");
		return 2;
	}
	signal(SIGALRM, on_alarm);
	alarm(5);
	urcu_qsbr_call_rcu_before_fork();	/* unfixed: waits for PAUSED forever */
	alarm(0);
	pid = fork();
	if (pid == 0) {
		urcu_qsbr_call_rcu_after_fork_child();
		urcu_qsbr_synchronize_rcu();
		_exit(0);
	}
	urcu_qsbr_call_rcu_after_fork_parent();
	waitpid(pid, &st, 0);
	urcu_qsbr_quiescent_state();
	urcu_qsbr_barrier();
	urcu_qsbr_unregister_thread();
	printf("ok: before_fork returned, child status %d, callback ran=%d\n", WEXITSTATUS(st), ran);
	return WIFEXITED(st) && WEXITSTATUS(st) == 0 ? 0 : 3;
}
