/* C13 finding: a thread cannot rcu_defer_register_thread() again after unregistering once a
 * defer barrier has run (assertion last_head == 0 aborts; unfixed tree).
 * build: gcc -I$REPO/include c13_defer_reregister.c -L$REPO/src/.libs -lurcu-memb -o c13 ; LD_LIBRARY_PATH=$REPO/src/.libs ./c13 */
#include <stdio.h>
#define RCU_MEMBARRIER
#include <urcu.h>
static int ran;
static void cb(void *p) { (void)p; ran++; }
int main(void)
{
	rcu_register_thread();
	rcu_defer_register_thread();
	defer_rcu(cb, NULL);
	rcu_defer_barrier();
	rcu_defer_unregister_thread();
	printf("unregistered, ran=%d; registering again ...\n", ran); fflush(stdout);
	rcu_defer_register_thread();
	defer_rcu(cb, NULL);
	rcu_defer_unregister_thread();
	printf("second round ok, ran=%d\n", ran);
	rcu_unregister_thread();
	return ran == 2 ? 0 : 1;
}
