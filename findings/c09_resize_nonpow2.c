/* C09 finding: cds_lfht_resize() with a non-power-of-two size never returns (unfixed tree).
 * build: gcc -I$REPO/include c09_resize_nonpow2.c -L$REPO/src/.libs -lurcu-cds -lurcu-memb -o c09 ; LD_LIBRARY_PATH=$REPO/src/.libs ./c09
 * exit 0 = all resizes returned; killed by SIGALRM = hang. */
#include <stdio.h>
#include <unistd.h>
#define RCU_MEMBARRIER
#include <urcu.h>
#include <urcu/rculfhash.h>
int main(void)
{
	static const unsigned long req[] = { 3, 5, 6, 7, 12, 0, 1000, 2, 1 };
	unsigned i;
	struct cds_lfht *ht;
	rcu_register_thread();
	ht = cds_lfht_new(1, 1, 64, 0, NULL);
	alarm(5);
	for (i = 0; i < sizeof(req) / sizeof(req[0]); i++) {
		printf("resize(%lu) ...\n", req[i]); fflush(stdout);
		cds_lfht_resize(ht, req[i]);
		printf("  returned\n"); fflush(stdout);
	}
	cds_lfht_destroy(ht, NULL);
	rcu_unregister_thread();
	return 0;
}
